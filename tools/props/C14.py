"""C14 — pickle, copy and deepcopy reproduce every pendulum value exactly."""
from __future__ import annotations

import datetime as _dt
import itertools
import math
import random
import zoneinfo

from vlib import tzcases as T
from vlib import zones

ID = "C14"
PROPS = "Props/C14.v"
RULE = ("one case = one value x one route (pickle protocol 0..5, copy.copy, copy.deepcopy). DateTime: for each chosen zone (quick: 60 incl. ODD_ZONES, "
        "thorough: all) its gaps/overlaps (explicit table + POSIX-rule years) probed inside and just outside the repeated/skipped wall interval with fold 0 and 1, "
        "random wall times, naive values incl. 0001-01-01 / 9999-12-31T23:59:59.999999, UTC, fixed offsets (named and unnamed); Date: boundaries + random; "
        "standard-library (foreign) tzinfos - datetime.timezone.utc, datetime.timezone(+-offset incl. sub-minute and +-23:59:59), zoneinfo.ZoneInfo(key) - on DateTime "
        "(pinned 2013-10-27T02:30, random walls, ZoneInfo gaps/overlaps with fold 0 and 1), Time and Interval endpoints, observed through utcoffset / instant / tzinfo "
        "type and offset-or-key; Time: boundaries x fold x tzinfo; Duration and AbsoluteDuration: EVERY subset of the 8 components (years months weeks days hours minutes seconds "
        "microseconds) with all-positive, all-negative and mixed signs; Interval: forward / inverted / absolute, DateTime endpoints (same zone, two zones, fixed, "
        "naive, ambiguous endpoints with fold 0/1) and Date endpoints; Timezone (every chosen zone) and FixedTimezone objects; the generated MRO / resolution tables "
        "against the live classes. HISTORY streams (hist-*; one case = a whole process history, self-contained: [route, calls before the value is built, calls between "
        "construction and copy, calls after the copy, value]; module-level containers of the pendulum package, the local timezone and the locale are put back to their "
        "fresh-process state before and after each such case): the per-offset cache of pendulum.timezone(<int>) warmed by each public route that ends in "
        "pendulum.tz.fixed_timezone (timezone(int), datetime(tz=<hours>), instance(<stdlib fixed offset>), from_format(.. Z)) before / after an explicitly named "
        "FixedTimezone of the SAME offset is constructed and copied as an object, as tzinfo of a DateTime / Time, at both ends of an Interval; the reverse order (named zone "
        "copied first, then the default-named one); two names on one offset; calls that RAISED earlier (offset beyond timedelta's range, unknown zone name); earlier copies "
        "of values that are == to / share a key with the value yet distinguishable (one instant in three zones, fold 0/1, Time aware/naive, Date vs midnight DateTime, "
        "Duration(years=1,days=1) vs Duration(days=366) vs timedelta, Intervals of one length); named zones after timezone(name) / earlier copies / ZoneInfo of the same key; "
        "process-wide configuration set earlier (set_local_timezone(named fixed zone / tz-database zone), set_locale); hist-adjacent: a sample of neighbouring "
        "values of the plain streams, one copied and then the other along the same route, in both orders. Plain cases are run in fresh-process state as well (the state "
        "is put back before every case), so every failing case is reproducible from the case alone and what one value leaves behind for the next is examined by the "
        "hist-* streams (and by the runner's reverse-order / ambient passes). Oracle for these: the copy is judged exactly as without "
        "a history, every call of the history must return what it returns in a fresh process (default name / offset / exception), and neither the original nor the copy may "
        "change afterwards. NATIVE-INPUT streams (values built from standard-library inputs, all 8 routes, both backends): ivn-* = Intervals whose operands are "
        "datetime.datetime / datetime.date objects (tzinfo: zoneinfo.ZoneInfo, a pendulum Timezone carried by a native datetime, datetime.timezone, named FixedTimezone, none) "
        "built by Interval(a, b, absolute), pendulum.interval(a, b, absolute), a.diff(<native>, absolute) (mixed pendulum / native), `b - a` with a native operand; "
        "ivn-dst-span: both ends in one tz-database zone with an offset change BETWEEN them (1 day, 23 h, 25 h, a week, a month, a year apart, both directions, "
        "forward / absolute); ivn-dst-edge: an operand inside the repeated / skipped wall interval (fold 0 and 1), the other less than the width / a day / a month away; "
        "ivn-mixed, ivn-other (two zones, fixed offsets, UTC, naive, dates), ivn-pinned (Paris 2021-03-27/28 and 10-30/31 noon to noon, New York March, Lord Howe reversed); "
        "dti-* = pendulum.instance(<datetime.datetime>) around gaps / overlaps and for every kind of tzinfo. For every Interval (iv-* and ivn-*) the compared accessors are "
        "years months weeks remaining_days hours minutes remaining_seconds microseconds days seconds in_years in_months in_weeks in_days in_hours in_minutes in_seconds "
        "total_seconds total_days in_words(en) repr as_timedelta, endpoints (fields fold offset instant zone), absolute, invert, native timedelta value, ==. The original of a "
        "native-input case must show the stdlib's instant / offset of each operand in the pendulum zone of its tzinfo (UTC when naive) unless the wall time is skipped there "
        "(which existing time replaces it is C02 / C11). EQUAL-YET-DISTINGUISHABLE ENDPOINTS (iv-equal-instant, ivn-equal-instant; inside the protocol model): Intervals whose "
        "endpoints are == (one instant) in two zones / two tzinfo classes of one zone (Timezone, FixedTimezone with and without a name, datetime.timezone, ZoneInfo) / the two "
        "folds of one wall time, incl. the second occurrence of a repeated wall time seen from another zone; zero-length and 1 us long; forward and absolute; routes 0..7 plus "
        "two CONTAINER routes (8: copy.deepcopy([start, v, end])[1], 9: pickle protocol 5 of the same list - the memo is shared by the value and its own parts; the model sees "
        "them as deepcopy / protocol 5).  TWINS (hist-memo-twins, oracle-only: what a helper remembers of its last call is process state outside the protocol model): one case = "
        "build twin 1 (or build and copy it), build twin 2 = the value, an unrelated Interval or nothing, the copy (10 routes), everything observed again, an unrelated Interval, "
        "the value built ONCE MORE; twins have the same wall-clock fields and zone NAME at both ends and differ in one hidden attribute: fold of an end / of the start "
        "(Paris 2013, New York 2021, Lord Howe 2021 + random overlaps; start on the same day, 3 days earlier, in UTC), one microsecond, tzinfo class (Timezone vs ZoneInfo of one key), "
        "the offset behind one zone name (FixedTimezone(o1, 'X') vs (o2, 'X'), a default name / a tz-database name on another offset), Date vs naive midnight, naive vs UTC; both orders. "
        "Oracle for every history case in addition: the value built again after an unrelated Interval computation must observe exactly what the original observed when it was built "
        "after the history (all core and extra accessors). Every plain case is preceded by the same unrelated computation. non-trivial = distinct (value, route, history).")
EXHAUSTIVE = {"quick": False, "thorough": False}
TRUSTED = ["the pickle / copy / copyreg protocol of CPython and the native reducers of datetime.date / timedelta / tzinfo / zoneinfo.ZoneInfo as stated at the top of "
           "coq/Model/Pickle.v (the model interprets what __reduce_ex__ / __deepcopy__ hand to the protocol; the protocol itself is not modelled further)",
           "tools/vlib/gens/g60_pickle.py reads the class bodies (method resolution, state tuples, keyword lists, constructor parameters) into Gen/Reduce.v; "
           "its native-class table is compared with the live classes on every run (tables stream)",
           "Spec/Zone.v as the meaning of a Timezone's offset (validated by C02); Model/Duration.v as Duration.__new__ (validated by C09 and again here)",
           "Model/PickleHistory.v is a hand model of pendulum.tz.fixed_timezone / pendulum.timezone (the per-offset cache), tied to /repo by the hist-* correspondence only "
           "(no source pin); histories that set the local timezone or the locale, and hist cases whose value is a Date / Duration / Interval, are oracle-only",
           "Model/PickleNative.v is a hand model of DateTime.instance / _safe_timezone and of Interval.__new__ / __init__ on standard-library operands (over Model/TzConvert.create, "
           "validated by C02), tied to /repo by the ivn-* / dti-* correspondence only"]
ASSUMPTIONS = ["CPython with the C datetime module (timedelta.__reduce__ uses the native fields, not Duration's overriding attributes)",
               "aware DateTime cases stay 3 days away from year 1 / 9999 (utcoffset arithmetic would overflow); naive ones cover the full range",
               "the Duration deepcopy theorem holds on C09's exactness domain D9; its float premise float_split_exact_on_D9 is proved (Proofs/FloatRoundTripC09.v) and "
               "validated on every run by C09's and this check's dur-* streams"]
VM_SUBSET = 120

ROUTES = list(range(8))           # 0..5 pickle protocols, 6 copy.copy, 7 copy.deepcopy
# container routes (streams iv-equal-instant / ivn-equal-instant / hist-memo-twins only): the value travels INSIDE a list next to its own parts, so the memo of
# deepcopy / pickle is shared between the value and its parts: 8 = copy.deepcopy([start, v, end])[1] ([v, v][1] for a value without endpoints),
# 9 = pickle.loads(pickle.dumps(<the same list>, 5))[1].  For the protocol model they are deepcopy / pickle protocol 5 of the value.
ROUTE_DEEP_IN_LIST, ROUTE_PICKLE_IN_LIST = 8, 9
ROUTES_X = ROUTES + [ROUTE_DEEP_IN_LIST, ROUTE_PICKLE_IN_LIST]


def _eff_route(r):
    return 7 if r == ROUTE_DEEP_IN_LIST else 5 if r == ROUTE_PICKLE_IN_LIST else r
CLASSES = ["Date", "DateTime", "Time", "Duration", "AbsoluteDuration", "Interval", "Timezone", "FixedTimezone"]
PROTO = ["__reduce_ex__", "__reduce__", "__copy__", "__deepcopy__", "__getstate__", "__setstate__", "__getnewargs__",
         "__getnewargs_ex__", "__getinitargs__", "__new__", "__init__"]
COMPONENTS = ["years", "months", "weeks", "days", "hours", "minutes", "seconds", "microseconds"]
MAGN = {"years": 30, "months": 40, "weeks": 60, "days": 40, "hours": 50, "minutes": 100, "seconds": 10000, "microseconds": 2000000}
_KEY = None


def key_index(name):
    global _KEY
    if _KEY is None:
        _KEY = {n: i for i, n in enumerate(zones.names())}
    return _KEY[name]


# ----------------------------------------------------------------------------- cases
def _routes(out, stream, fn, value, routes=ROUTES):
    for r in routes:
        out.append({"stream": stream, "fn": fn, "args": [r] + value})


def _dur_values(rnd, reps):
    vals = []
    for mask in range(256):
        comps = [COMPONENTS[i] for i in range(8) if mask >> i & 1]
        for rep in range(reps):
            for sign in ("+", "-", "mixed"):
                v = {}
                for c in comps:
                    x = rnd.randrange(1, MAGN[c] + 1)
                    if rep == 0 and c in ("weeks", "years", "months", "days"):
                        x = rnd.randrange(1, 4)
                    s = 1 if sign == "+" else -1 if sign == "-" else rnd.choice((1, -1))
                    v[c] = s * x
                vals.append(v)
    return vals


def _dur_args(v):
    # order of the model entry point: days seconds microseconds milliseconds minutes hours weeks years months
    return [v.get("days", 0), v.get("seconds", 0), v.get("microseconds", 0), 0, v.get("minutes", 0), v.get("hours", 0),
            v.get("weeks", 0), v.get("years", 0), v.get("months", 0)]


def cases(tier, seed):
    rnd = random.Random(seed)
    out = []
    thorough = tier == "thorough"
    zs = list(zones.names()) if thorough else zones.pick_zones(rnd, 60)
    lo, hi = T.US_DAY * 3, T.MAX_WALL - T.US_DAY * 3
    # --- DateTime around every chosen gap / overlap
    for name in zs:
        trs = T.transition_probes(name, rnd, per_zone=(20 if thorough else 5))
        for (tt, o_pre, o_post) in trs:
            a = (tt + T.EPOCH_S + min(o_pre, o_post)) * T.MEG
            b = (tt + T.EPOCH_S + max(o_pre, o_post)) * T.MEG
            probes = [a - 1, a, (a + b) // 2 + 250001, b - 1, b]
            if not thorough:
                probes = [a - 1, a, (a + b) // 2 + 250001, b - 1] if o_post < o_pre else [a, b - 1]
            for W in probes:
                if not lo < W < hi:
                    continue
                for f in (0, 1):
                    _routes(out, "dt-overlap" if o_post < o_pre else "dt-gap", "dt", [W, f, name])
    # --- ordinary times
    fixed = [["F", 0, None], ["F", 3600, None], ["F", -3600 * 5 - 1800, "foo"], ["F", 20700, None], ["F", -86340, None], ["F", 86399, "x y"], ["F", 1, None],
             ["F", -59, None], ["F", 45 * 60, "+00:45"]]
    for _ in range(400 if thorough else 60):
        W = rnd.randrange(lo, hi)
        for f in (0, 1):
            _routes(out, "dt-named", "dt", [W, f, zs[rnd.randrange(len(zs))]])
    for W in [0, 1, T.MAX_WALL, T.MAX_WALL - 1, 735000 * T.US_DAY + 9045000001] + [rnd.randrange(0, T.MAX_WALL) for _ in range(20)]:
        for f in (0, 1):
            _routes(out, "dt-naive", "dt", [W, f, None])
    for fz in fixed + ["UTC"]:
        for _ in range(3):
            W = rnd.randrange(lo, hi)
            for f in (0, 1):
                _routes(out, "dt-fixed", "dt", [W, f, fz])
    # --- Date
    ords = [1, 2, 59, 60, 365, 366, 3652059, 3652058, 730120, 730179, 730180, 735000] + [rnd.randrange(1, 3652060) for _ in range(300 if thorough else 40)]
    for n in ords:
        _routes(out, "date", "date", [n])
    # --- Time
    tods = [0, 1, 999999, 1000000, 86399999999, 43200000000, 3600000000 * 2 + 30 * 60000000 + 1000005] + [rnd.randrange(0, 86400000000) for _ in range(40 if thorough else 8)]
    for t in tods:
        for f in (0, 1):
            for tz in (None, "Europe/Paris", "UTC", ["F", 3600, None], ["F", -12600, "foo"]):
                _routes(out, "time", "time", [t, f, tz])
    # --- Duration / AbsoluteDuration: every subset of components
    for v in _dur_values(rnd, 6 if thorough else 1):
        _routes(out, "dur-subsets", "dur", [0] + _dur_args(v))
    for v in _dur_values(rnd, 3 if thorough else 1)[::1 if thorough else 2]:
        _routes(out, "absdur-subsets", "dur", [1] + _dur_args(v))
    for v in ({}, {"weeks": 2, "days": 3}, {"years": 1, "months": 2, "days": 3}, {"days": -3, "hours": -5, "microseconds": -7},
              {"years": 6, "months": -73}, {"days": 6, "hours": 23, "minutes": 59, "seconds": 59, "microseconds": 999999}, {"days": 7},
              {"days": -7}, {"weeks": -1, "days": 6}, {"seconds": 86400 * 7 - 1}, {"microseconds": -1}, {"microseconds": 1},
              {"weeks": 2, "days": 3, "hours": 5}, {"weeks": -2, "days": -3}, {"years": 1, "months": 2, "weeks": 60, "days": 6, "microseconds": 7}):
        _routes(out, "dur-pinned", "dur", [0] + _dur_args(v))
        _routes(out, "absdur-pinned", "dur", [1] + _dur_args(v))
    # --- magnitudes beyond the float-exact domain of Duration.__new__ (C09's D9)
    big = [{"years": 1000, "microseconds": 1}, {"days": 200000, "microseconds": 1}, {"years": 300, "days": 3, "microseconds": 7},
           {"days": 699996, "microseconds": 5}, {"years": -300, "days": -3, "microseconds": -7}, {"days": 999999999, "hours": 23, "microseconds": 999999},
           {"days": -999999999}, {"years": 2000000, "months": 11, "microseconds": 123457}]
    for _ in range(200 if thorough else 24):
        v = {"days": rnd.choice((1, -1)) * rnd.randrange(100000, 900000000), "seconds": rnd.randrange(-90000, 90000), "microseconds": rnd.randrange(-999999, 1000000)}
        if rnd.random() < 0.5:
            v = {"years": rnd.choice((1, -1)) * rnd.randrange(100, 3000), "months": rnd.randrange(-20, 20), "days": rnd.randrange(-6, 7),
                 "seconds": rnd.randrange(-90000, 90000), "microseconds": rnd.randrange(-999999, 1000000)}
        big.append(v)
    for v in big:
        _routes(out, "dur-large", "dur", [0] + _dur_args(v))
    # --- Interval
    ivs = []
    amb = []          # ambiguous (zone, W) pairs
    for name in zs:
        for (tt, o_pre, o_post) in T.transition_probes(name, rnd, per_zone=(4 if thorough else 1)):
            if o_post < o_pre:
                a = (tt + T.EPOCH_S + o_post) * T.MEG
                b = (tt + T.EPOCH_S + o_pre) * T.MEG
                if lo + 800 * T.US_DAY < a < hi - 800 * T.US_DAY:
                    amb.append((name, (a + b) // 2))
    rnd.shuffle(amb)
    for name, W in amb[: (600 if thorough else 40)]:
        other = W + rnd.choice((-1, 1)) * rnd.randrange(1, 700 * T.US_DAY)
        other_zone = zs[rnd.randrange(len(zs))]
        for f in (0, 1):
            ivs.append([[1, W, f, name], [1, other, rnd.randrange(2), name]])
            ivs.append([[1, other, rnd.randrange(2), other_zone], [1, W, f, name]])
            ivs.append([[1, W, f, name], [1, W + rnd.choice((-1, 1)) * rnd.randrange(0, 1800 * T.MEG), 1 - f, name]])     # both inside / near the overlap
    for _ in range(200 if thorough else 25):
        W1, W2 = rnd.randrange(lo, hi), rnd.randrange(lo, hi)
        if rnd.random() < 0.5:
            W2 = W1 + rnd.randrange(-400 * T.US_DAY, 400 * T.US_DAY)
            W2 = min(max(W2, lo + 1), hi - 1)
        z1, z2 = zs[rnd.randrange(len(zs))], zs[rnd.randrange(len(zs))]
        ivs.append([[1, W1, rnd.randrange(2), z1], [1, W2, rnd.randrange(2), z2]])
        ivs.append([[1, W1, rnd.randrange(2), None], [1, W2, rnd.randrange(2), None]])
        ivs.append([[1, W1, 0, rnd.choice(fixed)], [1, W2, 0, rnd.choice(fixed)]])
        ivs.append([[1, W1, 0, "UTC"], [1, W2, 0, z2]])
        ivs.append([[0, W1 // T.US_DAY + 1], [0, W2 // T.US_DAY + 1]])
    ivs.append([[0, 1], [0, 3652059]])
    ivs.append([[0, 730120], [0, 730120]])
    ivs.append([[1, 0, 0, None], [1, T.MAX_WALL, 0, None]])
    ivs.append([[1, 735000 * T.US_DAY, 0, "UTC"], [1, 735000 * T.US_DAY, 0, "UTC"]])
    # the Interval that pickle changes (Paris 02:30 fold=1 -> 04:00), forward and given the wrong way round: copy.deepcopy must keep fold, length and invert
    W0230_ = 63518437800 * T.MEG
    ivs.append([[1, W0230_, 1, "Europe/Paris"], [1, W0230_ + 5400 * T.MEG, 0, "Europe/Paris"]])
    ivs.append([[1, W0230_ + 5400 * T.MEG, 0, "Europe/Paris"], [1, W0230_, 1, "Europe/Paris"]])
    ivs.append([[1, 63713433600 * T.MEG + 31622400 * T.MEG, 0, "UTC"], [1, 63713433600 * T.MEG, 0, "UTC"]])      # 2021-01-01 -> 2020-01-01
    for e1, e2 in ivs:
        for ab in (0, 1):
            _routes(out, "iv-date" if e1[0] == 0 else "iv-dt", "iv", [ab, e1, e2])
    # --- standard-library ("foreign") tzinfo: ["S", off] = datetime.timezone(timedelta(seconds=off)) (off 0: timezone.utc), ["Z", key] = zoneinfo.ZoneInfo(key).
    #     DateTime.tz / .timezone are None for these.  Own generator so that the streams above stay what they were for a given seed.
    rf = random.Random(seed * 7919 + 14)
    std = [["S", 0], ["S", 3600], ["S", -3661], ["S", 20700], ["S", 86399], ["S", -86399]]
    W0230 = 63518437800 * T.MEG          # 2013-10-27T02:30:00, repeated in Europe/Paris
    for fz in std + [["Z", "Europe/Paris"], ["Z", "UTC"]]:
        for f in (0, 1):
            _routes(out, "dt-foreign-pinned", "dt", [W0230, f, fz])
    for fz in std:
        for _ in range(8 if thorough else 2):
            W = rf.randrange(lo, hi)
            for f in (0, 1):
                _routes(out, "dt-foreign-offset", "dt", [W, f, fz])
    zf = list(zs) if thorough else rf.sample(list(zs), 14)
    for name in zf:
        W = rf.randrange(lo, hi)
        _routes(out, "dt-foreign-zoneinfo", "dt", [W, rf.randrange(2), ["Z", name]])
        for (tt, o_pre, o_post) in T.transition_probes(name, rf, per_zone=(4 if thorough else 1)):
            a = (tt + T.EPOCH_S + min(o_pre, o_post)) * T.MEG
            b = (tt + T.EPOCH_S + max(o_pre, o_post)) * T.MEG
            for W in ((a + b) // 2 + 250001, a - 1):
                if lo < W < hi:
                    for f in (0, 1):
                        _routes(out, "dt-foreign-zoneinfo", "dt", [W, f, ["Z", name]])
    for t in tods[:5]:
        for f in (0, 1):
            for tz in (["S", 0], ["S", -3661], ["S", 86399], ["Z", "Europe/Paris"]):
                _routes(out, "time-foreign", "time", [t, f, tz])
    ivf = []
    for _ in range(40 if thorough else 6):
        W1 = rf.randrange(lo + 800 * T.US_DAY, hi - 800 * T.US_DAY)
        W2 = W1 + rf.randrange(-400 * T.US_DAY, 400 * T.US_DAY)
        z1, z2 = zs[rf.randrange(len(zs))], zs[rf.randrange(len(zs))]
        ivf.append([[1, W1, rf.randrange(2), ["Z", z1]], [1, W2, 0, ["Z", z1]]])          # the same ZoneInfo object at both ends
        ivf.append([[1, W1, 0, ["Z", z1]], [1, W2, 0, ["Z", z2]]])
        ivf.append([[1, W1, 0, ["Z", z1]], [1, W2, 0, z1]])                                # ZoneInfo(key) against Timezone(key)
        ivf.append([[1, W1, 0, rf.choice(std)], [1, W2, 0, rf.choice(std)]])
        ivf.append([[1, W1, 0, ["S", 0]], [1, W2, 0, "UTC"]])
    ivf.append([[1, W0230, 1, ["Z", "Europe/Paris"]], [1, W0230 + 5400 * T.MEG, 0, ["Z", "Europe/Paris"]]])
    for e1, e2 in ivf:
        for ab in (0, 1):
            _routes(out, "iv-foreign", "iv", [ab, e1, e2])
    # --- Timezone / FixedTimezone objects
    for name in zs:
        _routes(out, "tz-named", "tz", [name])
    for fz in fixed + [["F", 0, ""], ["F", 7200, "UTC"], ["F", 359999, None], ["F", -360000, None], ["F", 3599, None], ["F", -3661, None]]:
        _routes(out, "tz-fixed", "tz", [fz])
    # --- copies in a process with a HISTORY (process-wide state: the per-offset cache of pendulum.timezone(<int>), the local timezone, the locale;
    #     earlier copies of values that are == / share a key with the value).  One case = the whole history + the copy + later probes.
    rh = random.Random(seed * 104729 + 1414)
    hist = _hist_cases(rh, thorough, zs, lo, hi)
    # every case above runs in fresh-process state (impl_run puts the module-level state back before each case), so what one value leaves behind
    # for the NEXT one is examined here, self-contained: a sample of neighbours of the streams above (same wall time with the other fold, the
    # same zone, the next component subset, ...), first one copied, then the other, along the same route - in both orders
    vals = [(c["fn"], c["args"][1:]) for c in out[::8]]
    for i in sorted(rh.sample(range(1, len(vals)), min(len(vals) - 1, 900 if thorough else 110))):
        (k1, v1), (k2, v2) = (vals[i - 1], vals[i]) if i % 2 else (vals[i], vals[i - 1])
        _hist(hist, "hist-adjacent", [["copy", SAME, k1, v1]], [], [], k2, v2)
    out += hist
    # --- values BUILT FROM STANDARD-LIBRARY (native) inputs: Interval(<datetime.datetime / date>), pendulum.interval(...), mixed Intervals
    #     (a.diff(<native>), Interval(<native>, <pendulum>)), `b - a` with a native operand, pendulum.instance(<datetime.datetime>).  Own generator.
    out += _native_cases(random.Random(seed * 15485863 + 1408), thorough, zs, lo, hi)
    # --- endpoints that are == yet distinguishable (one instant in two zones / tzinfo classes / folds), zero-length and 1 us long; own generator
    out += _equal_instant_cases(random.Random(seed * 32452843 + 1411), thorough, zs, lo, hi)
    # --- twins: two Intervals that differ in ONE hidden attribute (fold, microsecond, tzinfo class, offset behind one zone name, Date vs midnight), built back to back
    out += _twin_cases(random.Random(seed * 49979687 + 1410), thorough, zs, lo, hi)
    # --- generated tables vs the live classes
    for i in range(len(CLASSES)):
        out.append({"stream": "tables", "fn": "tables", "args": [i]})
    return out


# how an Interval of the ivn-* streams is built from its two operands a, b (each pendulum or standard-library, see endpoint tags 0..3)
HOW_CTOR, HOW_FACTORY, HOW_DIFF, HOW_SUB = 0, 1, 2, 3      # Interval(a, b, absolute) | pendulum.interval(a, b, absolute) | a.diff(b, absolute) | b - a
NATIVE_STEPS = [86400, -86400, 3600, 82800, 90000, 7 * 86400, 30 * 86400, -31 * 86400, 365 * 86400, 1800, 86400 + 5025]


def _nat(e):
    """The same endpoint as a standard-library value: tag 1 -> 2 (datetime.datetime), 0 -> 3 (datetime.date)."""
    return [2] + e[1:] if e[0] == 1 else [3] + e[1:]


def _native_cases(rn, thorough, zs, lo, hi):
    out = []
    lo2, hi2 = lo + 800 * T.US_DAY, hi - 800 * T.US_DAY
    std = [["S", 0], ["S", 3600], ["S", -3661], ["S", 20700], ["S", 86399]]
    pairs = []                       # (stream, how, absolute flags, e1, e2)

    def both(stream, e1, e2, hows=(HOW_CTOR, HOW_FACTORY)):
        for how in hows:
            pairs.append((stream, how, (0, 1), _nat(e1), _nat(e2)))

    # (a) both endpoints in ONE tz-database zone with an offset change between / at them: one calendar day, 23 / 25 h, a week, a month, a year apart
    znames = list(zs) if thorough else rn.sample(list(zs), 10)
    for name in znames + ["Europe/Paris", "America/New_York", "Australia/Lord_Howe"]:
        trs = T.transition_probes(name, rn, per_zone=(6 if thorough else 2))
        if not thorough and len(trs) > 2:
            trs = rn.sample(trs, 2)
        for ti, (tt, o_pre, o_post) in enumerate(trs):
            a = (tt + T.EPOCH_S + min(o_pre, o_post)) * T.MEG
            b = (tt + T.EPOCH_S + max(o_pre, o_post)) * T.MEG
            if not lo2 < a < hi2:
                continue
            kinds = [["Z", name], name] if thorough else [rn.choice((["Z", name], ["Z", name], name))]      # zoneinfo.ZoneInfo(key) / a pendulum Timezone carried by a native datetime
            for tzs in kinds:
                # well before the change -> after it (the interval CONTAINS the transition)
                W1 = a - rn.randrange(3600, 20 * 3600) * T.MEG - rn.choice((0, 0, 250001))
                step = rn.choice(NATIVE_STEPS)
                W2 = W1 + abs(step) * T.MEG
                if W2 <= b:
                    W2 += 86400 * T.MEG
                e1, e2 = [1, W1, 0, tzs], [1, W2, 0, tzs]
                if step < 0:
                    e1, e2 = e2, e1
                both("ivn-dst-span", e1, e2)
                # an endpoint INSIDE the repeated / skipped wall interval (fold 0 and 1), the other one less than a gap width / a day / a month away
                Wm = (a + b) // 2 + rn.choice((0, 250001))
                for f in (0, 1):
                    Wo = Wm + rn.choice((-1, 1)) * rn.choice((rn.randrange(1, max(2, (b - a) // T.MEG)) * T.MEG, 86400 * T.MEG, 30 * 86400 * T.MEG))
                    e1, e2 = [1, Wm, f, tzs], [1, Wo, rn.randrange(2), tzs]
                    if rn.random() < 0.5:
                        e1, e2 = e2, e1
                    both("ivn-dst-edge", e1, e2, hows=(HOW_CTOR,) if f else (HOW_CTOR, HOW_FACTORY))
            if ti and not thorough:
                continue
            # mixed: pendulum start, native end (DateTime.diff(<native>)) and the other way round; native operands of `-`
            W1 = a - rn.randrange(3600, 20 * 3600) * T.MEG
            W2 = W1 + rn.choice((86400, 30 * 86400, 7 * 86400)) * T.MEG
            e1, e2 = [1, W1, 0, name], [1, W2, 0, ["Z", name]]
            pairs.append(("ivn-mixed", HOW_DIFF, (0, 1), e1, _nat(e2)))
            pairs.append(("ivn-mixed", HOW_CTOR, (0, 1), _nat([1, W1, 0, ["Z", name]]), [1, W2, 0, name]))
            pairs.append(("ivn-mixed", HOW_SUB, (0,), _nat([1, W1, 0, ["Z", name]]), [1, W2, 0, name]))
            pairs.append(("ivn-mixed", HOW_SUB, (0,), [1, W2, 0, name], _nat([1, W1, 0, ["Z", name]])))
            pairs.append(("ivn-mixed", HOW_DIFF, (0, 1), [1, W2, 0, name], [1, W1, 0, name]))
            pairs.append(("ivn-mixed", HOW_SUB, (0,), [1, W1, 0, name], [1, W2, 0, name]))
    # (b) two zones, fixed offsets, UTC, naive values, dates
    for _ in range(60 if thorough else 6):
        W1 = rn.randrange(lo2, hi2)
        W2 = W1 + rn.randrange(-400 * T.US_DAY, 400 * T.US_DAY)
        z1, z2 = zs[rn.randrange(len(zs))], zs[rn.randrange(len(zs))]
        both("ivn-other", [1, W1, 0, ["Z", z1]], [1, W2, 0, ["Z", z2]], hows=(HOW_CTOR,))
        both("ivn-other", [1, W1, 0, rn.choice(std)], [1, W2, 0, rn.choice(std)], hows=(HOW_FACTORY,))
        both("ivn-other", [1, W1, 0, ["S", 0]], [1, W2, 0, ["Z", z2]], hows=(HOW_CTOR,))
        both("ivn-other", [1, W1, 0, None], [1, W2, 0, None], hows=(HOW_FACTORY,))
        both("ivn-other", [1, W1, 0, ["F", 19800, "IST"]], [1, W2, 0, ["F", 19800, "IST"]], hows=(HOW_CTOR,))
        both("ivn-other", [0, W1 // T.US_DAY + 1], [0, W2 // T.US_DAY + 1], hows=(HOW_CTOR, HOW_FACTORY))
    # pinned: one calendar day across the Paris spring-forward / fall-back nights of 2021, a month in New York, Lord Howe's half hour, reversed
    def w(y, mo, d, h=0, mi=0, s=0, us=0):
        return T.wall_of(_dt.datetime(y, mo, d, h, mi, s, us))
    for tzs, x1, x2 in ((["Z", "Europe/Paris"], w(2021, 3, 27, 12), w(2021, 3, 28, 12)), (["Z", "Europe/Paris"], w(2021, 10, 30, 12), w(2021, 10, 31, 12)),
                        (["Z", "America/New_York"], w(2021, 3, 1, 0, 30), w(2021, 4, 1, 0, 30)),
                        (["Z", "Australia/Lord_Howe"], w(2021, 4, 10, 1, 45, 30, 250000), w(2021, 3, 30, 1, 15)),
                        ("Europe/Paris", w(2021, 3, 27, 12), w(2021, 3, 28, 12))):
        both("ivn-pinned", [1, x1, 0, tzs], [1, x2, 0, tzs])
    for stream, how, abs_, e1, e2 in pairs:
        for ab in abs_:
            _routes(out, stream, "ivn", [how, ab, e1, e2])
    # (c) pendulum.instance(<datetime.datetime>) around gaps / overlaps (fold 0 and 1), random walls, every kind of tzinfo incl. none
    for name in (list(zs) if thorough else rn.sample(list(zs), 8)):
        for (tt, o_pre, o_post) in T.transition_probes(name, rn, per_zone=(4 if thorough else 1))[:(99 if thorough else 3)]:
            a = (tt + T.EPOCH_S + min(o_pre, o_post)) * T.MEG
            b = (tt + T.EPOCH_S + max(o_pre, o_post)) * T.MEG
            for W in ((a + b) // 2 + 250001, a - 1):
                if lo2 < W < hi2:
                    for f in (0, 1):
                        _routes(out, "dti-zoneinfo", "dti", [W, f, rn.choice((["Z", name], name))])
    for tzs in std + [None, ["F", 19800, "IST"], ["F", -3600, None], "UTC", ["Z", "UTC"]]:
        W = rn.randrange(lo2, hi2)
        for f in (0, 1):
            _routes(out, "dti-other", "dti", [W, f, tzs])
    return out


def _render(U, spec):
    """(wall microseconds, fold) of the UTC instant U in the zone of a tz spec, by the standard library."""
    n = T.native(U, 0, _dt.timezone.utc).astimezone(_ref_tz(spec))
    return T.wall_of(n), n.fold


def _w(y, mo, d, h=0, mi=0, s=0, us=0):
    return T.wall_of(_dt.datetime(y, mo, d, h, mi, s, us))


def _amb_list(rq, zs, lo, hi, n):
    amb = []
    for name in rq.sample(list(zs), min(len(zs), 3 * n)):
        for (tt, o_pre, o_post) in T.transition_probes(name, rq, per_zone=1):
            if o_post < o_pre:
                a = (tt + T.EPOCH_S + o_post) * T.MEG
                b = (tt + T.EPOCH_S + o_pre) * T.MEG
                if lo + 800 * T.US_DAY < a < hi - 800 * T.US_DAY:
                    amb.append((name, (a + b) // 2))
                    break
        if len(amb) >= n:
            break
    return amb


def _equal_instant_cases(rq, thorough, zs, lo, hi):
    """Intervals whose two endpoints are == (the same instant) but distinguishable: two zones, two tzinfo classes of one zone, two folds of an
    unambiguous wall time - zero-length, and 1 us long as the neighbour that must not be treated alike.  All 8 routes + the two container routes."""
    out = []
    lo2, hi2 = lo + 800 * T.US_DAY, hi - 800 * T.US_DAY
    fixed = [["F", 19800, None], ["F", 19800, "IST"], ["F", -12600, "x"], ["F", 0, None], ["F", 0, "UTC"], ["F", 3600, "Europe/Paris"]]
    foreign = [["S", 0], ["S", 19800], ["S", -3661]]
    pairs = []

    def pick():
        k = rq.randrange(6)
        if k <= 2:
            return zs[rq.randrange(len(zs))]
        if k == 3:
            return rq.choice(fixed)
        if k == 4:
            return rq.choice(foreign + [["Z", zs[rq.randrange(len(zs))]]])
        return "UTC"
    pinU = _w(2024, 3, 10, 11, 30, 15, 250)
    pinned = [(pinU, "Europe/Paris", "Asia/Tokyo"), (pinU, "Asia/Tokyo", "Europe/Paris"), (pinU, "Europe/Paris", ["F", 19800, None]), (pinU, "UTC", "America/New_York"),
              (pinU, "UTC", ["F", 0, "UTC"]), (pinU, "UTC", ["S", 0]), (pinU, ["Z", "UTC"], "UTC"), (pinU, "Europe/Paris", ["Z", "Europe/Paris"]),
              (pinU, ["F", 3600, None], ["F", 3600, "CET"]), (pinU, ["S", 3600], ["F", 3600, None]), (pinU, ["Z", "Europe/Paris"], ["Z", "Asia/Tokyo"])]
    for _ in range(60 if thorough else 10):
        pinned.append((rq.randrange(lo2, hi2), pick(), pick()))
    # an instant inside a repeated wall interval of the first zone (second occurrence: fold 1), seen from another zone as well
    for name, Wm in _amb_list(rq, zs, lo, hi, 12 if thorough else 3) + [("Europe/Paris", W_HIST)]:
        o1 = T.off_s(T.native(Wm, 1, zoneinfo.ZoneInfo(name)))
        pinned.append((Wm - o1 * T.MEG, name, pick()))
        pinned.append((Wm - o1 * T.MEG, "UTC", name))
    for U, z1, z2 in pinned:
        (W1, f1), (W2, f2) = _render(U, z1), _render(U, z2)
        pairs.append(([1, W1, f1, z1], [1, W2, f2, z2]))
        W3, f3 = _render(U + 1, z2)
        pairs.append(([1, W1, f1, z1], [1, W3, f3, z2]))            # 1 us apart: not equal
    # one wall time, one zone, the two folds (== when the wall time is unique there); naive likewise
    for _ in range(12 if thorough else 3):
        W = rq.randrange(lo2, hi2)
        z = rq.choice([zs[rq.randrange(len(zs))], "UTC", None, ["F", 3600, None]])
        pairs.append(([1, W, 0, z], [1, W, 1, z]))
        pairs.append(([1, W, 1, z], [1, W, 0, z]))
    for e1, e2 in pairs:
        for ab in (0, 1):
            _routes(out, "iv-equal-instant", "iv", [ab, e1, e2], ROUTES_X)
    # the same from standard-library operands (the endpoints are then pendulum.instance() of them)
    for U, z1, z2 in pinned[:11:2] + pinned[11:14]:
        if any(isinstance(z, list) and z[0] == "F" and z[2] for z in (z1, z2)):
            continue
        (W1, f1), (W2, f2) = _render(U, z1), _render(U, z2)
        _routes(out, "ivn-equal-instant", "ivn", [HOW_CTOR, 0, [2, W1, f1, z1], [2, W2, f2, z2]], ROUTES_X)
        _routes(out, "ivn-equal-instant", "ivn", [HOW_DIFF, 1, [1, W1, f1, z1], [2, W2, f2, z2]], [3, 6, 7, 8])
    return out


UNRELATED_IV = [0, [1, _w(2019, 3, 5, 7), 0, "UTC"], [1, _w(2020, 1, 1), 0, "UTC"]]


def _twin_cases(rq, thorough, zs, lo, hi):
    """hist-memo-twins.  One case = [build twin 1] [build twin 2 = the value] [build an unrelated Interval | nothing] [copy the value along the route]
    [observe original and copy again] [unrelated Interval, then build the value once more].  The twins have the same wall-clock fields and zone NAME at
    both ends and differ in exactly one hidden attribute; both orders."""
    out = []
    H = 3600 * T.MEG
    tw = []                     # (a, b, b') : Interval(a, b) and Interval(a, b') are twins; a may be None for whole-interval twins given as (None, iv, iv')
    ambs = [("Europe/Paris", W_HIST), ("America/New_York", _w(2021, 11, 7, 1, 30)), ("Australia/Lord_Howe", _w(2021, 4, 4, 1, 45))]
    ambs += _amb_list(rq, zs, lo, hi, 20 if thorough else 4)
    for i, (z, W) in enumerate(ambs):
        for a in ([1, W - H, 0, z], [1, W - 3 * T.US_DAY - 5025 * T.MEG, 0, z], [1, W + 5 * H, 0, "UTC"])[: (3 if (thorough or i < 3) else 1)]:
            tw.append(("fold", [a, [1, W, 0, z]], [a, [1, W, 1, z]]))
        tw.append(("fold-start", [[1, W, 0, z], [1, W + 7 * H + 1, 0, z]], [[1, W, 1, z], [1, W + 7 * H + 1, 0, z]]))
        tw.append(("microsecond", [[1, W - H, 0, z], [1, W + 3 * H, 0, z]], [[1, W - H, 0, z], [1, W + 3 * H + 1, 0, z]]))
        tw.append(("tzinfo-class", [[1, W - H, 0, z], [1, W, 1, z]], [[1, W - H, 0, ["Z", z]], [1, W, 1, ["Z", z]]]))
        tw.append(("tzinfo-class", [[1, W - H, 0, z], [1, W, 1, z]], [[1, W - H, 0, z], [1, W, 1, ["Z", z]]]))
    for _ in range(6 if thorough else 2):
        W = rq.randrange(lo + 800 * T.US_DAY, hi - 800 * T.US_DAY)
        L = rq.randrange(1, 40 * T.US_DAY)
        o1, o2 = rq.sample([3600, 7200, -18000, 19800, 0, 45 * 60], 2)
        # one zone NAME on two offsets (FixedTimezone(o1, "X") / FixedTimezone(o2, "X")), at one end
        tw.append(("offset-one-name", [[1, W, 0, ["F", o1, "X"]], [1, W + L, 0, ["F", o1, "X"]]], [[1, W, 0, ["F", o1, "X"]], [1, W + L, 0, ["F", o2, "X"]]]))
        tw.append(("offset-one-name", [[1, W, 0, ["F", o1, "X"]], [1, W + H, 0, ["F", o1, "X"]]], [[1, W, 0, ["F", o2, "X"]], [1, W + H, 0, ["F", o1, "X"]]]))
        # the default name of one offset carried by another offset
        tw.append(("offset-one-name", [[1, W, 0, ["F", o1, None]], [1, W + L, 0, ["F", o1, None]]], [[1, W, 0, ["F", o1, None]], [1, W + L, 0, ["F", o2, _default_name(o1)]]]))
        # a tz-database name carried by a fixed zone
        tw.append(("offset-one-name", [[1, W, 0, "Europe/Paris"], [1, W + L, 0, "Europe/Paris"]], [[1, W, 0, "Europe/Paris"], [1, W + L, 0, ["F", -7200, "Europe/Paris"]]]))
        # Dates against the naive DateTimes at their midnights; naive against UTC
        d0, n = W // T.US_DAY + 1, L // T.US_DAY + 1
        tw.append(("date-midnight", [[0, d0], [0, d0 + n]], [[1, (d0 - 1) * T.US_DAY, 0, None], [1, (d0 + n - 1) * T.US_DAY, 0, None]]))
        tw.append(("naive-utc", [[1, W, 0, None], [1, W + L, 0, None]], [[1, W, 0, "UTC"], [1, W + L, 0, "UTC"]]))
    for i, (what, t1, t2) in enumerate(tw):
        for k, (x, y) in enumerate(((t1, t2), (t2, t1))):
            ab = (i + k) % 2 if what != "fold" else 0
            evict = [["mk", "iv", UNRELATED_IV]]
            # twin 1 built (or built and copied), the value built right after it; an unrelated computation before the copy / none
            _hist(out, "hist-memo-twins", [["mk", "iv", [ab] + x]], evict, [], "iv", [ab] + y, routes=ROUTES_X)
            if what == "fold" or i % 3 == 0:
                _hist(out, "hist-memo-twins", [["mk", "iv", UNRELATED_IV], ["copy", SAME, "iv", [ab] + x]], [], [["mk", "iv", [ab] + x]], "iv", [1 - ab] + y, routes=[0, 5, 6, 7, 8])
    return out



HIST_OFFS = [19800, -10800, 3600, 0, -3661, 86399, -86340, 2700, 1, -59, 20700, 43200]
HIST_NAMES = ["IST", "ART", "x y", "UTC", "+05:30", "Europe/Paris", "Zo\u00eb", "-03:00", "a"]
BIG_OFF = 10 ** 14                 # FixedTimezone(BIG_OFF): timedelta(seconds=...) overflows -> the factory call raises
W_HIST = 63518437800 * T.MEG       # 2013-10-27T02:30:00


def _fillers(off):
    """Public calls that end in pendulum.tz.fixed_timezone(off)."""
    f = [["tzint", off]]
    if off % 900 == 0 and abs(off) <= 86400:
        f.append(["tznum", off])                 # pendulum.datetime(..., tz=<hours as int or float>)
    if off != 0 and abs(off) < 86400:
        f.append(["inst", off])                  # pendulum.instance(<datetime with datetime.timezone(off)>)
    if off % 60 == 0 and abs(off) < 86400:
        f.append(["fromformat", off])            # pendulum.from_format("... +HH:mm", "... Z")
    return f


SAME = -1        # route of a nested copy: the route of the main copy


def _hist(out, stream, pre, mid, post, kind, value, routes=ROUTES):
    for r in routes:
        fix = lambda ops: [([o[0], r] + o[2:]) if (o[0] == "copy" and o[1] == SAME) else o for o in ops]      # noqa
        out.append({"stream": stream, "fn": "hist", "args": [r, fix(pre), fix(mid), fix(post), kind, value]})


def _hist_cases(rh, thorough, zs, lo, hi):
    out = []
    offs = HIST_OFFS + [rh.randrange(-86399, 86400) for _ in range(20 if thorough else 4)]
    names = HIST_NAMES

    def wall():
        return rh.randrange(lo, hi)

    def tod():
        return rh.randrange(0, 86400000000)
    # (A) the cache holds the default-named zone of an offset (filled by a factory call) when a zone of the SAME offset with an explicit name
    #     is copied - as an object, as the tzinfo of a DateTime / Time, at the ends of an Interval; afterwards the factory must still hand out the default name
    for i, off in enumerate(offs):
        fl = _fillers(off)
        nm = names[i % len(names)]
        for fop in fl:
            _hist(out, "hist-cache-then-named", [fop], [], [["tzint", off]], "tz", [["F", off, nm]])
        fop = fl[rh.randrange(len(fl))]
        _hist(out, "hist-cache-then-named", [fop], [], [["tzint", off]], "dt", [wall(), 0, ["F", off, nm]])
        _hist(out, "hist-cache-then-named", [fl[rh.randrange(len(fl))]], [], [["tzint", off]], "time", [tod(), 0, ["F", off, nm]])
        # the value exists already when the factory is called (history between construction and copy)
        _hist(out, "hist-value-then-cache", [], [fl[rh.randrange(len(fl))]], [["tzint", off]], "tz", [["F", off, names[(i + 3) % len(names)]]])
        _hist(out, "hist-value-then-cache", [["mk", "tz", [["F", off, "kept"]]]], [fl[rh.randrange(len(fl))]], [["tzint", off]], "dt", [wall(), 0, ["F", off, nm]])
        if i < (len(offs) if thorough else 5):
            W1 = wall()
            W2 = min(max(W1 + rh.randrange(-400 * T.US_DAY, 400 * T.US_DAY), lo + 1), hi - 1)
            _hist(out, "hist-cache-then-named", [fop], [], [["tzint", off]], "iv", [0, [1, W1, 0, ["F", off, nm]], [1, W2, 0, ["F", off, nm]]])
    # (B) the reverse order: a named zone is copied FIRST, then the default-named zone of the same offset is copied / handed out by the factory
    for i, off in enumerate(offs):
        nm = names[(i + 1) % len(names)]
        r0 = rh.choice([SAME, rh.randrange(8)])
        _hist(out, "hist-named-then-default", [["copy", r0, "tz", [["F", off, nm]]]], [], [["tzint", off]], "tz", [["F", off, None]])
        _hist(out, "hist-named-then-default", [["copy", rh.choice([SAME, rh.randrange(8)]), "dt", [wall(), 0, ["F", off, nm]]]], [], [["tzint", off]], "dt", [wall(), 0, ["F", off, None]])
        # two explicit names on one offset, one after the other
        _hist(out, "hist-two-names", [["copy", SAME, "tz", [["F", off, nm]]]], [], [["tzint", off], ["copy", rh.randrange(8), "tz", [["F", off, nm]]]],
              "tz", [["F", off, names[(i + 2) % len(names)]]])
    # (C) an earlier copy of a value that is == to (or shares a natural cache key with) the value, but is distinguishable from it
    for j in range(12 if thorough else 3):
        name = zs[rh.randrange(len(zs))]
        U = wall()
        n = T.native(U, 0, _dt.timezone.utc).astimezone(zoneinfo.ZoneInfo(name))
        Wz, fz = T.wall_of(n), n.fold
        off = rh.choice(offs)
        Wf = U + off * T.MEG
        r0 = SAME if j % 3 != 2 else rh.randrange(8)
        # one instant in three zones (==, same hash)
        _hist(out, "hist-equal-values", [["copy", r0, "dt", [U, 0, "UTC"]]], [], [], "dt", [Wf, 0, ["F", off, "named"]])
        _hist(out, "hist-equal-values", [["copy", r0, "dt", [Wf, 0, ["F", off, None]]], ["copy", 7, "dt", [U, 0, ["S", 0]]]], [], [], "dt", [Wz, fz, name])
        _hist(out, "hist-equal-values", [["copy", r0, "dt", [Wz, 0, name]]], [], [], "dt", [U, 0, "UTC"])
        # same fields and zone, the other fold (== and same hash on an unambiguous wall time)
        _hist(out, "hist-equal-values", [["copy", r0, "dt", [U, 0, "UTC"]]], [], [], "dt", [U, 1, "UTC"])
        _hist(out, "hist-equal-values", [["copy", r0, "dt", [U, 0, None]]], [], [], "dt", [U, 1, None])
        # a Time in two zones of one offset / aware against naive
        t = tod()
        _hist(out, "hist-equal-values", [["copy", r0, "time", [t, 0, ["F", 3600, "A"]]]], [], [], "time", [t, 0, ["F", 3600, None]])
        _hist(out, "hist-equal-values", [["copy", r0, "time", [t, 0, None]]], [], [], "time", [t, 0, "UTC"])
        # Date against the DateTime at its midnight, two Dates
        o = rh.randrange(2, 3652059)
        _hist(out, "hist-equal-values", [["copy", r0, "dt", [(o - 1) * T.US_DAY, 0, None]]], [], [], "date", [o])
        _hist(out, "hist-equal-values", [["copy", r0, "date", [o]]], [], [], "dt", [(o - 1) * T.US_DAY, 0, None])
    durs = [({"days": 366}, {"years": 1, "days": 1}), ({"years": 1, "days": 1}, {"days": 366}), ({"days": 30}, {"months": 1}), ({"months": 12}, {"days": 360}),
            ({"weeks": 1}, {"days": 7}), ({"hours": 24}, {"days": 1}), ({"days": -3, "hours": -5}, {"days": -3, "hours": -5}), ({}, {"years": 0})]
    for a, b in durs:
        _hist(out, "hist-equal-values", [["copy", SAME, "dur", [0] + _dur_args(a)]], [], [], "dur", [0] + _dur_args(b))
        _hist(out, "hist-equal-values", [["copy", rh.randrange(8), "dur", [0] + _dur_args(a)], ["copy", SAME, "td", _ref_td([0] + _dur_args(a))]], [], [], "dur", [0] + _dur_args(b))
        _hist(out, "hist-equal-values", [["copy", SAME, "dur", [1] + _dur_args(a)]], [], [], "dur", [0] + _dur_args(b))
    # Intervals of one length (== as timedeltas) with different endpoints / zones / absolute flags, and the Duration of that length
    for _ in range(8 if thorough else 3):
        W1 = rh.randrange(lo + 800 * T.US_DAY, hi - 800 * T.US_DAY)
        L = rh.randrange(1, 300 * T.US_DAY)
        sh = rh.randrange(1, 300) * T.US_DAY
        z1 = rh.choice(["UTC", None, ["F", 3600, "A"], ["F", -10800, None]])
        e = lambda W, z: [1, W, 0, z]      # noqa
        _hist(out, "hist-equal-values", [["copy", SAME, "iv", [0, e(W1, z1), e(W1 + L, z1)]]], [], [], "iv", [0, e(W1 + sh, z1), e(W1 + sh + L, z1)])
        _hist(out, "hist-equal-values", [["copy", SAME, "iv", [1, e(W1 + L, z1), e(W1, z1)]]], [], [], "iv", [0, e(W1, z1), e(W1 + L, z1)])
        _hist(out, "hist-equal-values", [["copy", SAME, "td", [L // T.US_DAY, L // T.MEG % 86400, L % T.MEG]]], [], [], "iv", [0, e(W1, z1), e(W1 + L, z1)])
        d0 = W1 // T.US_DAY + 1
        _hist(out, "hist-equal-values", [["copy", SAME, "iv", [0, [0, d0], [0, d0 + 5]]]], [], [], "iv", [0, [0, d0 + 9], [0, d0 + 14]])
    # (D) a call that RAISED earlier (and half-done work it may have left behind), alone and next to successful ones
    for i, off in enumerate(offs[: (len(offs) if thorough else 6)]):
        nm = names[(i + 4) % len(names)]
        bad = [["tzint", BIG_OFF], ["tzint", -BIG_OFF], ["mkbad", BIG_OFF, nm], ["tznamebad", "Not/AZone"]][i % 4]
        _hist(out, "hist-failed-call", [bad, ["tzint", off]], [], [["tzint", off], ["tzint", BIG_OFF]], "tz", [["F", off, nm]])
        _hist(out, "hist-failed-call", [["tzint", off], bad], [bad], [["tzint", off]], "dt", [wall(), 0, ["F", off, nm]])
        _hist(out, "hist-failed-call", [bad], [], [["tzint", off]], "tz", [["F", off, None]])
    # named zones: the factory for names, an earlier copy of the same zone, of a ZoneInfo of the same key, UTC in its three guises
    for name in rh.sample(list(zs), 6 if not thorough else 40):
        W = wall()
        _hist(out, "hist-named-zones", [["tzname", name], ["copy", rh.randrange(8), "tz", [name]]], [], [["tzname", name]], "tz", [name])
        _hist(out, "hist-named-zones", [["copy", rh.randrange(8), "dt", [W, 0, ["Z", name]]]], [["tzname", name]], [], "dt", [W, 0, name])
    _hist(out, "hist-named-zones", [["tzint", 0], ["tzname", "UTC"], ["copy", 2, "tz", [["F", 0, "UTC"]]]], [], [["tzint", 0], ["tzname", "UTC"]], "tz", ["UTC"])
    _hist(out, "hist-named-zones", [["tzname", "UTC"], ["copy", 7, "tz", ["UTC"]]], [], [["tzint", 0]], "tz", [["F", 0, "UTC"]])
    _hist(out, "hist-named-zones", [["tzname", "UTC"], ["tzint", 0]], [], [["tzint", 0]], "dt", [W_HIST, 0, ["F", 0, None]])
    # (E) process-wide CONFIGURATION set earlier: the local timezone (a named fixed zone, a tz-database zone), the locale
    confs = [[["setlocal", ["F", 19800, "LOC"]]], [["setlocal", "Europe/Paris"]], [["locale", "fr"]], [["tzint", 19800], ["setlocal", ["F", 19800, "LOC"]], ["locale", "de"]]]
    vals = [("dt", [W_HIST, 0, None]), ("dt", [W_HIST, 0, ["F", 19800, "IST"]]), ("dt", [W_HIST, 0, "Europe/Paris"]), ("time", [9000000000, 0, None]),
            ("time", [9000000000, 0, ["F", 19800, None]]), ("tz", [["F", 19800, "IST"]]), ("tz", ["Europe/Paris"]), ("date", [735000]),
            ("dur", [0] + _dur_args({"days": 3, "hours": 5})), ("iv", [0, [1, W_HIST, 0, None], [1, W_HIST + 5 * T.US_DAY, 0, None]])]
    for ci, conf in enumerate(confs):
        for vi, (kind, value) in enumerate(vals):
            if thorough or (ci + vi) % 2 == 0 or kind in ("tz",):
                _hist(out, "hist-configuration", conf, [], [["tzint", 19800]], kind, value)
                _hist(out, "hist-configuration", [], conf, [], kind, value, routes=[2, 6, 7])
    return out


def search_cases(seed):
    return cases("quick", seed + 1)


def nontrivial(c):
    return True


# ----------------------------------------------------------------------------- implementation side
def fcode(x):
    x = float(x)
    if x != x:
        return [6, 0, 0]
    if x == math.inf:
        return [4, 0, 0]
    if x == -math.inf:
        return [5, 0, 0]
    if x == 0:
        return [1, 0, 0] if math.copysign(1.0, x) < 0 else [0, 0, 0]
    m, e = math.frexp(abs(x))
    m = int(m * 2 ** 53)
    e -= 53
    if e < -1074:
        m >>= (-1074 - e)
        e = -1074
    return [3 if x < 0 else 2, m, e]


def _mk_tz(spec):
    import pendulum
    from pendulum.tz.timezone import FixedTimezone, Timezone
    if spec is None:
        return None
    if isinstance(spec, str):
        return Timezone(spec)
    if spec[0] == "S":
        return _dt.timezone.utc if spec[1] == 0 else _dt.timezone(_dt.timedelta(seconds=spec[1]))
    if spec[0] == "Z":
        return zoneinfo.ZoneInfo(spec[1])
    _, off, name = spec
    return FixedTimezone(off, name) if name is not None else FixedTimezone(off)


def _tz_obs(tz):
    from pendulum.tz.timezone import FixedTimezone, Timezone
    if tz is None:
        return [0]
    if type(tz) is Timezone:
        return [1, key_index(tz.name)]
    if type(tz) is FixedTimezone:
        nm = tz.name
        return [2, tz.offset, len(nm)] + [ord(ch) for ch in nm]
    if type(tz) is _dt.timezone:
        o = tz.utcoffset(None)
        us = (o.days * 86400 + o.seconds) * T.MEG + o.microseconds
        return [3, us // T.MEG] if us % T.MEG == 0 else [7, 3]
    if type(tz) is zoneinfo.ZoneInfo:
        return [4, key_index(tz.key)] if tz.key is not None else [7, 4]
    return [7]


def _dt_core(d):
    o = T.off_s(d)
    W = T.wall_of(d)
    if o is None:
        inst = W
    else:
        u = _dt.datetime(d.year, d.month, d.day, d.hour, d.minute, d.second, d.microsecond, tzinfo=d.tzinfo, fold=d.fold).astimezone(_dt.timezone.utc)
        inst = T.wall_of(u)
    return [d.year, d.month, d.day, d.hour, d.minute, d.second, d.microsecond, d.fold] + ([1, o] if o is not None else [0, 0]) + [inst] + _tz_obs(d.tzinfo)


def _dt_extra(d):
    return [str(d.timezone_name), str(d.offset), d.isoformat(), str(d.tzname()), d.int_timestamp if d.tzinfo is not None else 0,
            str(d.is_utc()) if d.tzinfo is not None else "", type(d.tz).__name__]


def _date_core(d):
    return [d.year, d.month, d.day]


def _ep_core(e):
    import pendulum
    return ([1] + _dt_core(e)) if isinstance(e, pendulum.DateTime) else ([0] + _date_core(e))


def _time_core(t):
    h, mi, s, us = t.hour, t.minute, t.second, t.microsecond
    return [h, mi, s, us, t.fold] + _tz_obs(t.tzinfo)


def _dur_core(d):
    from pendulum.duration import AbsoluteDuration
    return [1 if type(d) is AbsoluteDuration else 0, d.years, d.months, d.weeks, d.remaining_days, d.hours, d.minutes, d.remaining_seconds, d.microseconds,
            d.seconds, 1 if d.invert else 0, _dt.timedelta.days.__get__(d), _dt.timedelta.seconds.__get__(d), _dt.timedelta.microseconds.__get__(d)] + fcode(d.total_seconds())


def _dur_extra(d):
    # repr() is left out on purpose: it prints `days=` according to the private _days (see the report)
    return [d.in_words(locale="en"), d.total_days().hex(), d.in_days(), d.in_hours(), d.in_weeks(), d.days, str(d.as_timedelta())]


def _iv_core(i):
    return [1 if i._absolute else 0, 1 if i.invert else 0, _dt.timedelta.days.__get__(i), _dt.timedelta.seconds.__get__(i), _dt.timedelta.microseconds.__get__(i)] \
        + _ep_core(i.start) + _ep_core(i.end)


def _iv_extra(i):
    return [i.years, i.months, i.weeks, i.remaining_days, i.hours, i.minutes, i.remaining_seconds, i.microseconds, i.days, i.in_days(), i.in_months(),
            i.total_seconds().hex(), repr(i), type(i.start).__name__, type(i.end).__name__,
            i.in_years(), i.in_weeks(), i.in_hours(), i.in_minutes(), i.in_seconds(), i.seconds, i.total_days().hex(), i.in_words(locale="en"),
            str(i.as_timedelta()), str(i.as_duration() == i.as_timedelta())]


def _tz_extra(tz):
    probes = [_dt.datetime(2021, 1, 15, 12), _dt.datetime(2021, 7, 15, 12), _dt.datetime(1950, 3, 1), _dt.datetime(2013, 10, 27, 2, 30), _dt.datetime(2013, 10, 27, 2, 30, fold=1)]
    out = [tz.name, repr(tz), str(tz.utcoffset(None))]
    for p in probes:
        try:
            out.append(str(tz.utcoffset(p)) + "/" + str(tz.tzname(p)) + "/" + str(tz.dst(p)))
        except Exception as e:  # noqa
            out.append(type(e).__name__)
    if hasattr(tz, "offset"):
        out.append(tz.offset)
    return out


def _mk_ep(e):
    import pendulum
    if e[0] == 0:
        d = _dt.date.fromordinal(e[1])
        return pendulum.Date(d.year, d.month, d.day)
    _, W, f, tzs = e
    y, mo, d, h, mi, s, us = T.fields_of(W)
    return pendulum.DateTime(y, mo, d, h, mi, s, us, tzinfo=_mk_tz(tzs), fold=f)


def _mk_any_ep(e):
    """Endpoint tags 0 / 1: pendulum Date / DateTime; 3 / 2: the standard-library date / datetime with the same fields, fold and tzinfo."""
    if e[0] in (0, 1):
        return _mk_ep(e)
    if e[0] == 3:
        return _dt.date.fromordinal(e[1])
    _, W, f, tzs = e
    return T.native(W, f, _mk_tz(tzs))


def _build(fn, a):
    import pendulum
    from pendulum.duration import AbsoluteDuration
    if fn == "ivn":
        how, ab, e1, e2 = a
        x, y = _mk_any_ep(e1), _mk_any_ep(e2)
        if how == HOW_CTOR:
            v = pendulum.Interval(x, y, absolute=bool(ab))
        elif how == HOW_FACTORY:
            v = pendulum.interval(x, y, absolute=bool(ab))
        elif how == HOW_DIFF:
            v = x.diff(y, bool(ab))
        else:
            v = y - x
        return v, _iv_core, _iv_extra, True
    if fn == "dti":
        W, f, tzs = a
        return pendulum.instance(T.native(W, f, _mk_tz(tzs))), _dt_core, _dt_extra, True
    if fn == "dt":
        return _mk_ep([1] + a), _dt_core, _dt_extra, True
    if fn == "date":
        return _mk_ep([0] + a), _date_core, (lambda d: [str(d), d.toordinal()]), True
    if fn == "time":
        t, f, tzs = a
        s = t // T.MEG
        v = pendulum.Time(s // 3600, s // 60 % 60, s % 60, t % T.MEG, tzinfo=_mk_tz(tzs), fold=f)
        return v, _time_core, (lambda x: [x.isoformat(), str(x.utcoffset()), repr(x)]), True
    if fn == "dur":
        ab, days, seconds, us, ms, mi, h, w, y, mo = a
        cls = AbsoluteDuration if ab else pendulum.Duration
        v = cls(days=days, seconds=seconds, microseconds=us, milliseconds=ms, minutes=mi, hours=h, weeks=w, years=y, months=mo)
        return v, _dur_core, _dur_extra, True
    if fn == "iv":
        ab, e1, e2 = a
        return pendulum.Interval(_mk_ep(e1), _mk_ep(e2), absolute=bool(ab)), _iv_core, _iv_extra, True
    if fn == "tz":
        return _mk_tz(a[0]), _tz_obs, _tz_extra, False
    raise ValueError(fn)


def _build_any(kind, value):
    """(object, core observer, extra observer, want ==) for a value of any kind, incl. a standard-library timedelta (history only)."""
    if kind == "td":
        return _dt.timedelta(days=value[0], seconds=value[1], microseconds=value[2]), (lambda x: [x.days, x.seconds, x.microseconds]), (lambda x: [repr(x)]), True
    return _build(kind, value)


def _copy_by(route, v):
    import copy
    import pickle
    if route < 6:
        return pickle.loads(pickle.dumps(v, route))
    if route in (ROUTE_DEEP_IN_LIST, ROUTE_PICKLE_IN_LIST):
        box = [v.start, v, v.end] if hasattr(v, "start") and hasattr(v, "end") else [v, v]
        box2 = copy.deepcopy(box) if route == ROUTE_DEEP_IN_LIST else pickle.loads(pickle.dumps(box, 5))
        return box2[1]
    return copy.copy(v) if route == 6 else copy.deepcopy(v)


def _evict():
    """An unrelated Interval computation (2019-03-05T07:00 -> 2020-01-01 UTC): whatever a helper remembers of its LAST call no longer belongs to a value of the case."""
    import pendulum
    i = pendulum.Interval(pendulum.DateTime(2019, 3, 5, 7, tzinfo=pendulum.UTC), pendulum.DateTime(2020, 1, 1, tzinfo=pendulum.UTC))
    return i.months


def _state_snapshot():
    """Module-level mutable containers of the pendulum package (caches, tables) as they are in a fresh process."""
    import sys
    import pendulum
    snap = []
    for n, m in sorted(sys.modules.items()):
        if (n == "pendulum" or n.startswith("pendulum.")) and m is not None:
            for k, v in sorted(vars(m).items()):
                if type(v) in (dict, list, set) and not k.startswith("__"):
                    snap.append((v, type(v)(v)))
    ltz = sys.modules.get("pendulum.tz.local_timezone")
    return {"containers": snap, "locale": pendulum.get_locale(), "local": getattr(ltz, "_mock_local_timezone", None)}


def _state_restore(st):
    """Back to the state the process had when impl_run started (a fresh process, or the ambient configuration the runner set up): no case sees
    what earlier cases left behind in the package's module-level containers / the local timezone / the locale, nor leaves anything behind."""
    import pendulum
    for cont, saved in st["containers"]:
        same_ = len(cont) == len(saved) and (all(a is b for a, b in zip(cont, saved)) if isinstance(cont, list) else
                                              (all(k in cont and cont[k] is saved[k] for k in saved) if isinstance(cont, dict) else cont == saved))
        if not same_:
            cont.clear()
            (cont.extend if isinstance(cont, list) else cont.update)(saved)
    pendulum.set_local_timezone(st["local"])
    if pendulum.get_locale() != st["locale"]:
        pendulum.set_locale(st["locale"])


def _hist_op(op, alive):
    """One call of a history; canonical output [0, ...] / [1, exception code]."""
    import pendulum
    from pendulum.tz.timezone import FixedTimezone
    k = op[0]
    try:
        if k == "tzint":
            z = pendulum.timezone(op[1])
        elif k == "tznum":
            off = op[1]
            z = pendulum.datetime(2024, 3, 1, 10, 0, 0, tz=(off // 3600 if off % 3600 == 0 else off / 3600)).tzinfo
        elif k == "inst":
            z = pendulum.instance(_dt.datetime(2020, 5, 1, 12, tzinfo=_dt.timezone(_dt.timedelta(seconds=op[1])))).tzinfo
        elif k == "fromformat":
            off = op[1]
            q = abs(off) // 60
            z = pendulum.from_format("2020-01-01 %s%02d:%02d" % ("-" if off < 0 else "+", q // 60, q % 60), "YYYY-MM-DD Z").tzinfo
        elif k in ("tzname", "tznamebad"):
            z = pendulum.timezone(op[1])
        elif k == "mkbad":
            z = FixedTimezone(op[1], op[2])
        elif k == "mk":
            v, core, _extra, _eq = _build_any(op[1], op[2])
            alive.append(v)
            return [0] + core(v)
        elif k == "copy":
            v, core, _extra, want_eq = _build_any(op[2], op[3])
            co = core(v)
            try:
                w = _copy_by(op[1], v)
            except Exception as ex:  # noqa
                return [1, T.EXN.get(type(ex).__name__, 14), co, type(ex).__name__ + ": " + str(ex)[:160]]
            alive += [v, w]
            eq = 1 if (not want_eq or (w == v and not (w != v))) else 0
            return [0, 1 if type(w) is type(v) else 0, eq, co, core(w)]
        elif k == "setlocal":
            pendulum.set_local_timezone(_mk_tz(op[1]))
            return [0]
        elif k == "locale":
            pendulum.set_locale(op[1])
            return [0]
        else:
            raise ValueError(k)
        alive.append(z)
        return [0] + _tz_obs(z)
    except Exception as ex:  # noqa
        return [1, T.EXN.get(type(ex).__name__, 14)]


def _hist_run(a, snap):
    route, pre, mid, post, kind, value = a
    _state_restore(snap)
    alive, outs = [], []
    try:
        for op in pre:
            outs.append(_hist_op(op, alive))
        try:
            v, core, extra, want_eq = _build(kind, value)
            co, eo = core(v), extra(v)
        except Exception as ex:  # noqa
            return [2, type(ex).__name__, str(ex)[:200]]
        for op in mid:
            outs.append(_hist_op(op, alive))
        try:
            w = _copy_by(route, v)
        except Exception as ex:  # noqa
            res = [1, 0, 0, co, [T.EXN.get(type(ex).__name__, 14)], eo, [type(ex).__name__ + ": " + str(ex)[:160]]]
            w = None
        else:
            try:
                eq = 1 if (w == v and not (w != v)) else 0
                res = [0, 1 if type(w) is type(v) else 0, eq if want_eq else 1, co, core(w), eo, extra(w)]
            except Exception as ex:  # noqa
                return [3, type(ex).__name__, str(ex)[:200]]
        for op in post:
            outs.append(_hist_op(op, alive))
        # the original once more, after everything: copying (and the later calls) must not have changed it
        try:
            again = [core(v), extra(v)]
            cagain = [core(w), extra(w)] if w is not None else []
        except Exception as ex:  # noqa
            return [3, type(ex).__name__, str(ex)[:200]]
        # ... and the same construction once more, after an unrelated Interval computation: the value must not depend on what was computed before it
        try:
            _evict()
            v2, core2, extra2, _eq2 = _build(kind, value)
            rebuilt = [core2(v2), extra2(v2)]
        except Exception as ex:  # noqa
            rebuilt = ["raised", type(ex).__name__, str(ex)[:160]]
        return res + [outs, [] if again == [co, eo] else again, [] if (w is None or cagain == [res[4], res[6]]) else cagain, [] if rebuilt == [co, eo] else rebuilt]
    finally:
        _state_restore(snap)


def _tables(i):
    import pendulum
    from pendulum.duration import AbsoluteDuration
    from pendulum.tz.timezone import FixedTimezone, Timezone
    cls = [pendulum.Date, pendulum.DateTime, pendulum.Time, pendulum.Duration, AbsoluteDuration, pendulum.Interval, Timezone, FixedTimezone][i]
    mro = [c.__name__ for c in cls.__mro__]
    res = []
    for m in PROTO:
        res.append(m + "=" + next((c.__name__ for c in cls.__mro__ if m in vars(c)), ""))
    return ",".join(mro) + ",|" + ";".join(res) + ";"


def impl_run(cases):
    import copy
    import pickle
    import pendulum
    import pendulum.tz
    import pendulum.parsing     # noqa
    snap = _state_snapshot()
    out = []
    for c in cases:
        fn, a = c["fn"], c["args"]
        if fn == "hist":
            try:
                out.append(_hist_run(a, snap))
            except Exception as ex:  # noqa
                out.append([3, type(ex).__name__, str(ex)[:200]])
            continue
        try:
            if fn == "tables":
                out.append([0, _tables(a[0])])
                continue
            _state_restore(snap)          # a plain case = the value copied in fresh-process state; histories are the hist-* streams
            _evict()
            r = a[0]
            v, core, extra, want_eq = _build(fn, a[1:])
            co, eo = core(v), extra(v)
        except Exception as ex:  # noqa
            out.append([2, type(ex).__name__, str(ex)[:200]])
            continue
        try:
            w = _copy_by(r, v)
        except Exception as ex:  # noqa
            out.append([1, 0, 0, co, [T.EXN.get(type(ex).__name__, 14)], eo, [type(ex).__name__ + ": " + str(ex)[:160]]])
            continue
        try:
            eq = 1 if (w == v and not (w != v)) else 0
            out.append([0, 1 if type(w) is type(v) else 0, eq if want_eq else 1, co, core(w), eo, extra(w)])
        except Exception as ex:  # noqa
            out.append([3, type(ex).__name__, str(ex)[:200]])
    return out


# ----------------------------------------------------------------------------- model side
def _tz_enc(spec, lo_w, hi_w):
    """tzspec integers; lo_w / hi_w: wall microseconds spanned by the values that live in this zone."""
    if spec is None:
        return [0]
    if isinstance(spec, str):
        return [1, key_index(spec)] + T.zone_enc(spec, T.unix_of_wall(lo_w) - 90000, T.unix_of_wall(hi_w) + 90000)
    if spec[0] == "S":
        return [4, spec[1]]
    if spec[0] == "Z":
        return [5, key_index(spec[1])] + T.zone_enc(spec[1], T.unix_of_wall(lo_w) - 90000, T.unix_of_wall(hi_w) + 90000)
    _, off, name = spec
    if not name:
        return [3, off]          # FixedTimezone(off): the model computes the default name
    return [2, off, len(name)] + [ord(ch) for ch in name]


def _zone_of(tzs):
    """The tz-database key behind a tz spec (Timezone(key) or ZoneInfo(key)), else None."""
    if isinstance(tzs, str):
        return tzs
    if isinstance(tzs, (list, tuple)) and tzs and tzs[0] == "Z":
        return tzs[1]
    return None


def _is_foreign(tzs):
    return isinstance(tzs, (list, tuple)) and bool(tzs) and tzs[0] in ("S", "Z")


def _ep_enc(e, span):
    if e[0] in (0, 3):
        return [e[0], e[1]]
    tag, W, f, tzs = e
    lo, hi = span.get(_zone_of(tzs), (W, W))
    return [tag, W, f] + _tz_enc(tzs, lo, hi)


HIST_KIND = {"dt": 1, "time": 3, "tz": 6}
FACTORY_OPS = ("tzint", "tznum", "inst", "fromformat")
W_TZ = 735000 * T.US_DAY


def _op_enc(op):
    k = op[0]
    if k in FACTORY_OPS:
        return [1, op[1]]
    if k == "tzname":
        return [2, key_index(op[1])]
    if k == "mk" and op[1] == "tz":
        return [3] + _tz_enc(op[2][0], W_TZ, W_TZ)
    if k == "copy" and op[2] == "tz":
        return [4, _eff_route(op[1])] + _tz_enc(op[3][0], W_TZ, W_TZ)
    if k in ("copy", "mk", "mkbad", "tznamebad"):
        return [5]                   # leaves the cache alone; its own output is judged by the oracle only
    return None                      # process-wide configuration (local timezone, locale): outside the model


def _hist_model_call(a):
    route, pre, mid, post, kind, value = a
    if kind not in HIST_KIND:
        return None
    before = [_op_enc(o) for o in pre + mid]
    after = [_op_enc(o) for o in post]
    if any(x is None for x in before + after):
        return None
    if kind == "dt":
        W, f, tzs = value
        body = [W, f] + _tz_enc(tzs, W, W)
    elif kind == "time":
        t, f, tzs = value
        body = [t, f] + _tz_enc(tzs, W_TZ, W_TZ)
    else:
        body = _tz_enc(value[0], W_TZ, W_TZ)
    return [("hist", [_eff_route(route), HIST_KIND[kind], len(before)] + [x for o in before for x in o] + body + [len(after)] + [x for o in after for x in o])]


def model_calls(c, backend):
    fn, a = c["fn"], c["args"]
    if fn == "tables":
        return [("tables", [a[0]])]
    if fn == "hist":
        return _hist_model_call(a)
    r, v = a[0], a[1:]
    if fn == "dt":
        W, f, tzs = v
        body = [W, f] + _tz_enc(tzs, W, W)
    elif fn == "date":
        body = [v[0]]
    elif fn == "time":
        t, f, tzs = v
        body = [t, f] + _tz_enc(tzs, 735000 * T.US_DAY, 735000 * T.US_DAY)
    elif fn == "dur":
        body = list(v)
    elif fn == "iv":
        ab, e1, e2 = v
        span = {}
        for e in (e1, e2):
            if e[0] == 1 and _zone_of(e[3]) is not None:
                zn = _zone_of(e[3])
                lo, hi = span.get(zn, (e[1], e[1]))
                span[zn] = (min(lo, e[1]), max(hi, e[1]))
        body = [ab] + _ep_enc(e1, span) + _ep_enc(e2, span)
    elif fn == "tz":
        body = _tz_enc(v[0], 735000 * T.US_DAY, 735000 * T.US_DAY)
    elif fn == "ivn":
        how, ab, e1, e2 = v
        span = {}
        for e in (e1, e2):
            if e[0] in (1, 2) and _zone_of(e[3]) is not None:
                zn = _zone_of(e[3])
                lo, hi = span.get(zn, (e[1], e[1]))
                span[zn] = (min(lo, e[1]), max(hi, e[1]))
        body = [key_index("UTC"), 1 if how == HOW_SUB else 0, ab] + _ep_enc(e1, span) + _ep_enc(e2, span)
    elif fn == "dti":
        W, f, tzs = v
        body = [key_index("UTC"), W, f] + _tz_enc(tzs, W, W)
    else:
        return None
    return [(fn, [8] + body), (fn, [_eff_route(r)] + body)]


def model_result(c, backend, outs):
    if c["fn"] == "tables":
        o = outs[0]
        return [0, "".join(chr(x) for x in o[1:])] if o and o[0] == 0 else o
    if c["fn"] == "hist":
        o = outs[0]
        if not o or o[0] != 0:
            return o
        segs, i = [], 1
        while i < len(o):
            segs.append(o[i + 1:i + 1 + o[i]])
            i += 1 + o[i]
        return [0, segs]
    return outs


def _hist_same(c, m, r):
    route, pre, mid, post, kind, value = c["args"]
    if r[0] not in (0, 1) or m[0] != 0:
        return False
    segs = m[1]
    ops = pre + mid + post
    nb = len(pre) + len(mid)
    if len(segs) != len(ops) + 2 or len(r[7]) != len(ops):
        return False
    msegs = segs[:nb] + segs[nb + 2:]
    for op, ms, io in zip(ops, msegs, r[7]):
        if op[0] in FACTORY_OPS or op[0] == "tzname" or (op[0] == "mk" and op[1] == "tz"):
            if ms != io:
                return False
        elif op[0] == "copy" and op[2] == "tz":
            if ms != ([0] + io[4] if io[0] == 0 else io[:2]):
                return False
    if segs[nb] != r[3]:
        return False
    return segs[nb + 1] == ([1] + r[4] if r[0] == 1 else [0] + r[4])


def same(c, m, r):
    if c["fn"] == "tables":
        return m == r
    if c["fn"] == "hist":
        return _hist_same(c, m, r)
    if r[0] not in (0, 1):
        return False
    mo, mc = m
    if mo[0] != 0 or mo[1:] != r[3]:
        return False
    if r[0] == 1:
        return mc == [1] + r[4]
    return mc[0] == 0 and mc[1:] == r[4]


# ----------------------------------------------------------------------------- the property (stdlib only)
def _ref_tz(spec):
    if spec is None:
        return None
    if _zone_of(spec) is not None:
        return zoneinfo.ZoneInfo(_zone_of(spec))
    return _dt.timezone(_dt.timedelta(seconds=spec[1]))


def _ref_dt_core(W, f, tzs):
    """What the stdlib says a datetime with these fields / fold / zone is: fields, fold, offset, UTC instant."""
    tz = _ref_tz(tzs)
    n = T.native(W, f, tz)
    if tz is None:
        return list(T.fields_of(W)) + [f, 0, 0, W]
    o = T.off_s(n)
    return list(T.fields_of(W)) + [f, 1, o, W - o * T.MEG]


def _ref_ep_core(e):
    if e[0] == 0:
        d = _dt.date.fromordinal(e[1])
        return [0, d.year, d.month, d.day]
    return [1] + _ref_dt_core(e[1], e[2], e[3])


def _conv_spec(tzs):
    """The pendulum zone pendulum.instance gives a standard-library datetime with this tzinfo (DateTime.instance: tz = dt.tzinfo or UTC)."""
    if tzs is None:
        return "UTC"
    if isinstance(tzs, str):
        return tzs
    if tzs[0] == "Z":
        return tzs[1]
    if tzs[0] == "S":
        return "UTC" if tzs[1] == 0 else ["F", tzs[1], None]
    return tzs


def _ref_instance_core(W, f, tzs):
    """What the standard library says the value `datetime(fields of W, tzinfo, fold)` is once it lives in the pendulum zone _conv_spec(tzs):
    the same INSTANT (a naive value read as UTC), rendered by that zone (fields, offset); returns (core without fold, fold or None when the
    wall time is not repeated - the fold attribute of an unambiguous value is not part of what instance() promises)."""
    spec = _conv_spec(tzs)
    src = _ref_tz(tzs) if tzs is not None else _dt.timezone.utc
    n = T.native(W, f, src)
    o = T.off_s(n)
    inst = W - o * T.MEG
    dst = _ref_tz(spec)
    r = T.native(inst, 0, _dt.timezone.utc).astimezone(dst)
    Wr = T.wall_of(r)
    amb = _offsets_differ(Wr, spec) and T.off_s(T.native(Wr, 1, dst)) < T.off_s(T.native(Wr, 0, dst))
    return list(T.fields_of(Wr)) + [1, T.off_s(r), inst], (r.fold if amb else None)


def _skipped(W, tzs):
    """The wall time does not exist in the (tz-database) zone: which existing time pendulum.instance / DateTime.create substitutes for it is the
    subject of C02 / C11, not of this property - the original is then only required to be an aware DateTime of that zone."""
    if _zone_of(tzs) is None:
        return False
    tz = zoneinfo.ZoneInfo(_zone_of(tzs))
    return T.off_s(T.native(W, 0, tz)) < T.off_s(T.native(W, 1, tz))


def _ref_any_ep(e):
    """(expected core without the fold entry - None: any DateTime -, expected fold or None, expected zone observation or None) of an endpoint of an ivn case."""
    if e[0] in (0, 3):
        d = _dt.date.fromordinal(e[1])
        return [0, d.year, d.month, d.day], None, None
    if e[0] == 1:
        c = _ref_dt_core(e[1], e[2], e[3])
        return [1] + c[:7] + c[8:], c[7], _ref_tz_obs(e[3])
    if _skipped(e[1], e[3]):
        return None, None, _ref_tz_obs(_conv_spec(e[3]))
    c, fold = _ref_instance_core(e[1], e[2], e[3])
    return [1] + c, fold, _ref_tz_obs(_conv_spec(e[3]))


def _ref_native_inst(e, g):
    """UTC instant of an operand of an ivn case as Interval.__new__ sees it: the stdlib reading of a native operand, the observed instant of a pendulum one."""
    if e[0] != 2:
        return g[11]
    src = _ref_tz(e[3]) if e[3] is not None else _dt.timezone.utc
    return e[1] - T.off_s(T.native(e[1], e[2], src)) * T.MEG


# entries of _iv_extra that come from Interval._delta (precise_diff): years months weeks remaining_days hours minutes in_days in_months in_years in_weeks in_words
PDIFF_EXTRA = (0, 1, 2, 3, 4, 5, 9, 10, 15, 16, 22)


def _py_native_pdiff_region(specs, g1, g2):
    """Both endpoints DateTimes, precise_diff takes its UTC-normalising branch (different zone names or the same local date) and for some NATIVE operand
    the zone's offset at (instant - offset) is not the operand's offset (so pendulum's `d - d.utcoffset()` does not show the UTC fields)."""
    if g1[0] != 1 or g2[0] != 1 or g1[9] != 1 or g2[9] != 1:
        return False
    if g1[12:] == g2[12:] and g1[1:4] != g2[1:4]:
        return False
    for e, g in zip(specs, (g1, g2)):
        if e[0] != 2:
            continue
        zn = _zone_of(_conv_spec(e[3]))
        if zn is None:
            continue
        o = g[10]
        shifted = T.native(g[11] - o * T.MEG, 0, _dt.timezone.utc).astimezone(zoneinfo.ZoneInfo(zn))
        if T.off_s(shifted) != o:
            return True
    return False


def _has_skipped_native(*eps):
    return any(e[0] == 2 and _skipped(e[1], e[3]) for e in eps)


def _split_eps(got):
    """The two endpoint observations of an Interval core (after its 5 leading entries)."""
    n1 = 12 + _tzlen(got, 12) if got[0] == 1 else 4
    return got[:n1], got[n1:]


def _ep_matches(g, e):
    core, fold, tzobs = _ref_any_ep(e)
    if core is None:
        return g[0] == 1 and g[9] == 1 and g[12:] == tzobs
    if g[0] != core[0]:
        return False
    if g[0] == 0:
        return g == core
    return g[:8] + g[9:12] == core and (fold is None or g[8] == fold) and g[12:] == tzobs


def _ref_td(v):
    ab, days, seconds, us, ms, mi, h, w, y, mo = v
    ym = 0 if ab else y * 365 + mo * 30
    td = _dt.timedelta(days=days + ym, seconds=seconds, microseconds=us, milliseconds=ms, minutes=mi, hours=h, weeks=w)
    return [td.days, td.seconds, td.microseconds]


def _default_name(off):
    q = abs(off) // 60
    return "%s%02d:%02d" % ("-" if off < 0 else "+", q // 60, q % 60)


def _ref_tz_obs(spec):
    """What the constructor arguments say a timezone object shows: kind, key / offset and name."""
    if spec is None:
        return [0]
    if isinstance(spec, str):
        return [1, key_index(spec)]
    if spec[0] == "S":
        return [3, spec[1]]
    if spec[0] == "Z":
        return [4, key_index(spec[1])]
    nm = spec[2] or _default_name(spec[1])
    return [2, spec[1], len(nm)] + [ord(ch) for ch in nm]


def _hist_inner(c):
    route, pre, mid, post, kind, value = c["args"]
    return {"stream": c.get("stream"), "fn": kind, "args": [route] + value}


def _op_expect(op):
    """What a call of a history returns in ANY process (stdlib reading of its arguments); None: judged structurally (copies)."""
    k = op[0]
    if k in FACTORY_OPS or k == "mkbad":
        try:
            _dt.timedelta(seconds=op[1])
        except OverflowError:
            return [1, T.EXN["OverflowError"]]
        return [0] + _ref_tz_obs(["F", op[1], op[2] if k == "mkbad" else None])
    if k == "tzname":
        return [0, 1, key_index(op[1])]
    if k == "tznamebad":
        return [1, 14]
    if k == "mk" and op[1] == "tz":
        return [0] + _ref_tz_obs(op[2][0])
    if k in ("setlocal", "locale"):
        return [0]
    return None


def _nested_copy_diffs(op, o, backend):
    """An earlier copy inside a history is an ordinary case of its own: same judgement, the listed findings of the unchanged tree tolerated."""
    if op[2] == "td":
        return [] if (o[0] == 0 and o[1] and o[2] and o[3] == o[4]) else [f"copy of a standard-library timedelta differs: {o}"]
    inner = {"stream": "hist-nested", "fn": op[2], "args": [op[1]] + op[3]}
    r7 = [0, o[1], o[2], o[3], o[4], [], []] if o[0] == 0 else [1, 0, 0, o[2], [o[1]], [], [o[3]]]
    d = _diffs(inner, r7)
    if d and known(inner, backend, r7) is None:
        return d
    return []


def _hist_extra_diffs(c, r, backend="py"):
    """The part of a history case that is not the copy itself: what the earlier / later calls returned, and that nothing observed changed afterwards."""
    route, pre, mid, post, kind, value = c["args"]
    why = []
    ops = pre + mid + post
    outs = r[7]
    if len(outs) != len(ops):
        return [f"history: {len(outs)} outputs for {len(ops)} calls"]
    for i, (op, o) in enumerate(zip(ops, outs)):
        where = "before the copy" if i < len(pre) + len(mid) else "after the copy"
        exp = _op_expect(op)
        if exp is not None:
            if o != exp:
                why.append(f"call {op} {where} returned {o}, in a fresh process it returns {exp}")
        elif op[0] == "copy":
            why += [f"copy {op} {where}: " + x for x in _nested_copy_diffs(op, o, backend)]
        elif op[0] == "mk":
            if o[0] != 0:
                why.append(f"construction {op} raised {o}")
    if r[8]:
        why.append(f"the ORIGINAL changed after it was copied: first {[r[3], r[5]]} then {r[8]}")
    if r[9]:
        why.append(f"the COPY changed after it was made: first {[r[4], r[6]]} then {r[9]}")
    if len(r) > 10 and r[10]:
        why.append("the value depends on what was computed BEFORE it: built after this history it observes "
                   f"{_first_diff([r[3], r[5]], r[10])}, the same construction repeated after an unrelated Interval computation (original / repeated)")
    return why


def _first_diff(x, y):
    """The differing entries of two observation lists [core, extra] as (position, original, other) triples."""
    if not (isinstance(y, list) and len(y) == 2 and all(isinstance(t, list) for t in y)) or [len(t) for t in x] != [len(t) for t in y]:
        return (x, y)
    return [(("core", "extra")[k], i, p, q) for k in (0, 1) for i, (p, q) in enumerate(zip(x[k], y[k])) if p != q][:8]


def _diffs(c, r, backend="py"):
    """List of human-readable reasons why the copy is distinguishable from the original (empty = property holds for this case)."""
    fn, a = c["fn"], c["args"]
    if fn == "tables":
        return []
    if fn == "hist":
        if r[0] in (2, 3):
            return [f"harness could not build/observe the value: {r[1:]}"]
        return _diffs(_hist_inner(c), r[:7]) + _hist_extra_diffs(c, r, backend)
    if r[0] in (2, 3):
        return [f"harness could not build/observe the value: {r[1:]}"]
    why = []
    route = a[0]
    rn = f"pickle protocol {route}" if route < 6 else ("copy.copy" if route == 6 else "copy.deepcopy" if route == 7 else
                                                       "copy.deepcopy([start, v, end])[1]" if route == ROUTE_DEEP_IN_LIST else "pickle.loads(pickle.dumps([start, v, end], 5))[1]")
    st, ty, eq, co, cc, eo, ec = r
    # the original must itself be what the stdlib says these fields denote (independent reading of the case)
    if fn == "dt":
        ref = _ref_dt_core(a[1], a[2], a[3])
        if co[:11] != ref:
            why.append(f"original DateTime observes {co[:11]}, the stdlib gives {ref} for the same fields/fold/zone")
    if fn in ("dt", "time", "tz"):
        tail = co[11:] if fn == "dt" else co[5:] if fn == "time" else co
        spec = a[3] if fn in ("dt", "time") else a[1]
        if tail != _ref_tz_obs(spec):
            why.append(f"original's timezone observes {tail}, its constructor arguments say {_ref_tz_obs(spec)}")
    if fn == "dur":
        if co[11:14] != _ref_td(a[1:]):
            why.append(f"original Duration has native value {co[11:14]}, timedelta gives {_ref_td(a[1:])}")
    if fn == "iv":
        ab = a[1]
        # endpoints of the original are the given ones (possibly swapped when absolute)
        e1, e2 = _ref_ep_core(a[2]), _ref_ep_core(a[3])
        got = co[5:]
        n1 = 12 + _tzlen(got, 12) if got[0] == 1 else 4
        g = (_cut(got[:n1]), _cut(got[n1:]))
        if g not in ((_cut(e1), _cut(e2)), (_cut(e2), _cut(e1))) or (not ab and g != (_cut(e1), _cut(e2))):
            why.append(f"original Interval endpoints {g} are not the given ones {(e1, e2)}")
    if fn == "ivn":
        how, ab, e1, e2 = a[1:]
        g1, g2 = _split_eps(co[5:])
        fwd = _ep_matches(g1, e1) and _ep_matches(g2, e2)
        if not (fwd or (ab and _ep_matches(g1, e2) and _ep_matches(g2, e1))):
            why.append(f"original Interval endpoints {(g1, g2)} are not the given operands {(_ref_any_ep(e1), _ref_any_ep(e2))} (standard-library operands: same "
                       "instant in the pendulum zone of their tzinfo, UTC when naive)")
        # the timedelta value is the elapsed time between the two operands (sign: see C06; here its magnitude)
        if g1[0] == 1 and g2[0] == 1 and not _has_skipped_native(e1, e2):
            N = (co[2] * 86400 + co[3]) * T.MEG + co[4]
            el = _ref_any_ep(e2)[0][-1] - _ref_any_ep(e1)[0][-1]
            if abs(N) != abs(el) and abs(el) < 2 ** 53:
                why.append(f"original Interval has timedelta value {N} us, its operands are {el} us apart")
    if fn == "dti" and _skipped(a[1], a[3]):
        if co[8] != 1 or co[11:] != _ref_tz_obs(_conv_spec(a[3])):
            why.append(f"pendulum.instance of a skipped wall time: {co} is not an aware DateTime of the zone {_conv_spec(a[3])}")
    elif fn == "dti":
        core, fold = _ref_instance_core(a[1], a[2], a[3])
        if co[:7] + co[8:11] != core or (fold is not None and co[7] != fold):
            why.append(f"pendulum.instance gives {co[:11]}, the stdlib value is {core} (fold {fold}) in the zone of its tzinfo")
        if co[11:] != _ref_tz_obs(_conv_spec(a[3])):
            why.append(f"pendulum.instance: timezone observes {co[11:]}, expected {_ref_tz_obs(_conv_spec(a[3]))}")
    if st == 1:
        why.append(f"{rn} raised {ec[0]}")
        return why
    if not ty:
        why.append(f"{rn} returned an object of another type")
    if not eq:
        why.append(f"{rn}: copy != original")
    if cc != co:
        why.append(f"{rn}: accessors differ: original {co} copy {cc}")
    elif ec != eo:
        why.append(f"{rn}: accessors differ: original {eo} copy {ec}")
    return why


def oracle(c, backend, r):
    if c["fn"] == "tables":
        return None
    d = _diffs(c, r, backend)
    return "; ".join(d)[:900] if d else None


def _offsets_differ(W, tzs):
    if _zone_of(tzs) is None:
        return False
    tz = zoneinfo.ZoneInfo(_zone_of(tzs))
    return T.off_s(T.native(W, 0, tz)) != T.off_s(T.native(W, 1, tz))


def known(c, backend, r):
    fn, a = c["fn"], c["args"]
    if fn == "tables" or r[0] not in (0, 1):
        return None
    if fn == "hist":
        # a listed finding only when the history part is clean: then the copy itself is judged exactly like the same value without a history
        if _hist_extra_diffs(c, r, backend):
            return None
        return known(_hist_inner(c), backend, r[:7])
    route = _eff_route(a[0])
    st, ty, eq, co, cc, eo, ec = r
    if fn == "dti":
        # pendulum.instance(<native>) IS a DateTime in the zone _conv_spec(tzinfo): judged as that DateTime (fields and fold as the original shows them)
        try:
            W = T.wall_of(_dt.datetime(*co[:7]))
        except Exception:  # noqa
            return None
        return known({"stream": c.get("stream"), "fn": "dt", "args": [route, W, co[7], _conv_spec(a[3])]}, backend, r)
    if fn == "ivn":
        # an Interval of native operands IS the Interval of its converted endpoints: judged as that Interval (endpoints as the original shows them)
        how, ab, e1, e2 = a[1:]
        g1, g2 = _split_eps(co[5:])
        if _ep_matches(g1, e1) and _ep_matches(g2, e2):
            specs = (e1, e2)
        elif ab and _ep_matches(g1, e2) and _ep_matches(g2, e1):
            specs = (e2, e1)
        else:
            return None
        if how != HOW_SUB and _has_skipped_native(e1, e2) and st == 0 and ty and eq:
            # Interval.__new__ takes the timedelta value from the standard-library operands AS GIVEN (a skipped wall time read with the stdlib's
            # PEP 495 offset), __init__ keeps pendulum.instance(operand), which is ANOTHER instant for a skipped wall time: the original's value is not
            # end - start; every copy is rebuilt from start / end and has end - start (endpoints, flags, == all the same)
            h1, h2 = _split_eps(cc[5:])
            same_eps = all(x[:8] + x[9:] == y[:8] + y[9:] and (x[8] == y[8] or (route <= 5 and y[8] == 0)) for x, y in zip((g1, g2), (h1, h2)))
            No = (co[2] * 86400 + co[3]) * T.MEG + co[4]
            Nc = (cc[2] * 86400 + cc[3]) * T.MEG + cc[4]
            u1, u2 = _ref_native_inst(specs[0], g1), _ref_native_inst(specs[1], g2)
            if same_eps and cc[:2] == co[:2] and abs(No) == abs(u2 - u1) and No != Nc and abs(Nc) == abs(h2[11] - h1[11]):
                return "interval-native-skipped-operand"
            # a skipped operand whose two readings happen to give the SAME value (both endpoints moved alike): the value finding does not apply, the
            # components finding below still may (its own conditions are checked in full)
            # (and so may the findings of the Interval of the converted endpoints, judged below exactly as for pendulum operands)
        if backend == "py" and how != HOW_SUB and st == 0 and ty and eq and cc == co and _py_native_pdiff_region(specs, g1, g2) \
                and len(eo) == len(ec) and all(x == y for i, (x, y) in enumerate(zip(eo, ec)) if i not in PDIFF_EXTRA):
            # pure-Python precise_diff receives the pendulum.instance() of a NATIVE operand as it is (pendulum operands are rebuilt as native
            # datetimes first) and normalises with `d - d.utcoffset()`, which is pendulum arithmetic IN THE ZONE for a DateTime (wall clock for a native
            # one): the fields it then reads are those of another wall time whenever the zone's offset at (instant - offset) differs.  Only the
            # decomposed components differ between original and copy (copies are rebuilt from pendulum endpoints: native path)
            return "interval-native-operand-components-py"
        eps = []
        for g, e in zip((g1, g2), specs):
            if g[0] == 0:
                eps.append([0, _dt.date(*g[1:4]).toordinal()])
            else:
                eps.append([1, T.wall_of(_dt.datetime(*g[1:8])), g[8], e[3] if e[0] == 1 else _conv_spec(e[3])])
        return known({"stream": c.get("stream"), "fn": "iv", "args": [route, ab] + eps}, backend, r)
    if fn == "dt":
        W, f, tzs = a[1:]
        # (repaired: `fix: DateTime.__deepcopy__ keeps a tzinfo that is not a pendulum timezone`) __deepcopy__ passed tzinfo=self.tz, which is
        # None for a standard-library tzinfo: the deep copy is the NAIVE datetime with the same fields and fold
        if route == 7 and _is_foreign(tzs) and st == 0 and ty and not eq:
            if cc == _ref_dt_core(W, f, None) + [0]:
                return "deepcopy-foreign-tzinfo-naive"
            return None
        # pickle / copy.copy rebuild from _getstate(), which has no fold: the copy is exactly the fold=0 reading of the same fields
        if route <= 6 and f == 1 and st == 0 and ty and eq:
            exp = _ref_dt_core(W, 0, tzs) + co[11:]
            if cc == exp:
                return "datetime-pickle-fold-instant" if _offsets_differ(W, tzs) else "datetime-pickle-fold-attr"
        return None
    if fn == "time":
        t, f, tzs = a[1:]
        if f == 1 and st == 0 and ty and eq and cc == co[:4] + [0] + co[5:]:
            return "time-copy-fold-attr"
        return None
    if fn == "dur":
        ab, days, seconds, us, ms, mi, h, w, y, mo = a[1:]
        if st != 0 or not ty:
            return None
        if route <= 6 and (y != 0 or mo != 0):
            # timedelta.__reduce__ keeps the native value only: same (days, seconds, microseconds) and total, years = months = 0
            if cc[1:3] == [0, 0] and cc[11:14] == co[11:14] and cc[0] == co[0] and eq and (ab == 0 or cc[3:11] == co[3:11]):
                return "duration-pickle-drops-years-months"
            return None
        if route == 7 and ab == 0:
            # exact integer split of the part R of the native value that excludes years / months (what the accessors should be)
            N = (co[11] * 86400 + co[12]) * T.MEG + co[13]
            R = N - (y * 365 + mo * 30) * 86400 * T.MEG
            sg = -1 if R < 0 else 1
            it, micro = abs(R) // T.MEG, abs(R) % T.MEG * sg
            ds = it // 86400
            exact = [ds // 7 * sg, ds % 7 * sg, it % 86400 * sg, micro]
            if [co[3], co[4], co[9], co[8]] != exact:
                # the ORIGINAL's components do not add up to its value (float resolution of Duration.__new__ beyond 2^32 s, C09):
                # __deepcopy__ rebuilds from them, so the copy is another timedelta even apart from the weeks
                if cc[1:3] == co[1:3] and abs(N) >= 2 ** 32 * T.MEG:
                    return "duration-deepcopy-inexact-components"
                return None
            if co[3] != 0:
                # (repaired: `fix: copy.deepcopy of a Duration keeps its weeks`) Duration.__deepcopy__ omitted weeks: everything else identical,
                # native value smaller by weeks * 7 days
                if cc[3] == 0 and cc[1:3] == co[1:3] and cc[4:10] == co[4:10] and cc[11] == co[11] - 7 * co[3] and cc[12:14] == co[12:14]:
                    return "duration-deepcopy-drops-weeks"
            return None
        if route == 7 and ab == 1:
            # AbsoluteDuration through Duration.__deepcopy__.
            # (repaired: `fix: copy.deepcopy of a Duration keeps its weeks`) weeks omitted, components otherwise identical (the sign may be lost as well)
            if co[3] != 0 and cc[3] == 0 and cc[1:3] == co[1:3] and cc[4:10] == co[4:10]:
                return "duration-deepcopy-drops-weeks"
            # what remains: the components are absolute values, so a negative underlying value comes back positive: invert lost, native value
            # negated, every component (weeks included) identical
            if co[10] == 1 and cc[10] == 0 and cc[1:10] == co[1:10]:
                N = (co[11] * 86400 + co[12]) * T.MEG + co[13]
                N2 = (cc[11] * 86400 + cc[12]) * T.MEG + cc[13]
                if N < 0 and N2 == -N:
                    return "absoluteduration-deepcopy-sign-weeks"
            return None
        return None
    if fn == "iv":
        ab, e1, e2 = a[1:]
        if route == 7:
            # (repaired: `fix: copy.deepcopy of an Interval`) Interval inherited Duration.__deepcopy__, which called Interval(days=...)
            if st == 1 and cc == [T.EXN["TypeError"]] and "unexpected keyword argument 'days'" in ec[0]:
                return "interval-deepcopy-typeerror"
            return None
        if route <= 5 and st == 0 and ty:
            # consequence of the DateTime finding: an endpoint with fold=1 comes back with fold=0
            folds = [e[2] for e in (e1, e2) if e[0] == 1]
            if any(folds):
                exp = []
                for e in (e1, e2):
                    exp.append(_ref_ep_core([e[0], e[1], 0, e[3]] if e[0] == 1 else e))
                got = cc[5:]
                # compare endpoint cores without the zone observation tails
                n1 = 12 + _tzlen(got, 12) if got[0] == 1 else 4
                g1, g2 = got[:n1], got[n1:]
                cands = [(_cut(exp[0]), _cut(exp[1])), (_cut(exp[1]), _cut(exp[0]))]
                if (_cut(g1), _cut(g2)) in cands and cc[0] == co[0]:
                    return "interval-pickle-endpoint-fold"
        return None
    return None


def _cut(core):
    return core[:12] if core[0] == 1 else core


def _tzlen(core, i):
    k = core[i]
    if k == 0:
        return 1
    if k == 1:
        return 2
    if k == 2:
        return 3 + core[i + 2]
    if k in (3, 4):
        return 2
    return 1


LEVEL_TEXT = ("Machine-checked Coq theorems over the protocol model (Model/Pickle.v interpreting the argument lists generated from the class bodies): for every "
              "route (pickle 0..5, copy, deepcopy) Date, Timezone and FixedTimezone values are rebuilt identically; DateTime.__deepcopy__ rebuilds identically for EVERY "
              "tzinfo, including standard-library ones (datetime.timezone, zoneinfo.ZoneInfo: DateTime.tz is None for them) - full strength since the repair of "
              "deepcopy-foreign-tzinfo-naive (__deepcopy__ passed tzinfo=self.tz and returned a naive copy); every route keeps such a tzinfo; "
              "pickle/copy of a DateTime rebuild exactly the fold=0 reading of the same fields (so: identical when fold=0, same instant and offset whenever the wall "
              "time is unique in the zone; REFUTED with fold=1 on a repeated wall time: Europe/Paris 2013-10-27T02:30+01:00 comes back +02:00); Time likewise loses "
              "fold on every route; Duration pickle/copy preserve the native timedelta value always and all components exactly when years=months=0 (REFUTED otherwise), "
              "Duration.__deepcopy__ rebuilds every public accessor and the native value on C09's exactness domain D9, whatever the weeks are - full strength since the "
              "repair of duration-deepcopy-drops-weeks (the weeks keyword was missing: Duration(weeks=2,days=3) came back as 3 days); beyond D9 the components no longer add "
              "up to the value (REFUTED: years=300,days=3,microseconds=7); the deep copy of an AbsoluteDuration is the AbsoluteDuration of the absolute value of its underlying "
              "timedelta (all components incl. weeks identical, invert False): exact when that value is not negative, REFUTED otherwise (AbsoluteDuration(days=-3,hours=-5)); Interval copy.copy is the identity on every constructed Interval, pickle is the identity when no endpoint has "
              "fold=1 (REFUTED otherwise), copy.deepcopy is the identity on EVERY constructed Interval (forward / inverted / absolute, Date or DateTime endpoints, fold 0 or 1, "
              "pendulum or standard-library tzinfo) - full strength since the repair of interval-deepcopy-typeerror (Interval inherited Duration.__deepcopy__, which called "
              "Interval(days=...) and raised TypeError for every Interval). "
              "Copies in a process with a history (Model/PickleHistory.v: the per-offset cache behind pendulum.timezone(<int>) as a state machine over earlier / later calls): "
              "the cache is transparent (after ANY history the factory returns what it returns in a fresh process), a call that raises leaves it unchanged, constructions and "
              "copies never write it, and original, copy and every call's result are independent of the history - in particular FixedTimezone(off, name) keeps its name on "
              "every route when the cache already holds the default-named zone of that offset. "
              "The model is tied to /repo by regeneration of the argument lists and by correspondence on real objects over all 8 routes, both backends.")
DESIGN_REF = "DESIGN.md section 4 C14"
LEVEL_NOTE = ("Trusted: Coq kernel+VM; CPython's pickle/copy protocol and native reducers as stated in Model/Pickle.v (standard-library tzinfo objects are opaque values "
              "of that protocol: they come back equal; checked on every run by the dt-foreign-* / time-foreign streams); the generator's reading of the class bodies "
              "(fail closed on unknown shapes; MRO/resolution tables compared with the live classes each run); Spec/Zone.v, Model/Duration.v (validated by C02/C09 and here); "
              "extraction+driver cross-checked with vm_compute. History: the fixed-offset cache is INSIDE the model (hist entry of DispatchC14, compared call by call with "
              "the implementation for tz / DateTime / Time values); set_local_timezone / set_locale histories and Date / Duration / Interval values after a history are "
              "oracle-only streams (model_calls returns None): process-wide configuration is not part of the protocol model.")
TECHNIQUE = "Coq proofs over a data-driven protocol model (argument lists generated from the AST) + differential correspondence on real objects through 8 copy routes"


# C09's float premise float_split_exact_on_D9 is a theorem (Proofs/FloatRoundTripC09.v); the statements that carried it are restated without premise
TRUSTED = list(TRUSTED) + [
    "Flocq (installed library) correctness theorems for binary64 operations, bridged to Coq's SpecFloat in coq/Proofs/FloatRoundTripBase.v",
    "standard-library axioms reported by Print Assumptions for the unconditional float theorems only (roundtrip_duration_deepcopy, absolute_duration_deepcopy_is_absolute_value, roundtrip_absolute_duration_deepcopy_partial): ClassicalDedekindReals.sig_not_dec, "
    "ClassicalDedekindReals.sig_forall_dec, FunctionalExtensionality.functional_extensionality_dep, Classical_Prop.classic (the real-number axioms Flocq and Reals rest on); "
    "every other theorem, the premise-carrying form roundtrip_duration_deepcopy_given_float_premise included, is closed under the global context",
]


# FixedTimezone.__init__'s default name is translated from /repo on every run and the hand model is PROVED equal to it on the offsets a tzinfo may return
TRUSTED = list(TRUSTED) + [
    "tools/vlib/pyfloat2gallina.py + tools/vlib/gens/g72_fixedtz_init.py (the statements of FixedTimezone.__init__ before the attribute assignments, translated on every run -> coq/Gen/FixedTzInit.v; "
    "reading rule: the function returns what `if not name:` assigns to name; int / int = Model/DurationOps.py_int_truediv, f\"{n:02d}\" = Model/Formatter.render_0wd 2): "
    "model_is_code_fixed_timezone_default_name replaces the trust in Model/Pickle.default_name for -86400 < offset < 86400 (exhaustive kernel evaluation, closed under the global context); "
    "outside that range default_name, and the other hand-transcribed bodies of Model/Pickle.v (interval_new = Interval.__new__ / __init__, pendulum_tz = DateTime.timezone / tz, Timezone.__new__ "
    "forwarding its key), stay hand-written + pinned by text in g60_pickle.py; Duration.__new__ / AbsoluteDuration.__new__ are Model/Duration.v, proved equal to the translated code in C09",
]
LEVEL_TEXT = LEVEL_TEXT + (" Intervals built from STANDARD-LIBRARY operands (Model/PickleNative.v: Interval.__new__ on the operands as given, __init__ on "
                           "pendulum.instance(operand) = _safe_timezone + DateTime.create): whenever the conversion keeps order and elapsed time of the operands the value is the "
                           "Interval of the converted operands and copy / deepcopy / (fold 0) pickle return it unchanged (roundtrip_interval_native_partial, with a satisfiability "
                           "example across the Paris spring-forward night); REFUTED for a skipped wall time (roundtrip_interval_native_refuted: 2013-03-31T02:30 Europe/Paris as a "
                           "native datetime gives a 23 h Interval whose endpoints are 24 h apart, every copy is the 24 h Interval - finding interval-native-skipped-operand). "
                           "The decomposed components of an Interval (years .. minutes, in_words: precise_diff) are outside the Coq model of C14 and compared by the oracle on every "
                           "stream; there the native-input streams exposed interval-native-operand-components-py (pure-Python precise_diff receives pendulum DateTimes for native operands).")
LEVEL_NOTE = LEVEL_NOTE + (" Native inputs: the ivn (Interval of native / mixed operands) and dti (pendulum.instance) entries of DispatchC14 are INSIDE the model and compared with the "
                           "implementation over all 8 routes on both backends (Model/PickleNative.v is hand-written over Model/TzConvert.create, no source pin of its own: tied by the "
                           "ivn-* / dti-* correspondence); Interval components from precise_diff are oracle-only.")
LEVEL_NOTE = LEVEL_NOTE + (" Equal-yet-distinguishable endpoints (iv-equal-instant / ivn-equal-instant) are ordinary iv / ivn entries of DispatchC14, INSIDE the model (the container routes 8 / 9 "
                           "are compared with the model's deepcopy / protocol-5 result); hist-memo-twins (values built back to back that differ in one hidden attribute; the value rebuilt after "
                           "an unrelated computation) is an oracle-only stream: a helper's memory of its last call is process state outside the protocol model.")
LEVEL_NOTE = LEVEL_NOTE + (" Method bodies: the argument lists are generated data; the default name of FixedTimezone.__init__ is translated on every run and proved equal to the model for |offset| < 24 h "
                           "(model_is_code_fixed_timezone_default_name; self-tested by mutation); Interval.__new__ / __init__, DateTime.timezone / tz and Timezone.__new__ stay hand-transcribed and pinned by text.")
