"""C07 — ISO 8601 / RFC 3339 date and time strings parse to the value they denote (both parser backends)."""
from __future__ import annotations

import datetime as _dt
import random

ID = "C07"
PROPS = "Props/C07.v"
RULE = ("constructive: every string is RENDERED from a known value with the stdlib (date.isocalendar / timetuple().tm_yday / "
        "zero-padded fields) in the six date forms calendar/ordinal/week x basic/extended, x times of day x fraction lengths 1..9 "
        "with '.' and ',' x offsets Z/+-hh/+-hhmm/+-hh:mm in -23:59..+23:59 x {T, space} x API (parse_iso8601 directly, "
        "pendulum.parse with exact and tz options). quick: all days of 8 seed-chosen years covering both leap kinds and all "
        "Jan-1 weekdays, every month end of every year 1583..9999 (forms rotated by seed), seeded date-times, time-only strings, "
        "reduced-precision times (reduced-precision-grid, deterministic: every hour 00..23 in the layouts HH, HH:MM, THH, THH:MM, THHMM x 16 "
        "offset renderings of every style x parse_iso8601 and pendulum.parse with exact/tz options, and <date>(T| )HH, <date>(T| )HH:MM / HHMM for "
        "eight dates x six date forms x the same offsets; reduced-precision: seeded ones over random dates, hours and offsets), "
        "impossible dates/weeks/ordinals that must be rejected, inverse checks parse(render(dt)) for pendulum's own renderers, "
        "and mutated strings for the regex-group / rejection correspondence. thorough: every date 1583-01-01..9999-12-31 in each "
        "of the six forms. A case is non-trivial when its batch of strings is distinct; each string is checked three ways "
        "(implementation vs Coq model, both backends; implementation vs the value it was rendered from).")
EXHAUSTIVE = {"quick": False, "thorough": True}
TRUSTED = ["rustc/pyo3: rust/src/parsing.rs and rust/src/python/parsing.rs are modelled by hand in coq/Model/IsoParse.v (rs_*), tables generated from constants.rs",
           "CPython `re`: the regex matcher coq/Model/C07Regex.v is a hand-written backtracking engine (its shape invariance and span/text agreement are "
           "PROVED for any regex in Proofs/RegexShape.v; that it is CPython's semantics is trusted); the regex ASTs it runs are generated from /repo's "
           "pattern strings by CPython's own pattern parser and the per-group match results are compared with re on every run (regex-groups stream)",
           "the string-level post-match code of parse_iso8601/_parse_common (group tests, int(), slicing, strptime('%Y-%j')) is modelled by hand; "
           "the integer post-match code (ordinal loop, _get_iso_8601_week core) is translated from /repo on every run (Gen/IsoPost.v)",
           "the text forms of Model/IsoRender.v, IsoForms.v, IsoFormsPrec.v (the specification side of the round-trip theorems: how a value is written) are hand-written; "
           "the harness renders the same forms independently with the stdlib and whole years are rendered in Coq and compared (whole-years-rendered-in-coq)",
           "CPython datetime constructors' range checks are modelled by valid_date/valid_time; Spec/Cal.v models date.fromordinal/toordinal"]
ASSUMPTIONS = ["inputs are ASCII strings without '/' (intervals), not starting with 'P' (durations) and not 'now'; Python's \\d is then 0-9",
               "tz option of pendulum.parse is None or a fixed offset; `now` is passed explicitly for time-only strings"]
VM_SUBSET = 120

FORMS = ("cal-ext", "cal-bas", "ord-ext", "ord-bas", "week-ext", "week-bas")
NOW = (2001, 2, 3)


# ----------------------------------------------------------------------------- rendering (stdlib only)
def render_date(d: _dt.date, form: str) -> str:
    y = d.year
    if form == "cal-ext":
        return f"{y:04d}-{d.month:02d}-{d.day:02d}"
    if form == "cal-bas":
        return f"{y:04d}{d.month:02d}{d.day:02d}"
    doy = d.toordinal() - _dt.date(y, 1, 1).toordinal() + 1
    if form == "ord-ext":
        return f"{y:04d}-{doy:03d}"
    if form == "ord-bas":
        return f"{y:04d}{doy:03d}"
    iy, iw, iwd = d.isocalendar()
    if form == "week-ext":
        return f"{iy:04d}-W{iw:02d}-{iwd}"
    if form == "week-bas":
        return f"{iy:04d}W{iw:02d}{iwd}"
    if form == "week-ext-noday":     # only for Mondays
        return f"{iy:04d}-W{iw:02d}"
    if form == "week-bas-noday":
        return f"{iy:04d}W{iw:02d}"
    raise ValueError(form)


def form_ok(d: _dt.date, form: str) -> bool:
    if form.startswith("week"):
        iy = d.isocalendar()[0]
        if not (1 <= iy <= 9999):
            return False
        if form.endswith("noday") and d.isoweekday() != 1:
            return False
    return True


def render_time(H, M, S, frac, ext, level):
    """level 1: HH, 2: HH:MM, 3: HH:MM:SS[.frac]; frac = (sepchar, digits) or None"""
    c = ":" if ext else ""
    s = f"{H:02d}"
    if level >= 2:
        s += c + f"{M:02d}"
    if level >= 3:
        s += c + f"{S:02d}"
        if frac:
            s += frac[0] + frac[1]
    return s


def render_offset(off, style):
    if off is None:
        return ""
    if style == "Z":
        return "Z"
    sign = "-" if off < 0 else "+"
    a = abs(off) // 60
    hh, mm = divmod(a, 60)
    if style == "hh":
        return f"{sign}{hh:02d}"
    if style == "hhmm":
        return f"{sign}{hh:02d}{mm:02d}"
    return f"{sign}{hh:02d}:{mm:02d}"


def dates_of_year(y):
    n0 = _dt.date(y, 1, 1).toordinal()
    n1 = _dt.date(y, 12, 31).toordinal()
    return [_dt.date.fromordinal(n) for n in range(n0, n1 + 1)]


def month_ends(y):
    out = []
    for m in range(1, 13):
        nxt = _dt.date(y + (m == 12), m % 12 + 1, 1) if not (y == 9999 and m == 12) else None
        out.append(_dt.date(9999, 12, 31) if nxt is None else nxt - _dt.timedelta(days=1))
    return out


# ----------------------------------------------------------------------------- items
# an item: {"s": str, "api": "iso"|"top", "exact": 0|1, "tz": None|int, "exp": canonical expected or "reject" or None}
def exp_date(d, api, exact, tz):
    if api == "iso" or exact:
        return [0, 2, d.year, d.month, d.day, 0, 0, 0, 0, 0, 0]
    return [0, 1, d.year, d.month, d.day, 0, 0, 0, 0, 1, tz or 0]


def exp_datetime(d, H, M, S, us, off, api, tz):
    if api == "iso":
        return [0, 1, d.year, d.month, d.day, H, M, S, us, 0 if off is None else 1, off or 0]
    return [0, 1, d.year, d.month, d.day, H, M, S, us, 1, off if off is not None else (tz or 0)]


def exp_time(H, M, S, us, off, api, exact, tz):
    if api == "iso":
        return [0, 3, 0, 0, 0, H, M, S, us, 0 if off is None else 1, off or 0]
    if exact:
        return [0, 3, 0, 0, 0, H, M, S, us, 0, 0]
    return [0, 1, NOW[0], NOW[1], NOW[2], H, M, S, us, 1, tz or 0]


def dates_fast(y, sel, forms):
    """[(string, y*10000+m*100+d, form, monthend)] — the lean form of items_dates (same order)"""
    ds = dates_of_year(y) if sel == "all" else month_ends(y)
    out = []
    last = _dt.date.max
    one = _dt.timedelta(days=1)
    for d in ds:
        me = 1 if d == last else int((d + one).day == 1)
        e = d.year * 10000 + d.month * 100 + d.day
        for f in forms:
            if form_ok(d, f):
                out.append((render_date(d, f), e, f, me))
    return out


def items_dates(y, sel, forms, api):
    out = []
    for s, e, f, me in dates_fast(y, sel, forms):
        d = _dt.date(e // 10000, e // 100 % 100, e % 100)
        out.append({"s": s, "api": api, "exact": 1, "tz": None, "exp": exp_date(d, api, 1, None), "form": f, "monthend": me})
    return out


def rand_date(rnd):
    k = rnd.random()
    if k < 0.35:
        y = rnd.randrange(1583, 10000)
        return rnd.choice(month_ends(y))
    if k < 0.5:
        y = rnd.randrange(1583, 10000)
        return _dt.date(y, 1, 1) + _dt.timedelta(days=rnd.choice((0, 1, 2, 3, 58, 59, 60)))
    if k < 0.55:
        return rnd.choice((_dt.date(1583, 12, 31), _dt.date(9999, 12, 31), _dt.date(9999, 1, 1), _dt.date(1583, 1, 1), _dt.date(2000, 2, 29), _dt.date(1900, 2, 28)))
    return _dt.date.fromordinal(rnd.randrange(_dt.date(1583, 1, 1).toordinal(), _dt.date.max.toordinal() + 1))


def rand_time(rnd):
    k = rnd.random()
    if k < 0.2:
        return rnd.choice(((0, 0, 0), (23, 59, 59), (12, 0, 0), (0, 0, 1), (23, 0, 0), (0, 59, 0)))
    return (rnd.randrange(24), rnd.randrange(60), rnd.randrange(60))


def rand_frac(rnd):
    if rnd.random() < 0.3:
        return None
    n = rnd.randrange(1, 10)
    k = rnd.random()
    if k < 0.15:
        digs = "9" * n
    elif k < 0.3:
        digs = "0" * (n - 1) + "1"
    elif k < 0.4:
        digs = "0" * n
    else:
        digs = "".join(rnd.choice("0123456789") for _ in range(n))
    return (rnd.choice(".,"), digs)


def rand_off(rnd):
    k = rnd.random()
    if k < 0.2:
        return None, ""
    if k < 0.35:
        return 0, "Z"
    if k < 0.5:
        mins = rnd.choice((-1439, 1439, -1, 1, 0, 60, -60, 59, -59, 840, -720, 330, 345))
    else:
        mins = rnd.randrange(-1439, 1440)
    style = rnd.choice(("hh:mm", "hh:mm", "hhmm", "hh"))
    if style == "hh":
        mins = (abs(mins) // 60) * 60 * (1 if mins >= 0 else -1)
    return mins * 60, style


def us_of(frac):
    if not frac:
        return 0
    return int((frac[1] + "000000")[:6])


def items_datetimes(seed, n):
    rnd = random.Random(seed)
    out = []
    for _ in range(n):
        d = rand_date(rnd)
        form = rnd.choice(FORMS + ("week-ext-noday", "week-bas-noday") if d.isoweekday() == 1 else FORMS)
        if not form_ok(d, form):
            form = "cal-ext"
        ext = "ext" in form
        H, M, S = rand_time(rnd)
        level = rnd.choice((3, 3, 3, 2, 1))
        frac = rand_frac(rnd) if level == 3 else None
        if level < 3:
            S = 0
        if level < 2:
            M = 0
        off, style = rand_off(rnd)
        sep = rnd.choice("TT ")
        s = render_date(d, form) + sep + render_time(H, M, S, frac, ext, level) + render_offset(off, style)
        api = rnd.choice(("iso", "top", "top"))
        exact = rnd.randrange(2)
        tz = rnd.choice((None, None, 3600, -18000, 20700)) if api == "top" else None
        out.append({"s": s, "api": api, "exact": exact, "tz": tz, "exp": exp_datetime(d, H, M, S, us_of(frac), off, api, tz), "form": form,
                    "monthend": int(d == _dt.date.max or (d + _dt.timedelta(days=1)).day == 1)})
        if rnd.random() < 0.15:
            # the date alone through pendulum.parse (exact / not exact / tz option)
            out.append({"s": render_date(d, form), "api": "top", "exact": exact, "tz": tz, "exp": exp_date(d, "top", exact, tz), "form": form,
                        "monthend": out[-1]["monthend"]})
    return out


def items_times(seed, n):
    rnd = random.Random(seed)
    out = []
    for _ in range(n):
        H, M, S = rand_time(rnd)
        if rnd.random() < 0.3:
            H = rnd.randrange(0, 10)
        ext = rnd.random() < 0.5
        prefix = rnd.choice(("", "T"))
        level = rnd.choice((3, 3, 2)) if (ext or prefix) else 3      # bare "HHMM" is a year, bare "HH" is not a time
        if ext and not prefix and level < 2:
            level = 2
        frac = rand_frac(rnd) if level == 3 and (ext or prefix) else None
        if level < 3:
            S = 0
        off, style = rand_off(rnd) if (ext or prefix) else (None, "")
        s = prefix + render_time(H, M, S, frac, ext, level) + render_offset(off, style)
        api = rnd.choice(("iso", "top"))
        exact = 1 if api == "iso" else rnd.randrange(2)
        out.append({"s": s, "api": api, "exact": exact, "tz": None, "exp": exp_time(H, M, S, us_of(frac), off, api, exact, None),
                    "form": "time-bare-basic" if not (ext or prefix) else "time", "hour": H})
    return out


# ----------------------------------------------------------------------------- reduced precision (hour, hour-minute), alone or after a date
# the time-only layouts (prefix, extended, level) the theorems of Props/C07.v cover; bare "HHMM" is a four-digit year, not a time
RP_TIME_LAYOUTS = (("", False, 1), ("", True, 2), ("T", False, 1), ("T", True, 2), ("T", False, 2))
RP_OFFSETS = ((None, ""), (0, "Z"), (0, "hh"), (0, "hh:mm"), (18000, "hh"), (-18000, "hh"), (19800, "hhmm"), (-19800, "hhmm"), (19800, "hh:mm"), (-12600, "hh:mm"),
              (86340, "hh:mm"), (-86340, "hhmm"), (82800, "hh"), (-82800, "hh"), (60, "hh:mm"), (-60, "hhmm"))
RP_DATES = ((2021, 1, 15), (2020, 2, 29), (2021, 1, 31), (2018, 12, 31), (1583, 1, 1), (9999, 12, 31), (2024, 12, 30), (2000, 2, 28))


def rp_time_item(prefix, ext, level, H, M, off, style, api, exact, tz):
    M2 = M if level >= 2 else 0
    s = prefix + render_time(H, M2, 0, None, ext, level) + render_offset(off, style)
    form = "time-bare-hour" if (not prefix and level == 1) else "time-reduced"
    return {"s": s, "api": api, "exact": exact, "tz": tz, "exp": exp_time(H, M2, 0, 0, off, api, exact, tz), "form": form, "hour": H}


def rp_datetime_item(d, form, sep, level, H, M, off, style, api, exact, tz):
    M2 = M if level >= 2 else 0
    s = render_date(d, form) + sep + render_time(H, M2, 0, None, "ext" in form, level) + render_offset(off, style)
    return {"s": s, "api": api, "exact": exact, "tz": tz, "exp": exp_datetime(d, H, M2, 0, 0, off, api, tz), "form": form,
            "monthend": int(d == _dt.date.max or (d + _dt.timedelta(days=1)).day == 1), "reduced": level}


def items_reduced_det(part):
    """deterministic: part 0..23 = that hour in every time-only layout x every offset style x both APIs; part 24.. = one date of RP_DATES in the
    six date forms x {T, space} x {HH, HH:MM / HHMM} x the offset styles (hours and minutes rotated)"""
    out = []
    if part < 24:
        H = part
        for prefix, ext, level in RP_TIME_LAYOUTS:
            for j, (off, style) in enumerate(RP_OFFSETS):
                M = (0, 30, 59, 1, 7)[(H + j) % 5]
                out.append(rp_time_item(prefix, ext, level, H, M, off, style, "iso", 1, None))
                out.append(rp_time_item(prefix, ext, level, H, M, off, style, "top", (H + j) % 2, (None, 3600, -18000)[(H + j) % 3]))
        return out
    d = _dt.date(*RP_DATES[part - 24])
    k = part
    for form in FORMS:
        if not form_ok(d, form):
            continue
        for sep in "T ":
            for level in (1, 2):
                for off, style in RP_OFFSETS:
                    k += 1
                    H, M = (k * 7) % 24, (k * 13) % 60
                    out.append(rp_datetime_item(d, form, sep, level, H, M, off, style, "iso", 1, None))
                    if k % 3 == 0:
                        out.append(rp_datetime_item(d, form, sep, level, H, M, off, style, "top", k % 2, (None, 20700)[k // 3 % 2]))
    return out


def items_reduced(seed, n):
    rnd = random.Random(seed)
    out = []
    for _ in range(n):
        H, M, _S = rand_time(rnd)
        off, style = rand_off(rnd)
        api = rnd.choice(("iso", "top"))
        exact = 1 if api == "iso" else rnd.randrange(2)
        tz = rnd.choice((None, None, 3600, -18000, 20700)) if api == "top" else None
        if rnd.random() < 0.5:
            prefix, ext, level = rnd.choice(RP_TIME_LAYOUTS + (("", False, 1),))
            out.append(rp_time_item(prefix, ext, level, H, M, off, style, api, exact, tz))
        else:
            d = rand_date(rnd)
            form = rnd.choice(FORMS + ("week-ext-noday", "week-bas-noday") if d.isoweekday() == 1 else FORMS)
            if not form_ok(d, form):
                form = "cal-bas"
            out.append(rp_datetime_item(d, form, rnd.choice("T "), rnd.choice((1, 2)), H, M, off, style, api, exact, tz))
    return out


def items_invalid(seed, n):
    """impossible dates / weeks / ordinals / times: must be rejected"""
    rnd = random.Random(seed)
    out = []
    for _ in range(n):
        y = rnd.randrange(1583, 10000)
        leap = y % 4 == 0 and (y % 100 != 0 or y % 400 == 0)
        weeks = _dt.date(y, 12, 28).isocalendar()[1]
        k = rnd.randrange(10)
        what = None
        if k == 0:
            m, dd = rnd.choice(((2, 30), (2, 31), (4, 31), (6, 31), (9, 31), (11, 31), (2, 29 if not leap else 30), (1, 32), (12, 32), (rnd.randrange(1, 13), 0)))
            s = rnd.choice((f"{y:04d}-{m:02d}-{dd:02d}", f"{y:04d}{m:02d}{dd:02d}")); what = "day"
        elif k == 1:
            m = rnd.choice((0, 13, 14, 20, 99))
            s = f"{y:04d}-{m:02d}-{rnd.randrange(1, 29):02d}"; what = "month"
        elif k == 2:
            o = rnd.choice((0, 367, 368, 400, 999) + ((366,) if not leap else ()))
            s = rnd.choice((f"{y:04d}-{o:03d}", f"{y:04d}{o:03d}")); what = "ordinal"
        elif k == 3:
            w = rnd.choice((54, 55, 60, 99) + ((53,) if weeks == 52 else ()))
            wd = rnd.randrange(1, 8)
            s = rnd.choice((f"{y:04d}-W{w:02d}-{wd}", f"{y:04d}W{w:02d}{wd}", f"{y:04d}-W{w:02d}")); what = "week"
        elif k == 4:
            w = 0
            wd = rnd.randrange(1, 8)
            s = rnd.choice((f"{y:04d}-W{w:02d}-{wd}", f"{y:04d}W{w:02d}{wd}", f"{y:04d}-W{w:02d}")); what = "week0"
        elif k == 5:
            w = rnd.randrange(1, weeks + 1)
            wd = rnd.choice((0, 8, 9))
            s = rnd.choice((f"{y:04d}-W{w:02d}-{wd}", f"{y:04d}W{w:02d}{wd}")); what = "weekday0" if wd == 0 else "weekday"
        elif k == 6:
            H, M, S = rnd.choice(((24, 0, 0), (24, 30, 0), (25, 0, 0), (99, 0, 0), (12, 60, 0), (12, 99, 0), (12, 30, 61), (12, 30, 99)))
            s = f"{y:04d}-01-15T{H:02d}:{M:02d}:{S:02d}"; what = "time"
        elif k == 7:
            s = f"{y:04d}-02-{29 if not leap else 30:02d}T10:00:00Z"; what = "day"
        elif k == 8:
            s = f"0000-{rnd.randrange(1, 13):02d}-{rnd.randrange(1, 29):02d}"; what = "year0"
        else:
            o = 366 if not leap else 367
            s = f"{y:04d}-{o:03d}T00:00:00"; what = "ordinal"
        api = rnd.choice(("iso", "top"))
        out.append({"s": s, "api": api, "exact": rnd.randrange(2), "tz": None, "exp": "reject", "form": "invalid-" + what})
    return out


ALPHA = "0123456789-:TWZ+., "


def items_mutated(seed, n):
    rnd = random.Random(seed)
    base = items_datetimes(seed + 1, n) + items_times(seed + 2, n // 4)
    out = []
    for it in base[:n]:
        s = list(it["s"])
        for _ in range(rnd.choice((1, 1, 2))):
            k = rnd.randrange(4)
            p = rnd.randrange(len(s) + 1)
            if k == 0 and s:
                del s[min(p, len(s) - 1)]
            elif k == 1:
                s.insert(p, rnd.choice(ALPHA))
            elif k == 2 and s:
                s[min(p, len(s) - 1)] = rnd.choice(ALPHA)
            else:
                s = s[:p]
        s = "".join(s)
        if s[:1] == "P" or s == "now":
            continue
        out.append({"s": s, "api": rnd.choice(("iso", "top", "groups")), "exact": rnd.randrange(2), "tz": None, "exp": None, "form": "mutated"})
    for s in ("", "2", "20", "202", "2021", "20210", "202101", "2021011", "20210115", "2021-", "2021-0", "2021-01", "2021-01-", "2021-01-1", "12:", "2:",
              "12:3", "T", "T1", "T12", "T123", "T1234", "T12345", "T123456", "T12:34:56,5", "2021-01-15\n", "2021W", "2021-W", "2021-W0", "2021-W01-",
              "2021-01-15T10:20:30+05:", "2021-01-15T10:20:30+0", "2021-01-15T10:20:30.", "2021-01-15T10:20:30.1234567890", "2021-0115", "202101-15",
              "2021-01-15T102030", "20210115T10:20:30", "20210115 10:20:30", "2021-01-15 10:20", "2021/01/15", "2021:01:15", "20210115 1:2", "012345", "001530",
              "000000", "235959", "2021-01-15T10:20:30+24:00", "2021-01-15T10:20:30-24:00", "2021-01-15T10:20:30+99:99", "2021-01-15T10:20:30-99:99",
              "2021-01-15T10:20:30+2400", "2021-W01-1T10", "2021W011T10", "2021-001T10:20", "2021001T1020", "0999-W10-1", "0001-001", "0001-W01-1"):
        for api in ("iso", "top", "groups"):
            out.append({"s": s, "api": api, "exact": 0, "tz": None, "exp": None, "form": "mutated"})
    return out


def inverse_values(seed, n):
    rnd = random.Random(seed)
    out = []
    for _ in range(n):
        d = rand_date(rnd)
        if d.year < 1000:
            d = d.replace(year=1000 + d.year % 9000)
        H, M, S = rand_time(rnd)
        us = rnd.choice((0, 0, 1, 999999, 100, 123456, rnd.randrange(1000000)))
        k = rnd.random()
        if k < 0.3:
            off = "UTC"
        else:
            off = rnd.choice((0, 60, -60, 1439 * 60, -1439 * 60, 19800, 20700, rnd.randrange(-1439, 1440) * 60))
        out.append([d.year, d.month, d.day, H, M, S, us, off])
    return out


def inverse_strings(v):
    y, m, d, H, M, S, us, off = v
    o = 0 if off == "UTC" else off
    sd = _dt.datetime(y, m, d, H, M, S, us, tzinfo=_dt.timezone(_dt.timedelta(seconds=o)))
    iso = sd.isoformat()
    sec = sd.replace(microsecond=0).isoformat()
    i8601 = iso[:-6] + "Z" if off == "UTC" else iso
    return [("isoformat", iso, us), ("str", sd.isoformat(" "), us), ("to_iso8601_string", i8601, us), ("to_rfc3339_string", iso, us),
            ("to_atom_string", sec, 0), ("to_w3c_string", sec, 0)]


def expand(c):
    fn, a = c["fn"], c["args"]
    if fn in ("dates", "dates_coq"):
        return items_dates(a[0], a[1], a[2], a[3])
    if fn == "datetimes":
        return items_datetimes(a[0], a[1])
    if fn == "times":
        return items_times(a[0], a[1])
    if fn == "reduced":
        return items_reduced(a[0], a[1])
    if fn == "reduced_det":
        return items_reduced_det(a[0])
    if fn == "invalid":
        return items_invalid(a[0], a[1])
    if fn == "mutated":
        return items_mutated(a[0], a[1])
    if fn == "inverse":
        out = []
        for v in inverse_values(a[0], a[1]):
            y, m, d, H, M, S, us, off = v
            o = 0 if off == "UTC" else off
            for name, s, us2 in inverse_strings(v):
                out.append({"s": s, "api": "top", "exact": 1, "tz": None, "exp": [0, 1, y, m, d, H, M, S, us2, 1, o], "form": "inverse-" + name, "value": v, "render": name})
        return out
    if fn == "strings":
        return [{"s": s, "api": a[0], "exact": a[1], "tz": a[2], "exp": None, "form": "given"} for s in a[3]]
    raise ValueError(fn)


# ----------------------------------------------------------------------------- case streams
def _leap(y):
    return y % 4 == 0 and (y % 100 != 0 or y % 400 == 0)


def year_shapes_sample(rnd):
    """8 years, seed-chosen: every Jan-1 weekday, both leap kinds (>= 3 each), one non-leap century year"""
    pool = list(range(1583, 10000))
    rnd.shuffle(pool)
    flip = rnd.randrange(2)
    chosen = []
    for wd in range(7):
        want_leap = (wd + flip) % 2 == 0
        chosen.append(next(y for y in pool if _dt.date(y, 1, 1).weekday() == wd and _leap(y) == want_leap))
    chosen.append(next(y for y in pool if y % 100 == 0 and not _leap(y)))
    return sorted(set(chosen))


def cases(tier, seed):
    rnd = random.Random(seed)
    out = []
    if tier == "thorough":
        for y in range(1583, 10000):
            out.append({"stream": "all-dates-six-forms", "fn": "dates_coq", "args": [y, "all", list(FORMS), "iso"]})
    else:
        for y in year_shapes_sample(rnd):
            out.append({"stream": "whole-years-six-forms", "fn": "dates", "args": [y, "all", list(FORMS), "iso"]})
            out.append({"stream": "whole-years-rendered-in-coq", "fn": "dates_coq", "args": [y, "all", list(FORMS), "iso"]})
            out.append({"stream": "whole-years-six-forms", "fn": "dates", "args": [y, "ends", list(FORMS), "top"]})
        for y in range(1583, 10000):
            k = (y + seed) % 3
            out.append({"stream": "month-ends-every-year", "fn": "dates", "args": [y, "ends", [FORMS[2 * k], FORMS[2 * ((k + 1) % 3) + 1]] if y % 50 else list(FORMS), "iso"]})
    nb = 40 if tier == "quick" else 400
    for i in range(nb):
        out.append({"stream": "date-times", "fn": "datetimes", "args": [seed * 100003 + i, 400]})
    for i in range(nb // 4):
        out.append({"stream": "time-only", "fn": "times", "args": [seed * 100019 + i, 300]})
        out.append({"stream": "impossible-rejected", "fn": "invalid", "args": [seed * 100043 + i, 300]})
        out.append({"stream": "inverse-of-renderers", "fn": "inverse", "args": [seed * 100057 + i, 100]})
        out.append({"stream": "mutated-and-regex-groups", "fn": "mutated", "args": [seed * 100069 + i, 400]})
    # reduced-precision times (hour, hour-minute), alone and after a date: every hour x every time-only layout x every offset style, eight
    # dates x six forms x both separators (deterministic), and seeded ones
    for part in range(24 + len(RP_DATES)):
        out.append({"stream": "reduced-precision-grid", "fn": "reduced_det", "args": [part]})
    for i in range(nb // 4):
        out.append({"stream": "reduced-precision", "fn": "reduced", "args": [seed * 100081 + i, 300]})
    # the documented witnesses of finding rs-ordinal-month-end (repaired: they must now PASS the oracle in both backends), always present
    out.append({"stream": "witnesses", "fn": "strings", "args": ["iso", 1, None, ["2021-031", "2021-365", "2021-W13-3", "2021W133", "2020-W53-4", "2021-030", "2021-W13-2"]]})
    out += witness_dates()
    return out


def witness_dates():
    """the former failing inputs of finding rs-ordinal-month-end as dated cases WITH an expectation (the `strings` case above only ties model and
    implementation): ordinal and week forms of month ends of a common and a leap year, through parse_iso8601 and through pendulum.parse"""
    return [{"stream": "witnesses", "fn": "dates", "args": [y, "ends", list(FORMS[2:]), api]} for y in (2021, 2020) for api in ("iso", "top")]


def search_cases(seed):
    return [{"stream": "all-dates-six-forms", "fn": "dates_coq", "args": [y, "all", list(FORMS), "iso"]} for y in range(1583 + seed % 20, 10000, 20)] + \
           [{"stream": "date-times", "fn": "datetimes", "args": [seed * 7 + i, 400]} for i in range(300)]


def nontrivial(c):
    return True


# ----------------------------------------------------------------------------- implementation side
def _canon(r):
    import datetime
    if isinstance(r, datetime.datetime):
        off = r.utcoffset() if r.tzinfo is not None else None
        return [0, 1, r.year, r.month, r.day, r.hour, r.minute, r.second, r.microsecond, 0 if off is None else 1,
                0 if off is None else off.days * 86400 + off.seconds]
    if isinstance(r, datetime.date):
        return [0, 2, r.year, r.month, r.day, 0, 0, 0, 0, 0, 0]
    if isinstance(r, datetime.time):
        tz = r.tzinfo
        off = tz.utcoffset(None) if tz is not None else None
        return [0, 3, 0, 0, 0, r.hour, r.minute, r.second, r.microsecond, 0 if off is None else 1, 0 if off is None else off.days * 86400 + off.seconds]
    return [8, type(r).__name__]


def _exc(e, api):
    from pendulum.parsing.exceptions import ParserError
    if api == "top" and isinstance(e, ParserError):
        return [1, "ParserError"]
    if isinstance(e, ValueError):
        return [1, "ValueError"]
    return [1, type(e).__name__]


def impl_run(cases):
    import datetime
    import pendulum
    from pendulum.parsing import parse_iso8601, COMMON
    from pendulum.parsing.iso8601 import ISO8601_DT
    from pendulum.tz.timezone import FixedTimezone
    now = datetime.datetime(*NOW)
    out = []
    for c in cases:
        res = []
        if c["fn"] in ("dates", "dates_coq") and c["args"][3] == "iso":
            for s, e, f, me in dates_fast(c["args"][0], c["args"][1], c["args"][2]):
                try:
                    r = parse_iso8601(s)
                    res.append(r.year * 10000 + r.month * 100 + r.day if type(r) is datetime.date else -2)
                except ValueError:
                    res.append(-1)
                except Exception as ex:  # noqa
                    res.append([1, type(ex).__name__])
            out.append(res)
            continue
        try:
            items = expand(c)
        except Exception as e:  # noqa
            out.append([[7, type(e).__name__]])
            continue
        compact = c["fn"] in ("dates", "dates_coq")
        for it in items:
            s, api = it["s"], it["api"]
            if "render" in it:
                y, m, d, H, M, S, us, off = it["value"]
                try:
                    dt = pendulum.datetime(y, m, d, H, M, S, us, tz="UTC" if off == "UTC" else FixedTimezone(off))
                    name = it["render"]
                    got = dt.isoformat() if name == "isoformat" else str(dt) if name == "str" else getattr(dt, name)()
                    if got != s:
                        res.append([6, got[:40]])
                        continue
                except Exception as e:  # noqa
                    res.append([6, type(e).__name__])
                    continue
            try:
                if api == "iso":
                    r = parse_iso8601(s)
                    try:
                        cr = _canon(r)
                    except ValueError:      # utcoffset() of an out-of-range FixedTimezone
                        tmp = r.replace(tzinfo=None)
                        cr = _canon(tmp)
                        cr[9], cr[10] = 1, 999999
                elif api == "top":
                    kw = {"now": now}
                    if it["exact"]:
                        kw["exact"] = True
                    if it["tz"] is not None:
                        kw["tz"] = FixedTimezone(it["tz"])
                    cr = _canon(pendulum.parse(s, **kw))
                else:
                    cr = [0]
                    for rx in (ISO8601_DT, COMMON):
                        mt = rx.match(s)
                        if mt is None:
                            cr += [0]
                        else:
                            cr += [1]
                            for g in mt.groups():
                                cr += [-1] if g is None else [len(g)] + [ord(ch) for ch in g]
            except Exception as e:  # noqa
                cr = _exc(e, api)
            if compact:
                cr = (cr[2] * 10000 + cr[3] * 100 + cr[4]) if cr[0] == 0 and cr[1] == 2 else -1 if cr[0] == 1 else -2
            res.append(cr)
        out.append(res)
    return out


# ----------------------------------------------------------------------------- model side
_CALLS = {}


def _codes(s):
    return [ord(ch) for ch in s]


def model_calls(c, backend):
    calls = []
    if c["fn"] == "dates_coq":
        return [(f"{backend}_year_form", [c["args"][0], FORMS.index(f)]) for f in c["args"][2]]
    for it in expand(c):
        s, api = it["s"], it["api"]
        if any(ord(ch) > 127 for ch in s) or "/" in s or s[:1] == "P" or s == "now":
            return None
        if api == "iso":
            calls.append((f"{backend}_parse_iso", _codes(s)))
        elif api == "top":
            tz = it["tz"]
            calls.append((f"{backend}_parse_top", [it["exact"], 0 if tz is None else 1, tz or 0, NOW[0], NOW[1], NOW[2]] + _codes(s)))
        else:
            calls.append(("iso_groups", _codes(s)))
            calls.append(("common_groups", _codes(s)))
    return calls


_EXN = {1: "ValueError", 2: "TypeError", 9: "ParserError"}


def _mres(o, api):
    if o[0] == 0:
        r = list(o)
        if r[9] == 1 and abs(r[10]) >= 86400 and api == "iso":
            r[10] = 999999
        return r
    if o[0] == 1:
        name = _EXN.get(o[1], f"exn{o[1]}")
        if api == "iso" and name == "ParserError":
            name = "ValueError"
        return [1, name]
    return o


def model_result(c, backend, outs):
    res = []
    if c["fn"] == "dates_coq":
        nf = len(outs)
        for d in range(len(outs[0]) - 1):
            for j in range(nf):
                res.append(outs[j][1 + d])
        return res
    k = 0
    compact = c["fn"] == "dates"
    for it in expand(c):
        api = it["api"]
        if api in ("iso", "top"):
            r = _mres(outs[k], api)
            k += 1
            if compact:
                r = (r[2] * 10000 + r[3] * 100 + r[4]) if r[0] == 0 and r[1] == 2 else -1 if r[0] == 1 else -2
        else:
            a, b = outs[k], outs[k + 1]
            k += 2
            r = [0] + a[1:] + b[1:]
        res.append(r)
    return res


def same(c, m, r):
    return m == r


# ----------------------------------------------------------------------------- the property itself
def _failures(c, backend, r):
    """[(why, finding id or None)] for every item of the batch whose result is not the value the string denotes"""
    out = []
    if c["fn"] in ("dates", "dates_coq") and c["args"][3] == "iso":
        tups = dates_fast(c["args"][0], c["args"][1], c["args"][2])
        if len(r) != len(tups):
            return [(f"batch returned {len(r)} results for {len(tups)} strings: {str(r)[:200]}", None)]
        for (s, e, f, me), got in zip(tups, r):
            if got != e:
                it = {"s": s, "form": f, "monthend": me, "exp": e}
                out.append((f"iso({s!r}) [{f}] = {got}, the string denotes {e}", _classify(it, backend, got, True)))
        return out
    items = expand(c)
    if len(r) != len(items):
        return [(f"batch returned {len(r)} results for {len(items)} strings: {str(r)[:200]}", None)]
    compact = c["fn"] in ("dates", "dates_coq")
    for it, got in zip(items, r):
        exp = it["exp"]
        if exp is None:
            continue
        if isinstance(got, list) and got and got[0] == 6:
            out.append((f"renderer {it.get('render')} of {it.get('value')} gave {got[1]!r}, stdlib isoformat gives {it['s']!r}", None))
            continue
        if exp == "reject":
            ok = isinstance(got, list) and got[0] == 1
            why = f"{it['api']}({it['s']!r}) must be rejected ({it['form']}), got {got}"
        else:
            if compact:
                e2 = exp[2] * 10000 + exp[3] * 100 + exp[4]
                ok = got == e2
                why = f"{it['api']}({it['s']!r}) [{it['form']}] = {got}, the string denotes {e2}"
            else:
                ok = got == exp
                why = f"{it['api']}({it['s']!r}, exact={it['exact']}, tz={it['tz']}) [{it['form']}] = {got}, the string denotes {exp}"
        if ok:
            continue
        out.append((why, _classify(it, backend, got, compact)))
    return out


import re as _re
_BARE_HOUR = _re.compile(r"[0-9]{2}(Z|[+-][0-9]{2}(:?[0-9]{2})?)?")


def _classify(it, backend, got, compact):
    form = it["form"]
    rejected = (got == -1) if compact else (isinstance(got, list) and got[0] == 1)
    # finding rs-ordinal-month-end (status fixed: the runner reports a reproduction as a VIOLATION): Rust ordinal_to_ymd compared
    # `ord < MONTHS_OFFSETS[leap][i]`, so the last day of a month in ordinal/week form was rejected by the compiled parser
    if backend == "rs" and form[:3] in ("ord", "wee") and it.get("monthend") == 1 and rejected and it["exp"] != "reject":
        return "rs-ordinal-month-end"
    # finding week-zero-accepted (status fixed: a reproduction is a VIOLATION): week 00 / weekday 0 were accepted by both backends
    # (mapped to the week before week 1 / the day before Monday); only the upper bounds were checked
    if it["exp"] == "reject" and form in ("invalid-week0", "invalid-weekday0") and not rejected:
        return "week-zero-accepted"
    # finding py-hhmmss-leading-zero (status fixed: a reproduction is a VIOLATION): pure-Python 6-digit basic time without T and with an
    # hour below 10: f"{year!s}" dropped the leading zero
    if backend == "py" and form == "time-bare-basic" and it.get("hour", 99) < 10:
        return "py-hhmmss-leading-zero"
    # compiled parser: bare hhmmss is not a time at all
    if backend == "rs" and form == "time-bare-basic" and rejected:
        return "rs-bare-hhmmss-rejected"
    # finding rs-bare-hour-rejected: the compiled parser has no reading for a bare hour "HH" (with or without an offset): exactly two digits,
    # then nothing, Z, or +-hh / +-hhmm / +-hh:mm (Props/C07.v time_bare_hour_rs_rejected); the pure-Python parser reads time(H, 0, 0)
    if backend == "rs" and form == "time-bare-hour" and rejected and _BARE_HOUR.fullmatch(it["s"]):
        return "rs-bare-hour-rejected"
    # compiled parser: "T" + extended time WITH seconds is refused (basic "date" format + extended time format)
    s = it["s"]
    if backend == "rs" and form == "time" and rejected and s[:1] == "T" and len(s) >= 9 and s[3] == ":" and s[6] == ":":
        return "rs-T-extended-time-rejected"
    return None


def oracle(c, backend, r):
    f = _failures(c, backend, r)
    if not f:
        return None
    unknown = [w for w, k in f if k is None]
    return unknown[0] if unknown else f[0][0]


def known(c, backend, r):
    f = _failures(c, backend, r)
    if f and all(k is not None for _, k in f):
        return f[0][1]
    return None


LEVEL_TEXT = ("Machine-checked Coq theorems about executable models of both ISO 8601 parsers (Rust: hand model of the recursive descent and the pyo3 glue; "
              "Python: the generated regex AST run by a Coq backtracking matcher plus translated integer post-match code). Calendrical core: the ordinal-day and "
              "ISO-week conversions of BOTH backends equal the proleptic Gregorian calendar of Spec/Cal.v for every year and every day / week date, month ends "
              "included (ordinal_rs_spec / week_rs_spec / ordinal_rs_eq_py / week_rs_eq_py after the repair of rs-ordinal-month-end; a week date is accepted exactly "
              "when it exists, week 00 and weekday 0 refused since the repair of week-zero-accepted); n-digit fields, fractions of any length (truncation to six digits) "
              "and offsets parse to their value. End to end, UNIVERSALLY over the values, for both backends: Proofs/RegexShape.v proves that the matcher returns the same "
              "spans on inputs its character tests cannot tell apart (regex_shape_invariance), the generated ISO8601_DT is blind to digits, to 'T' vs ' ' and to '.' vs ',' "
              "(iso_regex_blind_to_digits_and_separators), and the spans of its 26 groups are a closed form checked on all 720 shapes in the kernel; hence parse(text(v)) = v for "
              "every valid date in the six date forms (calendar / ordinal / week x extended / basic) alone (parse_render_date_forms_py/_rs) and combined with T or space and "
              "every time of day, fraction absent or any 1..9 digits after '.' or ',', offset absent / Z / +-hh / +-hhmm / +-hh:mm up to 23:59 (parse_forms_datetime_py/_rs, "
              "through pendulum.parse with any exact / tz / now: parse_top_forms_datetime; parse inverts isoformat()/str()/to_rfc3339_string(): parse_inverts_isoformat_py/_rs), "
              "reduced precision <date>(T| )HH and HH:MM / HHMM (parse_forms_datetime_reduced_py/_rs, parse_top_forms_datetime_reduced), time only HH:MM:SS, THHMMSS, "
              "THH:MM:SS (py) and bare HHMMSS (py: time_bare_hhmmss_py, every valid time), reduced time only THH, THH:MM, THHMM, HH:MM and bare HH (py) "
              "(parse_forms_time_py/_rs, parse_forms_time_reduced_py/_rs); the backends are proved EQUAL on all of these (rs_eq_py_on_rendered, rs_eq_py_on_date_forms, "
              "rs_eq_py_on_forms_datetime, rs_eq_py_on_forms_datetime_reduced, rs_eq_py_on_forms_time, rs_eq_py_on_forms_time_reduced) except exactly the three listed "
              "divergences, each proved universally: time_T_extended_rs_rejected (THH:MM:SS), time_bare_hhmmss_rs_rejected (bare HHMMSS), time_bare_hour_rs_rejected "
              "(bare HH with or without offset; finding rs-bare-hour-rejected) — refused by the compiled parser, read by the pure-Python one. exact=True returns the narrowest "
              "type in either backend (exact_date_text_is_a_date, exact_time_text_is_a_time, exact_reduced_time_text_is_a_time; a date with a time is a DateTime whatever exact). "
              "Week forms carry the side condition ISO year 1001..9998 for the pure-Python path (strptime's %Y) and 1..9999 for the compiled one. Plus a three-way correspondence "
              "(implementation both backends / model / the value each string was rendered from), exhaustive over all dates 1583..9999 in six forms in the thorough tier.")
DESIGN_REF = "DESIGN.md section 4 C07"
LEVEL_NOTE = ("Trusted: Coq kernel+VM, translator, the hand models named in TRUSTED (validated by correspondence on every run), extraction+driver "
              "(cross-checked with vm_compute). Correspondence/oracle only (no end-to-end theorem): week dates without a weekday (YYYY-Www / YYYYWww), week forms whose ISO year "
              "is 9999 (or below 1001) in the pure-Python parser, the end-to-end REJECTION of impossible dates / weeks / ordinals / times (proved for the conversion cores: "
              "ordinal_py_rejects_iff_invalid, ordinal_rs_rejects_out_of_range, week_py/rs_accepts_iff_valid; the strings are in the impossible-rejected stream), the fallback chain of "
              "pendulum.parse on texts the ISO parser refuses (mutated stream, model vs implementation), and pendulum's own renderers producing the stdlib text (inverse-of-renderers). "
              "A time-only text through pendulum.parse does not apply a written offset (naive Time with exact=True, now's day in the tz option otherwise): stated as such in "
              "exact_time_text_is_a_time and expected so by the oracle.")
TECHNIQUE = ("Coq proof (finite reflection over the leap flag x day-of-year, lia with Euclidean division, symbolic execution of the Rust descent on shaped strings, regex shape "
             "invariance + one kernel computation per text shape for the pure-Python parser); differential correspondence; constructive oracle")


# the compiled parser's date conversions are translated from /repo on every run and the hand model is PROVED equal to them
TRUSTED = list(TRUSTED) + [
    "tools/vlib/rust2gallina.py + tools/vlib/gens/g59_rust_parsing_dates.py (Parser::ordinal_to_ymd and Parser::iso_to_ymd extracted by name from rust/src/parsing.rs and translated: "
    "wrap-around arithmetic of coq/Model/RustInt.v, `for i in 1..14` as a fuel-based Fixpoint with an explicit return / exhausted / out-of-fuel outcome, Result as option with the argument of "
    "Err(..) skipped, `&mut self` dropped, an `if` that contains a return duplicates the rest of the function; fails closed otherwise): replaces the former trust in the hand transcription "
    "rs_ordinal_to_ymd / rs_ord_loop / rs_iso_to_ymd of coq/Model/IsoParse.v, now PROVED equal to the translation (model_is_code_rs_ordinal_to_ymd, model_is_code_rs_iso_to_ymd; years 1..100000, "
    "closed under the global context)",
]
LEVEL_NOTE = LEVEL_NOTE + (" Compiled parser = model (date conversions): coq/Gen/RustParsingDatesGen.v is translated from rust/src/parsing.rs on every run and Proofs/RustParsingDatesFacts.v proves "
                           "it equal to Model/IsoParse.rs_ordinal_to_ymd / rs_iso_to_ymd, so an edit of these functions (the `<=` of the month search, the week 00 / weekday 0 checks, the year "
                           "spills) breaks a proof or fails closed (self-tested by mutation, including the seeded change C07-4). Still hand + pinned on the compiled side: parse_integer, the "
                           "timezone-offset arithmetic of parse_time (rs_offset), the character-level scanning.")

LEVEL_NOTE = LEVEL_NOTE + (" Update: Parser::parse_integer is translated as well (the parser state read as the remaining input; model_is_code_rs_parse_integer, lengths up to 9); still hand + pinned on the "
                           "compiled side: the timezone-offset block of parse_time (rs_offset) and the rest of the character-level control flow of parse_datetime / parse_time.")
