"""C08 — format() renders every token correctly and from_format() inverts it."""
from __future__ import annotations

import calendar
import datetime as _dt
import random

ID = "C08"
PROPS = "Props/C08.v"
VM_SUBSET = 60
# history passes of the runner: format()/to_*_string() called without a locale argument legitimately follow the documented process-wide
# pendulum.set_locale (the helpers are compositions of format tokens).  week_starts_at and the local timezone stay in the ambient pass for
# every case except the ones marked by _mark_week_dependent below.
AMBIENT_DEPENDS = ("locale",)
RULE = ("DateTimes = boundary grid (years 1000/9999, leap days, midnight/noon/12h-24h edges, every microsecond width) x zones (named zones incl. "
        "half-hour/45-minute/negative/sub-minute-LMT offsets, fixed offsets, naive) + seeded random ones. Streams: token-grid (every token the "
        "_TOKENS regex can produce, one separator-joined format per DateTime, locale en), locale-tokens (each localizable token x 27 locales), "
        "locale-ordinals (Do Mo Qo DDDo wo do in 27 locales on the days of the year where a CLDR ordinal rule changes category - 1, 8, 11, 80, 101, 108, 111, 211, 280, 301 ... - "
        "checked against the CLDR category of the NUMBER and the documented suffix table), "
        "sequences (random token sequences with literal separators, [..] and backslash escapes), named (all to_*_string helpers), "
        "roundtrip-full / roundtrip-names / fill-now (Formatter.parse(dt.format(fmt), fmt, now, locale) with an explicit now; full-date formats also go "
        "through pendulum.from_format), roundtrip-ordinal-day (the ordinal day token Do as the day of a full date — 'YYYY MM Do', 'Do MMMM YYYY' — and alone, in all 27 "
        "locales on the days 1, 2, 3, 4, 8, 11, 12, 13, 21, 22, 23, 30, 31 where an ordinal rule changes category plus two seed-rotated days), nonmatching (corrupted strings must raise ValueError), parse-misc (direct parse inputs: 12h/meridiem, "
        "quarters, weekdays, ordinal dates, two-digit years, integer timestamps alone and next to other tokens), roundtrip-timestamp (tokens X and x, "
        "format then from_format, at the structurally special places of the calendar: the three days around every century end 0100..9900 second by "
        "second at the day boundaries, 400-year boundaries, year ends of every position in the 4/100/400-year cycles, leap days and Feb 28/Mar 1 of "
        "centurial and ordinary years, month ends, the first and last representable seconds, the epoch, powers of two and ten of the count, seeded "
        "random instants; each instant in UTC and, every ninth, the same instant in a fixed offset or named zone; modelled: X/x are inside the Coq "
        "model, local_time per backend), doy-tokens / roundtrip-doy / parse-doy (the day-of-year tokens: years at every position of the 4/100/400-year cycles — 1000 1001 1004 1100 1200 "
        "1600 1900 1996 1999 2000 2020 2023 2024 2025 2100 2400 9996 9999 plus seeded leap and arbitrary years — on days 1, 59, 60, 61, 365, 366 and every month end (thorough: month "
        "starts too), at the day boundaries 23:59:59.999999 / 00:00:00 in fixed offsets up to +-23:59 and named zones; DDDD DDD DDDo rendered against tm_yday; ten layouts — full date + "
        "time + offset with DDDD or DDD first, last or after the offset (Formatter.parse AND pendulum.from_format must return dt), 'YYYY-DDDD', 'YYYY[T]DDD', 'YYYYDDDD' without separator, "
        "'DDD YY', and DDDD / DDD alone with `now` inside that year — all ten on the last day of every year; direct texts of day numbers 0, 1, 59, 60, 61, 365, 366, 367, 999 in every "
        "such year: an existing day must give the stdlib date, a day the year does not have must raise a ValueError; inside the Coq model: fmt_roundtrip / fmt_parse with the ordinal-date "
        "step of the backend), session (ONE case = a whole process history run in order in one process: set_locale with shipped names in "
        "several spellings and with names that are REJECTED, interleaved with format()/Formatter.parse/pendulum.from_format calls WITHOUT a locale "
        "argument, with an explicit one and with an empty one, the same format string — carrying localized month/day tokens — used under different "
        "defaults; every output is compared with the Gallina state machine Model/FormatterSession.v and checked by the round-trip oracle under the "
        "locale that the last ACCEPTED set_locale names). Every case is compared model vs implementation in both backends and checked "
        "against a stdlib oracle (strftime / calendar / integer arithmetic / field equality after the round trip). A case is non-trivial when "
        "it is a distinct (function, arguments) tuple.")
EXHAUSTIVE = {"quick": False, "thorough": False}
TRUSTED = ["hand model of Formatter.format/_format_token/_format_localizable_token/parse/_replace_tokens/_get_parsed_value(s)/_check_parsed and of "
           "Locale.ordinalize/match_translation in coq/Model/Formatter.v, FormatterParse.v: control flow written by hand, pinned to the source by ast "
           "fingerprints (Proofs/C08SourceTie.v) and by the correspondence run; all tables (_TOKENS alternatives, _TOKENS_RULES, _LOCALIZABLE_TOKENS, "
           "_REGEX_TOKENS as regex ASTs, _PARSE_TOKENS, _FORMATS, to_*_string bodies, 27 locales incl. the ordinal lambdas) are translated from /repo on every run",
           "CPython re semantics (leftmost match, ordered alternation, greedy quantifiers with backtracking, re.sub treating a None replacement as empty) "
           "are modelled by Model/FormatterParse.mre and the tokenizers (shape invariance of that matcher — same spans on inputs its character tests cannot tell apart — is PROVED in "
           "Proofs/MreShape.v; that it is CPython's semantics is trusted and compared on every round-trip case); re.escape by its special-character table",
           "zoneinfo (utcoffset/tzname of the case DateTimes) is the specification side for the zone inputs; the implementation's own values are echoed and compared",
           "timestamp tokens: float(text) / str(float) of Formatter._check_parsed are modelled on integers (Model/FormatterParse.ts_of_text: exact for integer text below 10^15, "
           "argument in the comment there) and validated by the roundtrip-timestamp / parse-misc correspondence; helpers.local_time is the translated pure-Python function "
           "(Gen/Helpers.v) or the hand model of the compiled one (Model/RustHelpers.v, C15), both proved equal to the calendar in Proofs/LocalTime.v",
           "pendulum.set_locale/get_locale, Locale.load/normalize_locale (ASCII names) and the `locale or get_locale()` defaults of Formatter.format/parse are a hand model "
           "(Model/FormatterSession.v) compared output by output on whole call histories (stream session)"]
ASSUMPTIONS = ["utcoffset() is a whole number of seconds (true of every pendulum timezone); then int(total_seconds()/60) is truncation of offset/60 (exact: |offset| < 2^53)",
               "\\d and int() are exercised with ASCII digits only (Python's \\d also matches other Unicode decimal digits; not modelled)",
               "from_format: X with a fraction part, X/x text of 10^15 or more in absolute value or outside the years 1..9999, an empty [] escape, and token 'a' with non-ASCII day periods "
               "are outside the modelled fragment (model answers 'unsupported'; not generated)",
               "sessions: names passed to set_locale are ASCII and are either shipped locales (any spelling normalize_locale accepts) or names with no directory in pendulum/locales; "
               "'' and '__pycache__' (directories that are not locales) are not generated",
               "the L/LT/LTS/LL/LLL/LLLL recursion depth is bounded by 4 in the model (no shipped locale nests date formats)"]

SEP = "\x1f"
LOCALES = ['cs', 'da', 'de', 'en', 'en_gb', 'en_us', 'es', 'fa', 'fo', 'fr', 'he', 'id', 'it', 'ja', 'ko', 'lt', 'nb', 'nl', 'nn', 'pl',
           'pt_br', 'ru', 'sk', 'sv', 'tr', 'ua', 'zh']
ALL_TOKENS = ['Mo', 'MMMM', 'MMM', 'MM', 'M', 'Do', 'DDDo', 'DDDD', 'DDD', 'DD', 'D', 'dddd', 'ddd', 'dd', 'do', 'd', 'eo', 'e', 'EEEE', 'EEE', 'EE', 'E',
              'wo', 'w|', 'ww', 'w', 'Wo', 'W|', 'WW', 'W', 'Qo', 'Q', 'YYYY', 'YY', 'Y', 'ggggg', 'gggg', 'gg', 'GGGGG', 'GGGG', 'GG', 'a', 'A',
              'hh', 'h', 'HH', 'H', 'kk', 'k', 'mm', 'm', 'ss', 's', 'SSSSSSSSS', 'SSSSSSSS', 'SSSSSSS', 'SSSSSS', 'SSSSS', 'SSSS', 'SSS', 'SS', 'S',
              'x', 'X', 'zz', 'z', 'ZZ', 'Z', 'LTS', 'LT', 'LLLL', 'LLL', 'LL', 'L']
LOCALIZABLE = ['Qo', 'MMMM', 'MMM', 'Mo', 'DDDo', 'Do', 'dddd', 'ddd', 'dd', 'do', 'e', 'eo', 'Wo', 'wo', 'A', 'a', 'LTS', 'LT', 'LLLL', 'LLL', 'LL', 'L']
NEEDS_WEEK_DATA = ('e', 'eo')
ORDINAL_DAYS = [1, 2, 3, 4, 8, 11, 12, 13, 21, 22, 23, 30, 31]
# locales whose custom.py has no "ordinal" suffix table (ordinalize() renders the bare number) — finding do-token-no-ordinal-table
NO_ORDINAL_TABLE = ('da', 'de', 'fa', 'id', 'ja', 'ko', 'lt', 'pl', 'pt_br', 'ru', 'sk', 'sv', 'ua', 'zh')
TOKEN_LETTERS = set("MDdeEwWQYgGaAhHkmsSxXzZL")
HELPERS = ["to_time_string", "to_datetime_string", "to_day_datetime_string", "to_atom_string", "to_cookie_string", "to_iso8601_string",
           "to_rfc822_string", "to_rfc850_string", "to_rfc1036_string", "to_rfc1123_string", "to_rfc2822_string", "to_rfc3339_string",
           "to_rss_string", "to_w3c_string"]
ZONES = ["UTC", "Europe/Paris", "America/New_York", "Asia/Kolkata", "Asia/Kathmandu", "Australia/Lord_Howe", "America/St_Johns",
         "Pacific/Marquesas", "Pacific/Kiritimati", "Pacific/Chatham", "Africa/Monrovia", "Europe/Amsterdam", "America/Argentina/Buenos_Aires",
         "Asia/Tokyo", "Etc/GMT+12", "Europe/London"]
FIXED = [0, 3600, -3600, 19800, -12600, 20700, -34200, 50400, -43200, 45900, 60, -60, 30, -30, -2670, 1172, 86340, -86340]
EXN = {"ValueError": 1, "TypeError": 2, "OverflowError": 3, "IndexError": 4, "RuntimeError": 5, "AttributeError": 6, "KeyError": 7,
       "ZeroDivisionError": 8, "ParserError": 9, "error": 14, "Exception": 14}
EXN_NAME = {1: "ValueError", 2: "TypeError", 3: "OverflowError", 4: "IndexError", 5: "RuntimeError", 6: "AttributeError", 7: "KeyError",
            8: "ZeroDivisionError", 9: "ParserError", 14: "error"}


# ----------------------------------------------------------------------------- DateTime specifications (stdlib only)
def fixed_name(off):
    sign = "-" if off < 0 else "+"
    h, m = divmod(abs(int(off / 60)), 60)
    return f"{sign}{h:02d}:{m:02d}"


def mk_dt(kind, zarg, y, mo, d, H, M, S, us, fold=0):
    """-> spec dict or None (non-existent local time / out of range). kind: naive | fixed | zone"""
    try:
        naive = _dt.datetime(y, mo, d, H, M, S, us)
    except ValueError:
        return None
    if kind == "naive":
        off, zname, abbr, has = 0, "", "", 0
    elif kind == "fixed":
        off, zname, abbr, has = zarg, fixed_name(zarg), fixed_name(zarg), 1
    else:
        import zoneinfo
        z = zoneinfo.ZoneInfo(zarg)
        a = naive.replace(tzinfo=z, fold=fold)
        try:
            back = a.astimezone(_dt.timezone.utc).astimezone(z)
        except OverflowError:
            return None
        if back.replace(tzinfo=None) != naive:
            return None            # skipped local time
        if back.fold != fold:
            fold = back.fold
            a = naive.replace(tzinfo=z, fold=fold)
        o = a.utcoffset()
        if o.microseconds:
            return None
        off, zname, abbr, has = o.days * 86400 + o.seconds, zarg, a.tzname(), 1
    return {"kind": kind, "zarg": zarg, "f": [y, mo, d, H, M, S, us], "fold": fold, "off": off, "zname": zname, "abbr": abbr, "has": has}


def boundary_dts(rnd, n_random):
    out = []
    micro = [0, 1, 9, 10, 99, 100, 999, 1000, 9999, 10000, 99999, 100000, 999999, 123456, 500000, 1234]
    grid = [(1000, 1, 1, 0, 0, 0, 0), (1000, 12, 31, 23, 59, 59, 999999), (9999, 12, 31, 23, 59, 59, 999999), (9999, 1, 1, 0, 0, 0, 1),
            (2020, 2, 29, 12, 0, 0, 0), (2020, 2, 29, 11, 59, 59, 999999), (2021, 2, 28, 13, 0, 0, 100000), (2000, 2, 29, 0, 0, 0, 99999),
            (1900, 3, 1, 1, 1, 1, 10), (2100, 2, 28, 23, 0, 9, 9), (1969, 12, 31, 23, 59, 59, 1000), (1970, 1, 1, 0, 0, 0, 0),
            (1969, 12, 31, 23, 59, 59, 750000), (2068, 12, 31, 12, 30, 30, 999), (1969, 1, 1, 0, 30, 0, 0), (2024, 12, 30, 10, 9, 8, 7),
            (2021, 1, 3, 9, 5, 3, 12345), (2026, 1, 1, 22, 10, 10, 120000), (2015, 12, 31, 21, 0, 0, 3000), (2016, 1, 1, 0, 0, 1, 0),
            (2019, 6, 30, 5, 45, 0, 0), (2019, 7, 1, 17, 15, 59, 59), (1999, 9, 9, 9, 9, 9, 900000), (2011, 11, 11, 11, 11, 11, 111111)]
    k = 0
    for g in grid:
        for j in range(3):
            k += 1
            if k % 7 == 0:
                s = mk_dt("naive", None, *g)
            elif k % 2 == 0:
                s = mk_dt("fixed", FIXED[k % len(FIXED)], *g)
            else:
                s = mk_dt("zone", ZONES[(k // 2) % len(ZONES)], *g, fold=k % 2)
            if s:
                out.append(s)
    for _ in range(n_random):
        y = rnd.choice([rnd.randrange(1000, 10000), rnd.randrange(1900, 2100), 1000, 9999])
        mo = rnd.randrange(1, 13)
        d = rnd.choice([1, calendar.monthrange(y, mo)[1], rnd.randrange(1, calendar.monthrange(y, mo)[1] + 1)])
        H = rnd.choice([0, 1, 11, 12, 13, 23, rnd.randrange(24)])
        g = (y, mo, d, H, rnd.choice([0, 59, rnd.randrange(60)]), rnd.choice([0, 59, rnd.randrange(60)]), rnd.choice(micro + [rnd.randrange(1000000)]))
        r = rnd.random()
        s = mk_dt("naive", None, *g) if r < 0.05 else mk_dt("fixed", rnd.choice(FIXED + [rnd.randrange(-1439, 1440) * 60]), *g) if r < 0.5 \
            else mk_dt("zone", rnd.choice(ZONES), *g, fold=rnd.randrange(2))
        if s:
            out.append(s)
    return out


def aware_minute_dts(rnd, n):
    """aware DateTimes with whole-minute offsets (the from_format inverse class)"""
    out = []
    for s in boundary_dts(rnd, n * 3):
        if s["has"] and s["off"] % 60 == 0 and abs(s["off"]) < 86400:
            out.append(s)
    return out[:n]


# ----------------------------------------------------------------------------- case streams
LIT_SEPS = [" ", "-", ":", "/", ".", ",", ", ", " - ", "T", "|", "_", "#", "  ", "~", "!", "%", "@", "U", "n", "é", "日", "+", "(", ")", "{", "}", "*", "?", "^", "$"]
ESC_TEXTS = ["T", "at", "of", "the", "Day", "YYYY", "a]b", "x y", "", "é日", "o'clock", "M", "[", "h:m"]


def rand_sequence(rnd, tokens):
    parts = []          # ("tok", t) | ("lit", s) | ("br", s) | ("esc", c)
    n = rnd.randrange(1, 8)
    for i in range(n):
        parts.append(("tok", rnd.choice(tokens)))
        r = rnd.random()
        if r < 0.55:
            parts.append(("lit", rnd.choice(LIT_SEPS)))
        elif r < 0.8:
            t = rnd.choice(ESC_TEXTS).replace("[", "")
            parts.append(("br", t))
        else:
            parts.append(("esc", rnd.choice(["Y", "M", "[", "]", "\\", "d", "é", " ", "z", "L"])))
    return parts


def parts_fmt(parts):
    out = []
    for k, v in parts:
        out.append(v if k in ("tok", "lit") else "[" + v + "]" if k == "br" else "\\" + v)
    return "".join(out)


def safe_parts(parts):
    """the oracle can predict the tokenisation only when separators cannot merge with neighbours"""
    fmt = parts_fmt(parts)
    # literal separators that contain token letters, '[' or a backslash change the tokenisation
    for i, (k, v) in enumerate(parts):
        if k == "lit" and any(c.isalpha() and c.isascii() for c in v):
            return False
        if k == "br" and ("]" in v) and i + 1 < len(parts) and "]" in parts_fmt(parts[i + 1:]).split("[")[0]:
            return False
        if k == "br" and "]" in v:
            return False
    # a "br" directly followed by text containing ']' before the next '[' extends the bracket
    for i, (k, v) in enumerate(parts):
        if k == "br":
            tail = parts_fmt(parts[i + 1:]).split("[")[0]
            if "]" in tail:
                return False
        if k == "tok":
            # adjacent token letters merge (e.g. "D" "D"); require a non-letter or an escape in between
            if i + 1 < len(parts) and parts[i + 1][0] == "tok":
                return False
            if i + 1 < len(parts) and parts[i + 1][0] == "lit" and parts[i + 1][1] == "":
                return False
    return True


def cases(tier, seed):
    rnd = random.Random(seed * 7919 + 8)
    big = tier == "thorough"
    out = []
    dts = boundary_dts(rnd, 400 if big else 60)
    # 1. every token, one format per DateTime
    grid_tokens = [t for t in ALL_TOKENS]
    for s in dts:
        toks = grid_tokens if s["has"] else [t for t in grid_tokens if t not in ("X", "x")]
        out.append({"stream": "token-grid", "fn": "format", "args": ["en", s, [["tok", t] if i % 2 == 0 else ["lit", SEP] for t in toks for i in (0, 1)][:-1]]})
    for s in dts[:6]:
        if not s["has"]:
            continue
    for s in [x for x in dts if not x["has"]][:3]:
        for t in ("X", "x"):
            out.append({"stream": "token-grid", "fn": "format", "args": ["en", s, [["tok", t]]]})
    # 2. localizable tokens in every locale
    sub = dts[::5] if not big else dts[::3]
    months = [mk_dt("fixed", 3600, 2021, m, 1 + (m * 5) % 28, (m * 5) % 24, m, m, m * 1000) for m in range(1, 13)]
    days = [mk_dt("zone", "Europe/Paris", 2024, 7, 1 + k, 12 * (k % 2), 0, 0, 0) for k in range(7)]
    for loc in LOCALES:
        for s in months + days + sub[: (8 if not big else 40)]:
            safe = list(LOCALIZABLE)     # every locale has week_data since the nl fix: commit; e/eo are rendered everywhere
            out.append({"stream": "locale-tokens", "fn": "format", "args": [loc, s, [["tok", t] if i % 2 == 0 else ["lit", SEP] for t in safe for i in (0, 1)][:-1]]})
        for t in NEEDS_WEEK_DATA:
            for s in days[:3]:
                out.append({"stream": "locale-tokens", "fn": "format", "args": [loc, s, [["tok", t]]]})
    # ordinals of every size in every locale: the day of the year reaches numbers (101, 108, 111, 211, 280, 301 ...) where the CLDR rule of a locale
    # tests the number itself, not its last digits
    ydays = [1, 2, 3, 4, 8, 11, 12, 13, 21, 22, 23, 31, 32, 80, 88, 100, 101, 102, 103, 108, 111, 112, 113, 121, 180, 188, 200, 201, 208, 211, 212, 280, 300, 301, 308, 311, 365, 366]
    for li, loc in enumerate(LOCALES):
        for yd in ydays:
            dd = _dt.date(2024, 1, 1) + _dt.timedelta(days=yd - 1)
            s = mk_dt("fixed", FIXED[(li + yd) % 10], 2024, dd.month, dd.day, yd % 24, yd % 60, (yd * 7) % 60, yd * 1000)
            toks = ["DDDo", "Do", "Mo", "Qo", "wo", "do"]
            out.append({"stream": "locale-ordinals", "fn": "format", "args": [loc, s, [["tok", t] if i % 2 == 0 else ["lit", SEP] for t in toks for i in (0, 1)][:-1]]})
    # 3. random sequences
    for _ in range(3000 if big else 500):
        parts = rand_sequence(rnd, ALL_TOKENS)
        s = rnd.choice(dts)
        if not s["has"] and any(k == "tok" and v in ("X", "x") for k, v in parts):
            continue
        loc = rnd.choice(LOCALES) if rnd.random() < 0.4 else "en"
        out.append({"stream": "sequences", "fn": "format", "args": [loc, s, [list(p) for p in parts]]})
    # raw (unstructured) format strings: model vs implementation only
    alphabet = list("YMDdHhmsSAaZzXxQEeLTwWgGko[]\\ -:/.,") + ["\n", "é"]
    for _ in range(2000 if big else 300):
        fmt = "".join(rnd.choice(alphabet) for _ in range(rnd.randrange(1, 14)))
        s = rnd.choice([x for x in dts if x["has"]])
        out.append({"stream": "raw-formats", "fn": "format", "args": ["en", s, [["raw", fmt]]]})
    # 4. named helpers
    for s in dts if big else dts[::2]:
        for h in HELPERS:
            out.append({"stream": "named", "fn": "helper", "args": [h, s]})
    # 5. round trips
    now = [2021, 3, 4]
    aw = aware_minute_dts(rnd, 500 if big else 90)
    for s in aw:
        for _ in range(3):
            out.append(roundtrip_case(rnd, s, now, "full"))
        out.append(roundtrip_case(rnd, s, [rnd.randrange(1000, 9999), rnd.randrange(1, 13), rnd.randrange(1, 29)], rnd.choice(["date", "time", "md", "y", "ym", "dhm", "full12", "fullz", "doy", "yy", "frac", "frac"])))
    # deterministic witnesses of the listed findings (so that they are re-confirmed on every run; the DDDD witnesses of the repaired
    # finding rs-ordinal-month-end — Feb 29 and Jan 31, both month ends — must now pass in both backends)
    w = mk_dt("fixed", 19800, 2020, 2, 29, 13, 14, 15, 123456)
    w2 = mk_dt("fixed", -3600, 2021, 1, 31, 1, 2, 3, 4)
    iso_tail = [["lit", " "], ["tok", "HH"], ["lit", ":"], ["tok", "mm"], ["lit", ":"], ["tok", "ss"], ["lit", "."], ["tok", "SSSSSS"], ["lit", " "], ["tok", "Z"]]
    for x in (w, w2):
        out.append({"stream": "roundtrip-full", "fn": "roundtrip", "args": ["en", x, [["tok", "YYYY"], ["lit", "-"], ["tok", "DDDD"]] + iso_tail, now, "doy"]})
        out.append({"stream": "roundtrip-full", "fn": "roundtrip", "args": ["en", x, [["tok", "YYYY"], ["lit", "-"], ["tok", "MM"], ["lit", "-"], ["tok", "DD"], ["br", "at"]] + iso_tail[1:], now, "full"]})
        out.append({"stream": "roundtrip-full", "fn": "roundtrip", "args": ["en", x, [["tok", "YYYY"], ["lit", "-"], ["tok", "MM"], ["lit", "-"], ["tok", "DD"], ["esc", "T"]] + iso_tail[1:], now, "full"]})
        out.append({"stream": "roundtrip-full", "fn": "roundtrip", "args": ["en", x, [["tok", "YYYY"], ["lit", "-"], ["tok", "MM"], ["lit", "-"], ["tok", "DD"]] + iso_tail, now, "full"]})
    # zone names of every structural kind through the `z` token: multi-level names (America/Argentina/...), '_', '-', '+', digits.
    # quick: every three-level name and one name per (first component, character-class signature); thorough: every shipped name
    import zoneinfo
    names = sorted(n for n in zoneinfo.available_timezones() if n != "localtime")
    if not big:
        seen_sig, pick = set(), []
        for n in names:
            sig = (n.split("/")[0] if "/" in n else "", n.count("/"), "_" in n, "-" in n, "+" in n, any(ch.isdigit() for ch in n))
            if n.count("/") >= 2 or sig not in seen_sig:
                seen_sig.add(sig)
                pick.append(n)
        names = pick
    zfmt = [["tok", "YYYY"], ["lit", "/"], ["tok", "MM"], ["lit", "/"], ["tok", "DD"], ["br", "T"], ["tok", "HH"], ["lit", ":"], ["tok", "mm"], ["lit", ":"], ["tok", "ss"],
            ["lit", "."], ["tok", "SSSSSS"], ["lit", " "], ["tok", "z"]]
    for i, n in enumerate(names):
        s = mk_dt("zone", n, 1990 + i % 40, 1 + i % 12, 1 + i % 28, 12, i % 60, 59 - i % 60, (i * 7919) % 1000000)
        if s and s["off"] % 60 == 0:
            out.append({"stream": "roundtrip-zone-names", "fn": "roundtrip", "args": ["en", s, zfmt, now, "fullz"]})
    # localized month / day names in every locale
    for loc in LOCALES:
        for m in range(1, 13):
            s = mk_dt("fixed", 0, 2000 + (m * 37 + len(loc)) % 50, m, 1 + (m * 11) % 28, 0, 0, 0, 0)
            for tok in ("MMMM", "MMM"):
                out.append({"stream": "roundtrip-names", "fn": "roundtrip", "args": [loc, s, [["tok", "YYYY"], ["lit", " "], ["tok", tok], ["lit", " "], ["tok", "DD"]], now, "names"]})
                out.append({"stream": "roundtrip-names", "fn": "roundtrip", "args": [loc, s, [["tok", "DD"], ["lit", "/"], ["tok", "YYYY"], ["lit", " "], ["tok", tok]], now, "names"]})
        for k in range(7):
            s = mk_dt("fixed", 0, 2024, 7, 1 + k, 0, 0, 0, 0)
            for tok in ("dddd", "ddd", "dd"):
                out.append({"stream": "roundtrip-names", "fn": "roundtrip", "args": [loc, s, [["tok", tok], ["lit", ", "], ["tok", "YYYY"], ["lit", "-"], ["tok", "MM"], ["lit", "-"], ["tok", "DD"]], now, "names"]})
                out.append({"stream": "roundtrip-names", "fn": "roundtrip", "args": [loc, s, [["tok", "YYYY"], ["lit", "-"], ["tok", "MM"], ["lit", "-"], ["tok", "DD"], ["lit", " "], ["tok", tok]], now, "names"]})
            if k < 3:
                s2 = mk_dt("fixed", 0, 2021, 3, 1 + k * 3, 0, 0, 0, 0)     # same week as `now` (Mon 2021-03-01 .. Sun 03-07)
                out.append({"stream": "roundtrip-names", "fn": "roundtrip", "args": [loc, s2, [["tok", "dddd"]], now, "weekday-only"]})
    # the ordinal day-of-month token Do as the day of a full date (and alone, month and year from `now`), every locale, on the days where an
    # ordinal rule changes category (1, 2, 3, 8, 11, 21, 22, 23, 31 ...) and a seed-rotated remainder
    for li, loc in enumerate(LOCALES):
        for d in ORDINAL_DAYS + [5 + (li + seed + j * 7) % 26 for j in range(2)]:
            mo = (1, 3, 5, 7, 8, 10, 12)[(li + d) % 7]
            s = mk_dt("fixed", 0, 2000 + (d * 37 + li) % 50, mo, d, 0, 0, 0, 0)
            out.append({"stream": "roundtrip-ordinal-day", "fn": "roundtrip", "args": [loc, s, [["tok", "YYYY"], ["lit", " "], ["tok", "MM"], ["lit", " "], ["tok", "Do"]], now, "names"]})
            out.append({"stream": "roundtrip-ordinal-day", "fn": "roundtrip", "args": [loc, s, [["tok", "Do"], ["lit", " "], ["tok", "MMMM"], ["lit", " "], ["tok", "YYYY"]], now, "names"]})
            out.append({"stream": "roundtrip-ordinal-day", "fn": "roundtrip", "args": [loc, s, [["tok", "Do"]], now, "ordinal-day-only"]})
    # 6. strings that do not match
    for s in aw[: (200 if big else 60)]:
        c = roundtrip_case(rnd, s, now, "full")
        out.append({"stream": "nonmatching", "fn": "mismatch", "args": c["args"] + [rnd.randrange(4), rnd.randrange(1000)]})
    # 7. direct parse inputs
    misc = [("11 PM", "h A"), ("12 AM", "h A"), ("12 PM", "hh A"), ("0 PM", "h A"), ("13 PM", "H A"), ("13:00 PM", "H:mm A"), ("14 PM", "H A"), ("13 AM", "h A"),
            ("11 pm", "h a"), ("2020 1", "YYYY Q"), ("2020 4", "YYYY Q"), ("3", "Q"), ("2020 7", "YYYY E"), ("2020 1", "YYYY E"), ("2020 7", "YYYY d"),
            ("2020 0", "YYYY d"), ("2020-060", "YYYY-DDDD"), ("2021-060", "YYYY-DDDD"), ("2021-366", "YYYY-DDDD"), ("2021-000", "YYYY-DDDD"), ("2021-5", "YYYY-DDD"),
            ("2020-061", "YYYY-DDDD"), ("68", "YY"), ("69", "YY"), ("00", "YY"), ("5th", "Do"), ("2020 1st", "YYYY Do"), ("31", "D"), ("2020-02-31", "YYYY-MM-DD"),
            ("0000-01-01", "YYYY-MM-DD"), ("2020 Z", "YYYY Z"), ("2020", "Y"), ("3", "e"), ("2020", "YYYY[T]"), ("2020T", "YYYY[T]"), ("2020-02-29\n", "YYYY-MM-DD"),
            ("x2020", "YYYY"), ("abc", "abc"), ("20 5", "YY M"), (" 5", "DD"), ("5", "DD"), ("1", "S"), ("12", "SS"), ("123", "S"), ("1234", "SSS"), ("1234567", "SSSSSS"),
            ("+0530", "Z"), ("+05:30", "ZZ"), ("-05", "ZZ"), ("+05", "Z"), ("2020 Europe/Paris", "YYYY z"), ("2020 Mars/Phobos", "YYYY z"), ("2020 UTC", "YYYY z"),
            ("Tuesday", "dddd"), ("Tue 2020-02-29", "ddd YYYY-MM-DD"), ("2020-01-01 01", "YYYY-MM-DD YY"), ("5 5", "D D"), ("2020 12", "YYYY w"), ("2020", "YYYY L"),
            ("12:30", "H:m"), ("1:2:3", "H:m:s"), ("24:61:61", "HH:mm:ss"), ("2020-13-40", "YYYY-MM-DD"), ("Feb 30", "MMM D"), ("February", "MMMM"),
            ("Cumartesi", "dddd", "tr"), ("Cuma", "dddd", "tr"), ("mars 5", "MMMM D", "fr"), ("janv. 5", "MMM D", "fr"), ("janvX 5", "MMM D", "fr"), ("1er", "Do", "fr"), ("2e", "Do", "fr")]
    # direct inputs for the timestamp tokens (integer text; with other tokens the timestamp wins and tz stays None)
    misc += [("0", "X"), ("-1", "X"), ("+5", "X"), ("+5", "x"), ("-250", "x"), ("-1000", "x"), ("999", "x"), ("1000", "x"), ("-1", "x"), ("0", "x"), ("-0", "X"),
             ("253402300799", "X"), ("-62135596800", "X"), ("253402300799999", "x"), ("-62135596800000", "x"), ("0004102444799", "X"),
             ("4102444799 +05:30", "X Z"), ("2020 86400", "YYYY X"), ("86400 2020", "X YYYY"), ("13 PM 7", "H A X"), ("12x4", "X"), ("", "X"), ("1e3", "X"),
             ("4102358400", "X"), ("4102358400000", "x"), ("-2208988800", "X"), ("-2209075200", "X"), ("951782400", "X"), ("-1", "X x"), ("5 6", "X x")]
    for m in misc:
        out.append({"stream": "parse-misc", "fn": "parse", "args": [m[2] if len(m) > 2 else "en", m[0], m[1], now]})
    # 8. the timestamp tokens X / x at the structurally special places of the calendar, both directions
    ts_cases = timestamp_cases(rnd, big, now)
    out += ts_cases
    for c in ts_cases[:: (7 if big else 23)]:
        out.append({"stream": "nonmatching", "fn": "mismatch", "args": c["args"] + [rnd.randrange(3), rnd.randrange(1000)]})
    # 8b. the day-of-year tokens DDDD / DDD (/ DDDo, format side) on the structurally special days of leap and common years
    doy = doy_cases(rnd, big, seed)
    out += doy
    for c in [x for x in doy if x["fn"] == "roundtrip" and x["args"][4] == "doy"][:: (5 if big else 17)]:
        out.append({"stream": "nonmatching", "fn": "mismatch", "args": c["args"] + [rnd.randrange(3), rnd.randrange(1000)]})
    # 9. whole process histories: the default locale changed (or a change REJECTED) between calls that rely on it
    out += session_cases(rnd, big, seed, now)
    return _mark_week_dependent(out)


# ----------------------------------------------------------------------------- timestamps
TS_MIN = -62135596800           # 0001-01-01T00:00:00 UTC
TS_MAX = 253402300799           # 9999-12-31T23:59:59 UTC
_EPOCH = _dt.datetime(1970, 1, 1)
TS_MICRO = [0, 999, 0, 1000, 0, 999999, 7, 123456, 0, 500000, 0, 1999, 999000]


def special_instants(rnd, big):
    """UTC wall-clock fields (y, mo, d, H, M, S) at the places where a calendar algorithm changes regime: the ends of every century
    (the first century of a 400-year cycle is one day longer than the others), 400-year boundaries, year ends of every position in the
    4-year cycle, leap days and the days around them (centurial leap, centurial common, ordinary), month ends, the first and last
    representable seconds, the epoch and the powers of two / ten of the second count (where the rendered text changes length)."""
    out = []

    def add_ts(ts):
        if TS_MIN <= ts <= TS_MAX:
            u = _EPOCH + _dt.timedelta(seconds=ts)
            out.append((u.year, u.month, u.day, u.hour, u.minute, u.second))

    def ts_of(y, mo, d, H=0, M=0, S=0):
        return (_dt.datetime(y, mo, d, H, M, S) - _EPOCH) // _dt.timedelta(seconds=1)

    def boundary(y, mo, d, inner=True):
        """the seconds around 00:00:00 of y-mo-d, and (inner) the whole previous day: its first second, a time inside it, its last second"""
        t = ts_of(y, mo, d)
        for k in ([-86401, -86400, -86399, -(rnd.randrange(2, 86399))] if inner else []) + [-1, 0, 1]:
            add_ts(t + k)
    # every century end (Dec 30 23:59:59 .. Jan 1 00:00:01 around years ..99 / ..00), 400-year boundaries included
    for y in range(100, 10000, 100):
        boundary(y, 1, 1)
    # year ends: every position in the 4-year / 100-year / 400-year cycles near the usual suspects + a seeded sample
    years = [2, 3, 4, 5, 99, 101, 399, 401, 1000, 1001, 1582, 1583, 1899, 1901, 1903, 1904, 1905, 1968, 1969, 1970, 1971, 1972, 1973, 1999, 2001, 2004, 2005,
             2037, 2038, 2039, 2099, 2101, 2399, 2401, 9996, 9997, 9998, 9999]
    years += [rnd.randrange(2, 10000) for _ in range(200 if big else 40)]
    for y in years:
        boundary(y, 1, 1, inner=False)
    # leap days and their neighbours
    leapish = [4, 100, 400, 1600, 1700, 1896, 1900, 1904, 1996, 2000, 2004, 2024, 2096, 2100, 2104, 2400, 9996] + [rnd.randrange(1, 2500) * 4 for _ in range(60 if big else 10)]
    for y in leapish:
        if 1 <= y <= 9999:
            boundary(y, 2, 28, inner=False)
            boundary(y, 3, 1)              # the whole last day of February (28th or 29th) and the first second of March
    # month ends of a leap and of a common year
    for y in (2023, 2024):
        for mo in range(1, 13):
            boundary(y, mo, 1, inner=False)
    # the first and last representable seconds
    for ts in (TS_MIN, TS_MIN + 1, TS_MIN + 86399, TS_MIN + 86400, TS_MAX, TS_MAX - 1, TS_MAX - 86399, TS_MAX - 86400):
        add_ts(ts)
    # the epoch, powers of two and ten of the count (text length, sign)
    for b in [0, 86400, 2 ** 31, 2 ** 32, 2 ** 33, 2 ** 35, 2 ** 37] + [10 ** k for k in range(1, 12)]:
        for sgn in (1, -1):
            for k in (-1, 0, 1):
                add_ts(sgn * b + k)
    # seeded random instants, uniform in the second count and uniform in the year
    for _ in range(600 if big else 60):
        add_ts(rnd.randrange(TS_MIN, TS_MAX + 1))
        y = rnd.randrange(1, 10000)
        add_ts(ts_of(y, 1, 1) + rnd.randrange(0, 365 * 86400))
    seen, uniq = set(), []
    for f in out:
        if f not in seen:
            seen.add(f)
            uniq.append(f)
    return uniq


def in_zone(f, us, k):
    """the instant with UTC fields f, as a DateTime specification: in UTC, or (some k) the same instant in a fixed offset / named zone"""
    u = _dt.datetime(*f, us)
    if k % 9 == 4:
        off = FIXED[(k // 9) % len(FIXED)]
        try:
            loc = u + _dt.timedelta(seconds=off)
        except OverflowError:
            return None
        return mk_dt("fixed", off, loc.year, loc.month, loc.day, loc.hour, loc.minute, loc.second, us)
    if k % 9 == 8:
        import zoneinfo
        z = ZONES[(k // 9) % len(ZONES)]
        try:
            loc = u.replace(tzinfo=_dt.timezone.utc).astimezone(zoneinfo.ZoneInfo(z))
        except OverflowError:
            return None
        return mk_dt("zone", z, loc.year, loc.month, loc.day, loc.hour, loc.minute, loc.second, us, fold=loc.fold)
    return mk_dt("zone", "UTC", *f, us)


def timestamp_cases(rnd, big, now):
    out = []
    for k, f in enumerate(special_instants(rnd, big)):
        us = TS_MICRO[k % len(TS_MICRO)]
        s = in_zone(f, us, k)
        if s is None:
            continue
        for tok in ("X", "x"):
            out.append({"stream": "roundtrip-timestamp", "fn": "roundtrip", "args": ["en", s, [["tok", tok]], list(now), "ts"]})
    # deterministic witnesses of finding x-negative-fraction (before the epoch, a millisecond part) and their passing neighbours
    for f, us in (((1969, 12, 31, 23, 59, 59), 750000), ((1969, 12, 31, 23, 59, 58), 1000), ((1000, 1, 1, 0, 0, 0), 999999), ((1, 1, 1, 0, 0, 0), 500000),
                  ((1969, 12, 31, 23, 59, 59), 999), ((1970, 1, 1, 0, 0, 0), 750000), ((1969, 12, 31, 23, 59, 59), 0)):
        out.append({"stream": "roundtrip-timestamp", "fn": "roundtrip", "args": ["en", mk_dt("zone", "UTC", *f, us), [["tok", "x"]], list(now), "ts"]})
    return out


def expected_ts(s, tok):
    """what from_format(dt.format(tok), tok) must return: the UTC fields of dt's instant, to the resolution of the token (None: outside 0001..9999 in UTC)"""
    y, mo, d, H, M, S, us = s["f"]
    ts = (_dt.datetime(y, mo, d, H, M, S) - _EPOCH) // _dt.timedelta(seconds=1) - s["off"]
    if not (TS_MIN <= ts <= TS_MAX):
        return None
    u = _EPOCH + _dt.timedelta(seconds=ts)
    return [u.year, u.month, u.day, u.hour, u.minute, u.second, 0 if tok == "X" else us // 1000 * 1000]


# ----------------------------------------------------------------------------- sessions (process histories)
REJECTED_NAMES = ["tlh", "xx_YY", "en_zz", "fr-FR", "english", "d"]
SPELLINGS = {"en_gb": ["en_GB", "EN-gb", "en-GB"], "en_us": ["EN_US", "en-us"], "pt_br": ["pt-BR", "PT_br"], "fr": ["FR", "Fr"], "de": ["DE"], "ja": ["JA"], "ru": ["Ru"]}


def norm_locale(name):
    import re
    m = re.match("([a-z]{2})[-_]([a-z]{2})", name, re.I)
    return f"{m.group(1).lower()}_{m.group(2).lower()}" if m else name.lower()


def _T(*xs):
    return [["tok", x] if x.isalpha() and x.isascii() else ["lit", x] for x in xs]


SESSION_FORMATS = [
    (_T("YYYY", " ", "MMMM", " ", "DD"), "names"),
    (_T("dddd", ", ", "YYYY", "-", "MM", "-", "DD"), "names"),
    (_T("ddd", ", ", "DD", " ", "MMM", " ", "YYYY", " ", "HH", ":", "mm", ":", "ss", ".", "SSSSSS", " ", "ZZ"), "full"),
    (_T("DD", "/", "YYYY", " ", "MMM"), "names"),
    (_T("dddd", " ", "D", " ", "MMMM", " ", "YYYY", " ", "HH", ":", "mm", ":", "ss", ".", "SSSSSS", " ", "Z"), "full"),
    (_T("YYYY", "-", "MM", "-", "DD", " ", "dd"), "names"),
]


def session_cases(rnd, big, seed, now):
    """ONE case = a whole history executed in order in one process (the replay is self-contained): set_locale calls (shipped names in several
    spellings, names that are REJECTED) interleaved with format()/from_format() calls that rely on the default locale or name one explicitly,
    the SAME format string being used under different defaults.  Every output must be what the same call gives in a fresh process whose
    default locale is the last successfully set one."""
    out = []
    n = len(LOCALES)
    shifts = [1 + (seed * 5 + 3) % (n - 1)] + ([1 + (seed * 7 + 11) % (n - 1)] if big else [])
    for i, A in enumerate(LOCALES):
        for sh in shifts:
            B = LOCALES[(i + sh) % n]
            fsel = range(len(SESSION_FORMATS)) if big else [(i + seed + j * 2) % len(SESSION_FORMATS) for j in range(3)]
            for j in fsel:
                parts, shape = SESSION_FORMATS[j]
                k = i * 7 + j * 3 + sh
                s1 = mk_dt("fixed", FIXED[k % 10], 1990 + k % 60, 1 + k % 12, 1 + (k * 5) % 28, k % 24, (k * 7) % 60, (k * 11) % 60, (k * 7919) % 1000000)
                s2 = mk_dt("fixed", FIXED[(k + 3) % 10], 2001 + k % 47, 1 + (k + 5) % 12, 1 + (k * 3) % 28, (k + 13) % 24, (k * 3) % 60, (k * 5) % 60, (k * 104729) % 1000000)
                a_sp = rnd.choice(SPELLINGS.get(A, [A]) + [A])
                b_sp = rnd.choice(SPELLINGS.get(B, [B]) + [B])
                bad = REJECTED_NAMES[k % len(REJECTED_NAMES)]

                def rt(loc, s):
                    return ["rt", loc, s, parts, shape]
                t = (i + j + sh) % 4
                if t == 0:      # the default changes between two default-locale calls with the same format
                    ops = [["set", A], rt(None, s1), ["set", b_sp], rt(None, s1), rt(A, s2), rt(None, s2), ["set", a_sp], rt(None, s2), ["get"]]
                elif t == 1:    # rejected configuration calls in between
                    ops = [["set", a_sp], rt(None, s1), ["set", bad], rt(None, s2), ["get"], ["set", B], ["set", bad], rt(None, s1), ["get"]]
                elif t == 2:    # an explicit locale first, then the default one, and the other way round
                    ops = [["set", A], rt(B, s1), rt(None, s1), ["set", B], rt(A, s2), rt(None, s2), rt("", s1)]
                else:           # format() under the default as well
                    ops = [["set", B], ["fmt", None, s1, parts], rt(None, s1), ["set", A], ["fmt", None, s1, parts], rt(None, s1), ["fmt", B, s2, parts], rt(None, s2)]
                out.append({"stream": "session", "fn": "session", "args": [ops, list(now)]})
    # direct parse inputs under a changing default (model comparison): English words are rejected once the default is French
    out.append({"stream": "session", "fn": "session", "args": [[["set", "en"], ["parse", None, "February 29 2020", "MMMM D YYYY"], ["set", "fr"],
                                                                  ["parse", None, "February 29 2020", "MMMM D YYYY"], ["parse", "en", "February 29 2020", "MMMM D YYYY"],
                                                                  ["parse", None, "février 29 2020", "MMMM D YYYY"], ["set", "tlh"], ["parse", None, "février 29 2020", "MMMM D YYYY"],
                                                                  ["get"], ["parse", "tlh", "2020", "YYYY"], ["fmt", "tlh", mk_dt("fixed", 0, 2020, 2, 29, 0, 0, 0, 0), _T("YYYY")]], list(now)]})
    return out


# ----------------------------------------------------------------------------- day of the year
# years at every position of the 4 / 100 / 400-year cycles (leap: 1004 1200 1600 1996 2000 2020 2024 2400 9996; centurial common: 1000 1100 1900 2100;
# ordinary common: 1001 1999 2023 2025 9999), and the range ends of the property (1000, 9999)
DOY_YEARS = [1000, 1001, 1004, 1100, 1200, 1600, 1900, 1996, 1999, 2000, 2020, 2023, 2024, 2025, 2100, 2400, 9996, 9999]
DOY_OFFSETS = [0, 19800, -12600, 3600, -3600, 50400, -43200, 20700, -34200, 86340, -86340]
DOY_ZONES = ["UTC", "Europe/Paris", "America/New_York", "Asia/Kolkata", "Pacific/Kiritimati", "Pacific/Marquesas"]
DOY_TIMES = [(23, 59, 59, 999999), (0, 0, 0, 0), (12, 34, 56, 1), (0, 0, 0, 1), (23, 59, 59, 0)]
_DOY_TAIL = _T(" ", "HH", ":", "mm", ":", "ss", ".", "SSSSSS", " ")
# (parts, shape, needs): "doy" = full date + time + fraction + offset (Formatter.parse and pendulum.from_format must both give dt back);
# "doy-date" = a full date (year + day of year), time fields 0; "doy-only" = the day of the year alone, the year comes from `now`
DOY_LAYOUTS = [
    (_T("YYYY", " ", "DDDD") + _DOY_TAIL + [["tok", "Z"]], "doy", None),
    (_T("DDD", "/", "YYYY") + _DOY_TAIL + [["tok", "ZZ"]], "doy", None),
    ([["tok", "Z"], ["lit", " "]] + _T("HH", ":", "mm", ":", "ss", ".", "SSSSSS", " ", "DDDD", ".", "YYYY"), "doy", None),
    (_T("YYYY", "-", "DDDD"), "doy-date", None),
    (_T("YYYY") + [["br", "T"]] + _T("DDD"), "doy-date", None),
    (_T("YYYY") + [["tok", "DDDD"]], "doy-date", None),                    # 'YYYYDDDD': no separator, the widths alone split the digits
    (_T("DDD", " ", "YY"), "doy-date", "yy"),                                # two-digit years: only inside the window 1969..2068
    (_T("DDDD"), "doy-only", None),
    (_T("DDD"), "doy-only", None),
    (_T("DDDD") + _DOY_TAIL + [["tok", "Z"]], "doy-only", None),
]


def special_ydays(y, starts=True):
    """days of the year where a day-of-year <-> (month, day) conversion changes regime: the first day, the days around the end of February
    (59, 60, 61: Feb 28 / Feb 29 or Mar 1 / Mar 1 or Mar 2), the last two days (365 and, in a leap year, 366), every month end and (starts) month start"""
    n = 366 if calendar.isleap(y) else 365
    days = {1, 59, 60, 61, 365, n}
    for mo in range(1, 13):
        last = _dt.date(y, mo, calendar.monthrange(y, mo)[1]).timetuple().tm_yday
        days.add(last)
        if starts and last + 1 <= n:
            days.add(last + 1)
    return sorted(days)


def doy_cases(rnd, big, seed):
    """DDDD / DDD (parse side: Formatter._check_parsed resolves them through pendulum.parse('YYYY-DDD'), i.e. through the ISO 8601 parser of the active backend)
    and DDDo (format side only: from_format has no pattern for it) on the special days of leap and common years across the 4/100/400 cycle."""
    out = []
    years = list(DOY_YEARS) + [rnd.randrange(250, 2500) * 4 for _ in range(6 if big else 2)] + [rnd.randrange(1000, 10000) for _ in range(6 if big else 2)]
    k = seed
    for y in years:
        for yd in special_ydays(y, starts=big):
            k += 1
            dd = _dt.date(y, 1, 1) + _dt.timedelta(days=yd - 1)
            H, M, S, us = DOY_TIMES[k % len(DOY_TIMES)]
            if k % 4 == 3:
                s = mk_dt("zone", DOY_ZONES[(k // 4) % len(DOY_ZONES)], y, dd.month, dd.day, H, M, S, us)
            else:
                s = mk_dt("fixed", DOY_OFFSETS[k % len(DOY_OFFSETS)], y, dd.month, dd.day, H, M, S, us)
            if s is None or s["off"] % 60:
                s = mk_dt("fixed", 0, y, dd.month, dd.day, H, M, S, us)
            # format side: the three day-of-year tokens against the standard library (tm_yday), locale en
            toks = ["DDDD", "DDD", "DDDo", "YYYY"]
            out.append({"stream": "doy-tokens", "fn": "format", "args": ["en", s, [["tok", t] if i % 2 == 0 else ["lit", SEP] for t in toks for i in (0, 1)][:-1]]})
            # round trips: every layout on the last two days of the year, on the first and around the end of February; two rotating layouts elsewhere
            n = 366 if calendar.isleap(y) else 365
            hot = yd in (1, 59, 60, 61, 365, 366) or yd == n
            if yd == n or (hot and big):
                sel = list(range(len(DOY_LAYOUTS)))
            elif yd in (1, 60, 365):
                sel = sorted({k % 3, 3, 7, 3 + k % (len(DOY_LAYOUTS) - 3)})
            else:
                sel = [k % 3, 3 + k % (len(DOY_LAYOUTS) - 3)]
            for j in sel:
                parts, shape, needs = DOY_LAYOUTS[j]
                if needs == "yy" and not (1969 <= y <= 2068):
                    continue
                now = [y, 1 + (k + j) % 12, 1 + (k * 3 + j) % 28] if shape == "doy-only" else [2021 + (k % 4), 3, 4]     # `now` in a leap / common year
                out.append({"stream": "roundtrip-doy", "fn": "roundtrip", "args": ["en", s, [list(p) for p in parts], now, shape]})
        # direct inputs: the text of a day number (existing or not) in this year — 0, 1, 59, 60, 61, 365, 366, 367, 999
        for yd in (0, 1, 59, 60, 61, 365, 366, 367, 999):
            k += 1
            lay = [("%04d-%03d", "YYYY-DDDD"), ("%04d %d", "YYYY DDD"), (None, "DDDD"), ("%04d%03d", "YYYYDDDD")]
            for j in (range(len(lay)) if (big or yd >= 365) else [k % len(lay)]):
                tf, fmt = lay[j]
                text = ("%03d" % yd) if tf is None else tf % (y, yd)
                now = [y, 1 + k % 12, 1 + k % 28] if tf is None else [2021 + (k % 4), 3, 4]
                out.append({"stream": "parse-doy", "fn": "parse_doy", "args": ["en", text, fmt, now, [y, yd]]})
    return out


def _mark_week_dependent(cases_):
    """from_format with a day-of-week token (d, E, dd, ddd, dddd) that is NOT accompanied by its own full date picks that weekday inside
    the week of the date assembled so far — Formatter._check_parsed: dt.start_of("week").subtract(days=1).next(dow) — and so legitimately
    follows the documented week_starts_at/week_ends_at ("the weekday within now's week").  Those cases (round-trip shape "weekday-only" and
    the direct parse inputs with such a token) opt out of the `week` setting of the runner's ambient pass; every other case stays guarded
    (with a full date of the same weekday the step returns that date under every week configuration)."""
    import re
    for c in cases_:
        if c["fn"] == "roundtrip" and c["args"][4] == "weekday-only":
            c["ambient_depends"] = ["week"]
        elif c["fn"] == "parse" and re.search(r"d|E", re.sub(r"\[.*?\]", "", c["args"][2])):
            c["ambient_depends"] = ["week"]
    return cases_


def roundtrip_case(rnd, s, now, shape):
    if shape == "fullz" and s["kind"] != "zone":
        shape = "full"
    sep_d = rnd.choice(["-", "/", ".", " ", ""]) if shape == "full" else rnd.choice(["-", "/"])
    sep_t = rnd.choice([":", ".", "h", ""]) if shape == "full" else ":"
    mid = rnd.choice([" ", "T", ["br", "T"], ["br", "at"], " - ", ["esc", "T"], ", "])
    Z = rnd.choice(["Z", "ZZ"])

    def lit(x):
        return [["lit", x]] if isinstance(x, str) and x else [list(x)] if not isinstance(x, str) else []
    date = [["tok", "YYYY"]] + lit(sep_d) + [["tok", "MM"]] + lit(sep_d) + [["tok", "DD"]]
    time = [["tok", "HH"]] + lit(sep_t) + [["tok", "mm"]] + lit(sep_t) + [["tok", "ss"]]
    frac = lit(rnd.choice([".", ",", " "])) + [["tok", "SSSSSS"]]
    if shape == "full":
        if sep_t == "h":
            sep_t = ":"
            time = [["tok", "HH"], ["lit", ":"], ["tok", "mm"], ["lit", ":"], ["tok", "ss"]]
        parts = date + lit(mid) + time + frac + lit(rnd.choice([" ", "", " ", "_"])) + [["tok", Z]]
        if rnd.random() < 0.3:
            parts = [["tok", Z], ["lit", " "]] + time + frac + lit(" ") + date
    elif shape == "frac":
        parts = date + [["lit", " "]] + time + [["lit", "."], ["tok", "S" * rnd.randrange(1, 7)], ["lit", " "], ["tok", Z]]
    elif shape == "fullz":
        parts = date + lit(mid) + time + frac + [["lit", " "], ["tok", "z"]]
    elif shape == "full12":
        parts = date + lit(mid) + [["tok", rnd.choice(["hh", "h"])], ["lit", ":"], ["tok", "mm"], ["lit", ":"], ["tok", "ss"], ["lit", " "], ["tok", "A"]] + frac + [["lit", " "], ["tok", Z]]
    elif shape == "doy":
        parts = [["tok", "YYYY"], ["lit", "-"], ["tok", rnd.choice(["DDDD", "DDDD", "DDD"])]] + lit(mid) + time + frac + [["lit", " "], ["tok", Z]]
    elif shape == "yy":
        parts = [["tok", "YY"], ["lit", "-"], ["tok", "MM"], ["lit", "-"], ["tok", "DD"]] + lit(mid) + time
    elif shape == "date":
        parts = date
    elif shape == "time":
        parts = time + frac
    elif shape == "md":
        parts = [["tok", "MM"], ["lit", "-"], ["tok", "DD"]]
    elif shape == "y":
        parts = [["tok", "YYYY"]]
    elif shape == "ym":
        parts = [["tok", "YYYY"], ["lit", "/"], ["tok", "M"]]
    elif shape == "dhm":
        parts = [["tok", "D"], ["lit", " "], ["tok", "H"], ["lit", ":"], ["tok", "m"]]
    else:
        raise ValueError(shape)
    return {"stream": "roundtrip-full" if shape in ("full", "fullz", "full12", "doy", "frac") else "fill-now", "fn": "roundtrip", "args": ["en", s, parts, list(now), shape]}


def search_cases(seed):
    return cases("thorough", seed + 1)


def nontrivial(c):
    return True


# ----------------------------------------------------------------------------- implementation side
def fmt_of(parts):
    out = []
    for k, v in parts:
        out.append(v if k in ("tok", "lit", "raw") else "[" + v + "]" if k == "br" else "\\" + v)
    return "".join(out)


def _build(pendulum, s):
    y, mo, d, H, M, S, us = s["f"]
    if s["kind"] == "naive":
        return pendulum.naive(y, mo, d, H, M, S, us)
    if s["kind"] == "fixed":
        return pendulum.datetime(y, mo, d, H, M, S, us, tz=pendulum.timezone(s["zarg"]))
    return pendulum.datetime(y, mo, d, H, M, S, us, tz=s["zarg"], fold=s["fold"])


def _echo(dt):
    o = dt.utcoffset()
    return [0 if o is None else o.days * 86400 + o.seconds, dt.timezone_name or "", (dt.tzname() or "") if dt.tzinfo is not None else "",
            [dt.year, dt.month, dt.day, dt.hour, dt.minute, dt.second, dt.microsecond]]


def _tz_repr(tz):
    if tz is None:
        return [0]
    from pendulum.tz.timezone import FixedTimezone
    if isinstance(tz, FixedTimezone):
        return [1, tz.offset]
    return [2, tz.name]


def mismatch_string(text, how, k):
    if how == 0:
        return text + "!"
    if how == 1:
        return "x" + text
    if how == 2:
        i = k % len(text)
        return text[:i] + "q" + text[i + 1:]
    return text[: max(1, len(text) // 2)]


def _session(pendulum, F, ops, now):
    """run a whole history in this process; one canonical result per operation; the default locale is put back afterwards"""
    saved = pendulum.get_locale()
    nowdt = pendulum.datetime(*now)
    res = []
    try:
        for op in ops:
            try:
                kind = op[0]
                if kind == "set":
                    pendulum.set_locale(op[1])
                    res.append([0])
                elif kind == "get":
                    res.append([0, pendulum.get_locale()])
                elif kind == "fmt":
                    loc, sp, parts = op[1], op[2], op[3]
                    dt = _build(pendulum, sp)
                    res.append([0, dt.format(fmt_of(parts)) if loc is None else dt.format(fmt_of(parts), locale=loc)])
                elif kind == "rt":
                    loc, sp, parts, shape = op[1], op[2], op[3], op[4]
                    dt = _build(pendulum, sp)
                    fmt = fmt_of(parts)
                    text = dt.format(fmt) if loc is None else dt.format(fmt, locale=loc)
                    try:
                        r = F.parse(text, fmt, nowdt) if loc is None else F.parse(text, fmt, nowdt, loc)
                        row = [0, text, r["year"], r["month"], r["day"], r["hour"], r["minute"], r["second"], r["microsecond"]] + _tz_repr(r["tz"])
                    except Exception as ex:  # noqa
                        res.append([3, text, type(ex).__name__])
                        continue
                    try:
                        g = pendulum.from_format(text, fmt) if loc is None else pendulum.from_format(text, fmt, locale=loc)
                        o = g.utcoffset()
                        ff = [g.year, g.month, g.day, g.hour, g.minute, g.second, g.microsecond, o.days * 86400 + o.seconds]
                    except Exception as ex:  # noqa
                        ff = [type(ex).__name__]
                    res.append(row + [ff])
                elif kind == "parse":
                    loc, text, fmt = op[1], op[2], op[3]
                    r = F.parse(text, fmt, nowdt) if loc is None else F.parse(text, fmt, nowdt, loc)
                    res.append([0, r["year"], r["month"], r["day"], r["hour"], r["minute"], r["second"], r["microsecond"]] + _tz_repr(r["tz"]))
                else:
                    res.append([9])
            except Exception as ex:  # noqa
                res.append([1, type(ex).__name__])
    finally:
        try:
            pendulum.set_locale(saved)
        except Exception:  # noqa
            pass
    return res


def impl_run(cases):
    import pendulum
    from pendulum.formatting import Formatter
    F = Formatter()
    out = []
    for c in cases:
        fn, a = c["fn"], c["args"]
        try:
            if fn == "format":
                dt = _build(pendulum, a[1])
                e = _echo(dt)
                try:
                    out.append([0, dt.format(fmt_of(a[2]), locale=a[0])] + e)
                except Exception as ex:  # noqa
                    out.append([1, type(ex).__name__] + e)
            elif fn == "helper":
                dt = _build(pendulum, a[1])
                e = _echo(dt)
                try:
                    out.append([0, getattr(dt, a[0])()] + e)
                except Exception as ex:  # noqa
                    out.append([1, type(ex).__name__] + e)
            elif fn in ("roundtrip", "mismatch"):
                loc, s, parts, now = a[0], a[1], a[2], a[3]
                dt = _build(pendulum, s)
                fmt = fmt_of(parts)
                text = dt.format(fmt, locale=loc)
                if fn == "mismatch":
                    text = mismatch_string(text, a[5], a[6])
                nowdt = pendulum.datetime(*now)
                try:
                    r = F.parse(text, fmt, nowdt, loc)
                    res = [0, text, r["year"], r["month"], r["day"], r["hour"], r["minute"], r["second"], r["microsecond"]] + _tz_repr(r["tz"])
                except Exception as ex:  # noqa
                    out.append([3, text, type(ex).__name__])
                    continue
                ff = None
                if fn == "roundtrip" and a[4] in ("full", "full12", "fullz", "names", "ts", "doy", "doy-date"):
                    # the public entry point (its own `now` is irrelevant when the format carries a full date)
                    try:
                        g = pendulum.from_format(text, fmt, locale=loc)
                        o = g.utcoffset()
                        ff = [g.year, g.month, g.day, g.hour, g.minute, g.second, g.microsecond, o.days * 86400 + o.seconds]
                    except Exception as ex:  # noqa
                        ff = [type(ex).__name__]
                out.append(res + [ff])
            elif fn == "parse":
                loc, text, fmt, now = a
                r = F.parse(text, fmt, pendulum.datetime(*now), loc)
                out.append([0, r["year"], r["month"], r["day"], r["hour"], r["minute"], r["second"], r["microsecond"]] + _tz_repr(r["tz"]))
            elif fn == "parse_doy":
                loc, text, fmt, now = a[:4]
                try:
                    r = F.parse(text, fmt, pendulum.datetime(*now), loc)
                    out.append([0, r["year"], r["month"], r["day"], r["hour"], r["minute"], r["second"], r["microsecond"]] + _tz_repr(r["tz"]))
                except Exception as ex:  # noqa
                    # the class, and whether a caller catching ValueError ("the string does not match") sees it
                    out.append([1, type(ex).__name__, 1 if isinstance(ex, ValueError) else 0])
            elif fn == "session":
                out.append([0, _session(pendulum, F, a[0], a[1])])
            else:
                out.append([9])
        except Exception as ex:  # noqa
            out.append([1, type(ex).__name__])
    return out


# ----------------------------------------------------------------------------- model side
def enc(s):
    return [len(s)] + [ord(ch) for ch in s]


def enc_dt(s):
    return list(s["f"]) + [s["has"], s["off"]] + enc(s["zname"]) + enc(s["abbr"])


def zones_in(text):
    import zoneinfo
    av = zoneinfo.available_timezones()
    found = set()
    n = len(text)
    for i in range(n):
        for j in range(i + 1, min(n, i + 40) + 1):
            if text[i:j] in av:
                found.add(text[i:j])
    return sorted(found)


def model_calls(c, backend):
    fn, a = c["fn"], c["args"]
    rs = 1 if backend == "rs" else 0
    if fn == "format":
        return [("fmt_format", enc(a[0]) + enc_dt(a[1]) + enc(fmt_of(a[2])))]
    if fn == "helper":
        return [("fmt_helper", enc(a[0]) + enc_dt(a[1]))]
    if fn == "roundtrip":
        loc, s, parts, now = a[0], a[1], a[2], a[3]
        zs = [s["zname"]] if s["kind"] == "zone" else []
        args = [rs] + list(now) + [len(zs)]
        for z in zs:
            args += enc(z)
        return [("fmt_roundtrip", args + enc(loc) + enc_dt(s) + enc(fmt_of(parts)))]
    if fn == "mismatch":
        return None        # the corrupted string depends on the rendered text; covered by the oracle and by parse-misc
    if fn in ("parse", "parse_doy"):
        loc, text, fmt, now = a[:4]
        zs = zones_in(text)
        args = [rs] + list(now) + [len(zs)]
        for z in zs:
            args += enc(z)
        return [("fmt_parse", args + enc(loc) + enc(text) + enc(fmt))]
    if fn == "session":
        code = session_code(a[0])
        return [("fmt_session", [k, rs] + list(a[1]) + code) for k in range(len(a[0]))]
    return None


def enc_loc(loc):
    return [0] if loc is None else [1] + enc(loc)


def enc_zones(zs):
    out = [len(zs)]
    for z in zs:
        out += enc(z)
    return out


def session_code(ops):
    """the operations of a session as the integer list Model/DispatchC08.v decodes"""
    code = []
    for op in ops:
        kind = op[0]
        if kind == "set":
            code += [1] + enc(op[1])
        elif kind == "get":
            code += [2]
        elif kind == "fmt":
            code += [3] + enc_loc(op[1]) + enc_dt(op[2]) + enc(fmt_of(op[3]))
        elif kind == "rt":
            sp = op[2]
            code += [4] + enc_loc(op[1]) + enc_zones([sp["zname"]] if sp["kind"] == "zone" else []) + enc_dt(sp) + enc(fmt_of(op[3]))
        elif kind == "parse":
            code += [5] + enc_loc(op[1]) + enc_zones(zones_in(op[2])) + enc(op[2]) + enc(op[3])
        else:
            raise ValueError(kind)
    return code


def dec(l):
    return "".join(chr(x) for x in l)


def _validated(v):
    # y m d H M S us tz...
    tz = v[7:]
    tzr = [0] if tz[0] == 0 else [1, tz[1]] if tz[0] == 1 else [2, dec(tz[1:])]
    return list(v[:7]) + tzr


def model_result(c, backend, outs):
    fn, a = c["fn"], c["args"]
    o = outs[0]
    if fn in ("format", "helper"):
        s = a[1]
        echo = [s["off"], s["zname"], s["abbr"], list(s["f"])]
        if o[0] == 0:
            return [0, dec(o[1:])] + echo
        if o[0] == 1:
            return [1, EXN_NAME.get(o[1], str(o[1]))] + echo
        return [o[0]]
    if fn == "roundtrip":
        if o[0] == 0:
            n = o[1]
            return [0, dec(o[2:2 + n])] + _validated(o[2 + n:])
        if o[0] == 3:
            n = o[1]
            return [3, dec(o[2:2 + n]), EXN_NAME.get(o[2 + n], str(o[2 + n]))]
        if o[0] == 1:
            return [1, EXN_NAME.get(o[1], str(o[1]))]
        return [o[0]]
    if fn == "parse":
        if o[0] == 0:
            return [0] + _validated(o[1:])
        if o[0] == 1:
            return [1, EXN_NAME.get(o[1], str(o[1]))]
        return [o[0]]
    if fn == "parse_doy":
        if o[0] == 0:
            return [0] + _validated(o[1:])
        if o[0] == 1:
            return [1, EXN_NAME.get(o[1], str(o[1])), 1 if o[1] in (EXN["ValueError"], EXN["ParserError"]) else 0]       # ParserError is a ValueError
        return [o[0]]
    if fn == "session":
        res = []
        for op, o in zip(a[0], outs):
            kind = op[0]
            if o[0] == 1:
                res.append([1, EXN_NAME.get(o[1], str(o[1]))])
            elif o[0] == 3:
                n = o[1]
                res.append([3, dec(o[2:2 + n]), EXN_NAME.get(o[2 + n], str(o[2 + n]))])
            elif o[0] != 0:
                res.append([o[0]])
            elif kind == "set":
                res.append([0])
            elif kind in ("get", "fmt"):
                res.append([0, dec(o[1:])])
            elif kind == "rt":
                n = o[1]
                res.append([0, dec(o[2:2 + n])] + _validated(o[2 + n:]))
            else:
                res.append([0] + _validated(o[1:]))
        return [0, res]
    return o


def same(c, m, r):
    fn = c["fn"]
    if fn == "session":
        if not (r and r[0] == 0 and m and m[0] == 0 and len(m[1]) == len(r[1])):
            return m == r
        return all(same({"fn": {"rt": "roundtrip"}.get(op[0], op[0])}, mm, rr) for op, mm, rr in zip(c["args"][0], m[1], r[1]))
    if fn == "roundtrip" and r and r[0] == 0:
        return m == r[:-1]           # the from_format echo is checked by the oracle
    if r and r[0] in (1, 3) and m and m[0] == r[0]:
        # exception classes: compare through the code table (re.error ~ Exception)
        mm, rr = list(m), list(r)
        i = 1 if r[0] == 1 else 2
        return EXN.get(mm[i], mm[i]) == EXN.get(rr[i], rr[i]) and mm[:i] + mm[i + 1:] == rr[:i] + rr[i + 1:]
    return m == r


# ----------------------------------------------------------------------------- the property itself (stdlib only)
def en_ordinal(n):
    if n % 10 == 1 and n % 100 != 11:
        return f"{n}st"
    if n % 10 == 2 and n % 100 != 12:
        return f"{n}nd"
    if n % 10 == 3 and n % 100 != 13:
        return f"{n}rd"
    return f"{n}th"


# the documented ordinal suffixes of the shipped locales (pendulum/locales/<locale>/custom.py, key "ordinal"), by CLDR ordinal category;
# a locale that is not listed, or a category that is not listed for it, has no suffix: the ordinal is the bare number
_DOT = {"one": ".", "two": ".", "few": ".", "other": "."}
_EN = {"one": "st", "two": "nd", "few": "rd", "other": "th"}
ORDINAL_SUFFIX = {"en": _EN, "en_gb": _EN, "en_us": _EN, "fr": {"one": "er", "other": "e"}, "it": {"other": "°"}, "es": {"other": "º"}, "he": {"other": "º"},
                  "nl": {"other": "e"}, "fo": {"other": "."}, "cs": _DOT, "nb": _DOT, "nn": _DOT, "tr": _DOT}


def cldr_ordinal_category(loc, n):
    """Unicode CLDR, supplemental/ordinals.xml, for the locales whose rule is not just 'other' (the rules test the NUMBER, e.g. fr: n = 1; it: n = 11, 8, 80, 800)"""
    if loc in ("en", "en_gb", "en_us"):
        if n % 10 == 1 and n % 100 != 11:
            return "one"
        if n % 10 == 2 and n % 100 != 12:
            return "two"
        if n % 10 == 3 and n % 100 != 13:
            return "few"
        return "other"
    if loc == "fr":
        return "one" if n == 1 else "other"
    if loc == "it":
        return "many" if n in (11, 8, 80, 800) else "other"
    if loc == "sv":
        return "one" if n % 10 in (1, 2) and n % 100 not in (11, 12) else "other"
    return "other"


def ordinal_of(loc, n):
    return f"{n}" + ORDINAL_SUFFIX.get(loc, {}).get(cldr_ordinal_category(loc, n), "")


def expected_token(tok, s, loc="en"):
    """What the standard library says the token must render to (None: no stdlib meaning for this token/locale)."""
    y, mo, d, H, M, S, us = s["f"]
    date = _dt.date(y, mo, d)
    t = _dt.datetime(y, mo, d, H, M, S, us)
    yday = date.timetuple().tm_yday
    iso = date.isoweekday()
    wk = date.isocalendar()[1]
    en = loc in ("en", "en_us")
    simple = {"YYYY": t.strftime("%Y") if y >= 1000 else None, "YY": t.strftime("%y"), "Y": str(y), "Q": str((mo - 1) // 3 + 1),
              "MM": t.strftime("%m"), "M": str(mo), "DD": t.strftime("%d"), "D": str(d), "DDDD": t.strftime("%j"), "DDD": str(yday),
              "d": t.strftime("%w"), "E": str(iso), "HH": t.strftime("%H"), "H": str(H), "hh": t.strftime("%I"), "h": str(int(t.strftime("%I"))),
              "mm": t.strftime("%M"), "m": str(M), "ss": t.strftime("%S"), "s": str(S)}
    if tok in simple:
        return simple[tok]
    if tok and set(tok) == {"S"} and len(tok) <= 6:
        return t.strftime("%f")[: len(tok)]
    if tok in ("X", "x"):
        if not s["has"]:
            return None
        aware = t.replace(tzinfo=_dt.timezone(_dt.timedelta(seconds=s["off"])))
        delta = aware - _dt.datetime(1970, 1, 1, tzinfo=_dt.timezone.utc)
        ts = delta // _dt.timedelta(seconds=1)
        return str(ts) if tok == "X" else str(ts * 1000 + us // 1000)
    if tok in ("Z", "ZZ"):
        if not s["has"]:
            return ""
        if s["off"] % 60:
            return None
        z = t.replace(tzinfo=_dt.timezone(_dt.timedelta(seconds=s["off"]))).strftime("%z")      # +hhmm
        return z if tok == "ZZ" else z[:3] + ":" + z[3:]
    if tok == "z":
        return s["zname"] if s["has"] else ""
    if tok == "zz":
        return s["abbr"] if s["has"] else ""
    if en:
        names = {"MMMM": calendar.month_name[mo], "MMM": calendar.month_abbr[mo], "dddd": calendar.day_name[date.weekday()],
                 "ddd": calendar.day_abbr[date.weekday()], "dd": calendar.day_name[date.weekday()][:2]}
        if tok in names:
            return names[tok]
    if tok in ("Do", "Mo", "Qo", "DDDo", "wo", "do"):
        n = {"Do": d, "Mo": mo, "Qo": (mo - 1) // 3 + 1, "DDDo": yday, "wo": wk, "do": iso % 7}[tok]
        return ordinal_of(loc, n)
    if en:
        if tok == "A":
            return t.strftime("%p")
        if tok == "e":
            return str(iso % 7)             # weeks start on Sunday
        if tok == "eo":
            return en_ordinal(iso % 7 + 1)
        h12 = str(int(t.strftime("%I")))
        comp = {"LTS": f"{h12}:{M:02d}:{S:02d} {t.strftime('%p')}", "LT": f"{h12}:{M:02d} {t.strftime('%p')}", "L": t.strftime("%m/%d/") + str(y),
                "LL": f"{calendar.month_name[mo]} {d}, {y}", "LLL": f"{calendar.month_name[mo]} {d}, {y} {h12}:{M:02d} {t.strftime('%p')}",
                "LLLL": f"{calendar.day_name[date.weekday()]}, {calendar.month_name[mo]} {d}, {y} {h12}:{M:02d} {t.strftime('%p')}"}
        if tok in comp:
            return comp[tok]
    if loc == "en_gb" and tok in ("e", "eo"):
        return str(date.weekday()) if tok == "e" else en_ordinal(date.weekday() + 1)
    return None


def expected_helper(name, s):
    y, mo, d, H, M, S, us = s["f"]
    t = _dt.datetime(y, mo, d, H, M, S, us)
    if s["has"]:
        if s["off"] % 60:
            return None
        tz = _dt.timezone(_dt.timedelta(seconds=s["off"]))
        aware = t.replace(tzinfo=tz)
        zcolon = aware.strftime("%z")[:3] + ":" + aware.strftime("%z")[3:]
        znoc = aware.strftime("%z")
    else:
        aware, zcolon, znoc = t, "", ""
    Y = f"{y:04d}"
    dn, da, mn = calendar.day_name[t.weekday()], calendar.day_abbr[t.weekday()], calendar.month_abbr[mo]
    abbr = s["abbr"] if s["has"] else ""
    h12 = str(int(t.strftime("%I")))
    table = {
        "to_time_string": t.strftime("%H:%M:%S"),
        "to_datetime_string": f"{Y}-{mo:02d}-{d:02d} " + t.strftime("%H:%M:%S"),
        "to_day_datetime_string": f"{da}, {mn} {d}, {y} {h12}:{M:02d} {t.strftime('%p')}",
        "to_atom_string": f"{Y}-{mo:02d}-{d:02d}T" + t.strftime("%H:%M:%S") + zcolon,
        "to_w3c_string": f"{Y}-{mo:02d}-{d:02d}T" + t.strftime("%H:%M:%S") + zcolon,
        "to_cookie_string": f"{dn}, {d:02d}-{mn}-{Y} " + t.strftime("%H:%M:%S") + " " + abbr,
        "to_rfc850_string": f"{dn}, {d:02d}-{mn}-{y % 100:02d} " + t.strftime("%H:%M:%S") + " " + abbr,
        "to_rfc822_string": f"{da}, {d:02d} {mn} {y % 100:02d} " + t.strftime("%H:%M:%S") + " " + znoc,
        "to_rfc1036_string": f"{da}, {d:02d} {mn} {y % 100:02d} " + t.strftime("%H:%M:%S") + " " + znoc,
        "to_rfc1123_string": f"{da}, {d:02d} {mn} {Y} " + t.strftime("%H:%M:%S") + " " + znoc,
        "to_rfc2822_string": f"{da}, {d:02d} {mn} {Y} " + t.strftime("%H:%M:%S") + " " + znoc,
        "to_rss_string": f"{da}, {d:02d} {mn} {Y} " + t.strftime("%H:%M:%S") + " " + znoc,
        "to_rfc3339_string": aware.isoformat("T"),
        "to_iso8601_string": aware.isoformat("T")[:-6] + "Z" if s["has"] and s["zname"] == "UTC" else aware.isoformat("T"),
    }
    return table.get(name)


def expected_roundtrip(s, parts, now, loc):
    """fields the parse must return for dt.format(fmt): the DateTime's own for the tokens present; otherwise year from now,
    month/day from now unless a larger unit is present (then 1), time fields 0."""
    toks = [v for k, v in parts if k == "tok"]
    y, mo, d, H, M, S, us = s["f"]
    has_y = any(t in toks for t in ("YYYY", "YY"))
    has_m = any(t in toks for t in ("MM", "M", "MMMM", "MMM"))
    has_d = any(t in toks for t in ("DD", "D", "Do"))
    doy = any(t in toks for t in ("DDDD", "DDD"))
    ey = y if "YYYY" in toks else ((y % 100) + (2000 if y % 100 <= 68 else 1900)) if "YY" in toks else now[0]
    em = mo if has_m else (1 if has_y else now[1])
    ed = d if has_d else (1 if (has_y or has_m) else now[2])
    if doy:
        em, ed = mo, d
    eH = H if any(t in toks for t in ("HH", "H")) or (any(t in toks for t in ("hh", "h")) and "A" in toks) else 0
    eM = M if any(t in toks for t in ("mm", "m")) else 0
    eS = S if any(t in toks for t in ("ss", "s")) else 0
    eus = 0
    for k in range(1, 7):
        if "S" * k in toks:
            eus = us // 10 ** (6 - k) * 10 ** (6 - k)
    if any(t in toks for t in ("Z", "ZZ")):
        tz = [1, s["off"]]
    elif "z" in toks:
        tz = [2, s["zname"]]
    else:
        tz = [0]
    return [ey, em, ed, eH, eM, eS, eus] + tz


def oracle(c, backend, r):
    fn, a = c["fn"], c["args"]
    if fn == "format":
        loc, s, parts = a
        if parts and parts[0][0] == "raw":
            return None
        if r[0] != 0:
            if not s["has"] and all(k != "tok" or v in ("X", "x") for k, v in parts):
                return None         # naive DateTimes have no timestamp; outside the quantifier (all zones/offsets)
            return f"format({fmt_of(parts)!r}, locale={loc}) raised {r[1]}"
        text = r[1]
        if all(p[0] == "lit" and p[1] == SEP for p in parts[1::2]) and all(p[0] == "tok" for p in parts[0::2]):
            got = text.split(SEP)
            toks = [p[1] for p in parts[0::2]]
            if len(got) != len(toks):
                return f"rendering of {len(toks)} separator-joined tokens has {len(got)} fields: {text!r}"
            for tok, g in zip(toks, got):
                e = expected_token(tok, s, loc)
                if e is not None and g != e:
                    ref = "the CLDR ordinal category of the number with the documented suffix gives" if tok.endswith("o") else "stdlib says"
                    return f"token {tok} of {s['f']} off={s['off']} locale={loc} rendered {g!r}, {ref} {e!r}"
                if e is None and tok in ("MMMM", "MMM", "dddd", "ddd", "dd") and not g:
                    return f"token {tok} locale={loc} rendered an empty name"
            return None
        if not safe_parts([tuple(p) for p in parts]):
            return None
        exp = []
        for k, v in parts:
            if k == "tok":
                e = expected_token(v, s, loc)
                if e is None:
                    return None
                exp.append(e)
            else:
                exp.append(v)              # literal, [..] body and escaped character are emitted verbatim
        exp = "".join(exp)
        return None if text == exp else f"format({fmt_of(parts)!r}) of {s['f']} = {text!r}, expected {exp!r}"
    if fn == "helper":
        if r[0] != 0:
            return f"{a[0]}() raised {r[1]}"
        e = expected_helper(a[0], a[1])
        return None if e is None or r[1] == e else f"{a[0]}() of {a[1]['f']} {a[1]['zname']} = {r[1]!r}, expected {e!r}"
    if fn == "roundtrip":
        loc, s, parts, now, shape = a
        fmt = fmt_of(parts)
        if r[0] != 0:
            return f"from_format(dt.format({fmt!r}), {fmt!r}, locale={loc}) raised {r[-1]} (dt={s['f']} {s['zname']})"
        got = r[2:-1]
        if shape == "ts":
            tok = parts[0][1]
            want_text = expected_token(tok, s, loc)
            if r[1] != want_text:
                return f"format({tok!r}) of {s['f']} off={s['off']} rendered {r[1]!r}, the standard library says {want_text!r}"
            exp = expected_ts(s, tok)
            if exp is None:
                return None          # the instant is outside 0001..9999 in UTC: from_format has nothing to return
            if got != exp + [0]:
                return (f"parse(dt.format({tok!r}) = {r[1]!r}, {tok!r}) = {got}, expected the UTC fields {exp} of the instant and no zone "
                        f"(dt={s['f']} off={s['off']})")
            if r[-1] != exp + [0]:
                return f"from_format({r[1]!r}, {tok!r}) = {r[-1]}, expected {exp + [0]} (dt={s['f']} off={s['off']})"
            return None
        if shape == "weekday-only":
            dd = _dt.date(*got[:3])
            want = _dt.date(*s["f"][:3])
            return None if dd == want else f"parse({r[1]!r}, {fmt!r}, now={now}, locale={loc}) gave {dd}, the {want:%A} of now's week is {want}"
        exp = expected_roundtrip(s, parts, now, loc)
        if got != exp:
            return f"parse(dt.format({fmt!r}) = {r[1]!r}, locale={loc}, now={now}) = {got}, expected {exp} (dt={s['f']} off={s['off']})"
        ff = r[-1]
        if ff is not None and shape in ("full", "full12", "doy"):
            if ff != list(s["f"]) + [s["off"]]:
                return f"from_format({r[1]!r}, {fmt!r}) = {ff}, expected {list(s['f']) + [s['off']]}"
        if ff is not None and shape in ("names", "doy-date"):
            if ff[:3] != exp[:3]:
                return f"from_format({r[1]!r}, {fmt!r}, locale={loc}) date = {ff[:3]}, expected {exp[:3]}"
        return None
    if fn == "parse_doy":
        loc, text, fmt, now, (y, yd) = a
        n = 366 if calendar.isleap(y) else 365
        if 1 <= yd <= n:
            dd = _dt.date(y, 1, 1) + _dt.timedelta(days=yd - 1)
            exp = [y, dd.month, dd.day, 0, 0, 0, 0, 0]
            if r[0] != 0:
                return f"parse({text!r}, {fmt!r}, now={now}) raised {r[1]}: day {yd} of the year {y} is {dd.isoformat()} ({n} days in that year)"
            if r[1:] != exp:
                return f"parse({text!r}, {fmt!r}, now={now}) = {r[1:]}, day {yd} of the year {y} is {dd.isoformat()}: expected {exp}"
            return None
        # the year has no such day: a string that does not match the format raises ValueError
        if r[0] == 1 and len(r) > 2 and r[2] == 1:
            return None
        return f"parse({text!r}, {fmt!r}, now={now}): the year {y} has {n} days, day {yd} does not exist; expected ValueError, got {r}"
    if fn == "mismatch":
        if r[0] == 3 and r[2] == "ValueError":
            return None
        return f"a string that does not match the format did not raise ValueError: {r}"
    if fn == "session":
        ops, now = a
        if r[0] != 0 or len(r[1]) != len(ops):
            return f"the session did not run: {r}"
        st = "en"                 # every generated session starts with a set_locale that is accepted
        for i, (op, rr) in enumerate(zip(ops, r[1])):
            kind = op[0]
            why = None
            if kind == "set":
                if norm_locale(op[1]) in LOCALES:
                    st = op[1]
                    if rr != [0]:
                        why = f"set_locale({op[1]!r}) of a shipped locale gave {rr}"
                elif rr != [1, "ValueError"]:
                    why = f"set_locale({op[1]!r}) of a name that is not shipped gave {rr}, expected ValueError"
            elif kind == "get":
                if rr != [0, st]:
                    why = f"get_locale() = {rr}, the last accepted set_locale was {st!r}"
            elif kind in ("fmt", "rt"):
                eff = norm_locale(op[1] or st)
                if eff not in LOCALES:
                    continue
                sub = {"fn": "format", "args": [eff, op[2], op[3]]} if kind == "fmt" else {"fn": "roundtrip", "args": [eff, op[2], op[3], now, op[4]]}
                why = oracle(sub, backend, rr)
                if why is not None:
                    why += f" [locale argument {op[1]!r}, default locale {st!r}]"
            if why is not None:
                hist = ", ".join(f"set_locale({o[1]!r})" if o[0] == "set" else o[0] + ("" if len(o) < 2 or o[0] == "get" else f"(locale={o[1]!r})") for o in ops[:i])
                return f"operation {i} of the history [{hist}]: {why}"
        return None
    return None


def known(c, backend, r):
    fn, a = c["fn"], c["args"]
    if fn == "format":
        loc, s, parts = a
        toks = [v for k, v in parts if k == "tok"]
        if loc == "nl" and any(t in NEEDS_WEEK_DATA for t in toks) and r[0] == 1 and r[1] == "TypeError":
            return "nl-week-data"
    if fn == "roundtrip":
        loc, s, parts, now, shape = a
        toks = [v for k, v in parts if k == "tok"]
        if r[0] == 3 and r[2] == "ValueError" and any(k == "esc" for k, v in parts):
            return "from-format-backslash-escape"
        if r[0] == 3 and any(k == "br" and any(ch in TOKEN_LETTERS for ch in v[:-1]) for k, v in parts):
            return "from-format-escape-unprotected"
        # finding do-token-no-ordinal-table: Formatter._LOCALIZABLE_TOKENS["Do"] builds its pattern from locale.get("custom.ordinal").values();
        # the 14 locales without that table give None.values() -> AttributeError for every text (format() renders the bare day number there)
        if "Do" in toks and loc in NO_ORDINAL_TABLE and r[0] == 3 and r[2] == "AttributeError":
            return "do-token-no-ordinal-table"
        # finding do-token-it-many-unmatched: it has only {"other": "°"}; its CLDR rule puts 8 and 11 (80, 800) in category "many", which
        # ordinalize() renders bare ("8", "11") while the Do pattern demands \d+° — the rendered text does not match its own format
        if "Do" in toks and loc == "it" and s["f"][2] in (8, 11) and r[0] == 3 and r[2] == "ValueError" and ordinal_of("it", s["f"][2]) == str(s["f"][2]):
            return "do-token-it-many-unmatched"
        if loc == "tr" and parts[-1] == ["tok", "dddd"] and _dt.date(*s["f"][:3]).weekday() == 5 and r[0] == 0:
            return "tr-cumartesi-prefix"
        # finding x-negative-fraction: the millisecond timestamp of an instant before the epoch that has a millisecond part comes back with
        # the microseconds of the ABSOLUTE value's fraction (1000 - ms instead of ms); the second is right
        if shape == "ts" and parts == [["tok", "x"]] and r[0] == 0:
            ms = s["f"][6] // 1000
            exp = expected_ts(s, "x")
            if exp is not None and ms != 0 and expected_token("X", s).startswith("-") and r[2:-1] == exp[:6] + [(1000 - ms) * 1000, 0]:
                return "x-negative-fraction"
        # finding rs-ordinal-month-end (status fixed: a reproduction is reported as a VIOLATION by the runner)
        if backend == "rs" and any(t in toks for t in ("DDDD", "DDD")) and s["f"][2] == calendar.monthrange(s["f"][0], s["f"][1])[1] \
                and r[0] == 3 and r[2] == "ParserError":
            return "rs-ordinal-month-end"
    return None


LEVEL_TEXT = ("Machine-checked Coq theorems about an executable model of Formatter.format/parse whose tables are regenerated from /repo on every run: "
              "decimal rendering/parsing round trip, one theorem per numeric token (rendered text = padded decimal of the stdlib quantity, all years), "
              "localized names by table in all 27 locales (total, injective), verbatim escapes, the composition of every named format. from_format INVERTS format, with no "
              "hypothesis about the regex, for every DateTime of the years 1000..9999 with a whole-minute offset and 'YYYY-MM-DD HH:mm:ss.SSSSSS Z|ZZ' "
              "(from_format_inverts_format: tokenisation, pattern assembly, matching, _get_parsed_value, offset arithmetic, _check_parsed; the matching step is discharged by "
              "Proofs/MreShape.v — the anchored search and the re.sub pass return the same spans on inputs the pattern's character tests cannot tell apart, "
              "from_format_search_shape_invariant / from_format_matches_by_representative — plus one kernel computation per text shape, from_format_matching_step); "
              "for localized month names 'YYYY MMMM DD' / 'YYYY MMM DD' in every shipped locale, every month and year (from_format_inverts_localized_month_names_partial / "
              "_month_abbr_partial; excluded: ja, ko — and zh for MMM — whose names contain digits, covered by correspondence); for localized weekday names in all 27 locales and "
              "every valid date: 'dddd YYYY-MM-DD', 'ddd YYYY-MM-DD', 'YYYY-MM-DD ddd' without exception and 'YYYY-MM-DD dddd' except exactly tr/Saturday "
              "(from_format_inverts_localized_weekday_names, _weekday_name_last, from_format_tr_saturday_is_the_only_exception = finding tr-cumartesi-prefix); for the named formats "
              "in locale en: atom / w3c to the second, rfc1123 / rfc2822 / rss for every DateTime, rfc822 / rfc1036 exactly inside the two-digit-year window 1969..2068 "
              "(outside it refuted with the value that comes back), cookie / rfc850 rejected on every text (token zz is not supported by from_format). Fields absent from the format "
              "are filled from `now` (from_format_*_fills_* theorems), a non-matching string raises ValueError (from_format_mismatch_raises). The day-of-year step (DDDD/DDD through "
              "pendulum.parse('YYYY-DDD')) equals the calendar in both parser backends, so the model of from_format is backend-independent (from_format_backend_independent); it inverts the "
              "rendered day of the year for every valid date of every year — month ends, day 365 and day 366 of leap years included — and refuses exactly the days the year does not have "
              "(from_format_day_of_year_step_inverts_format, _rejects_missing_day, from_format_day_366, from_format_inverts_year_and_day_of_year, from_format_day_of_year_fills_year_from_now, "
              "from_format_rejects_missing_day_of_year), and the compiled step is the translated Parser::ordinal_to_ymd (model_is_code_rs_day_of_year_step). "
              "Timestamp tokens X/x: rendered count read back, local_time of either backend = the calendar for every second of the years 1..9999, hence from_format inverts format for X "
              "and — at or after the epoch or on whole seconds — for x; before the epoch x is refuted with its exact wrong value (finding x-negative-fraction); the whole path computed in "
              "the kernel on 31 structurally special instants x 2 tokens x 2 backends. A state machine for the process-wide default locale (failed_set_keeps_configuration, "
              "result_independent_of_history, explicit_locale_independent_of_configuration, session_roundtrip_is_the_stateless_roundtrip). Plus a three-way correspondence "
              "(implementation in both backends / model / stdlib oracle) over every token, 27 locales, random token sequences and round trips.")
DESIGN_REF = "DESIGN.md section 4 C08"
LEVEL_NOTE = ("Trusted: Coq kernel+VM, the generators, the hand-written control flow of the model (fingerprinted + validated by correspondence), the model of CPython's re "
              "for the constructs used. from_format_inverts_format_partial (matching step as a hypothesis) is kept beside the unconditional from_format_inverts_format. "
              "Correspondence/oracle only (no universal theorem): round trips of other full-date layouts (separators, token order, 12-hour + A, fraction widths below 6, DDDD, the z token with "
              "zone names), month names of ja/ko(/zh) and every format with the ordinal day token Do — where the model and the implementation agree that from_format FAILS: AttributeError in "
              "the 14 locales without a custom ordinal table (finding do-token-no-ordinal-table) and ValueError for it on the 8th/11th (finding do-token-it-many-unmatched); "
              "the bracket / backslash escape findings. Inside the Coq model (dispatch entries compared with the implementation): X/x of from_format with local_time per backend "
              "(fmt_roundtrip / fmt_parse), the day-of-year streams roundtrip-doy / parse-doy (same entries; Proofs/C08Doy.v ties doy_to_md_rs to Gen/RustParsingDatesGen.v), "
              "whole histories of set_locale / format / parse (fmt_session). Oracle only: the corrupted strings of the nonmatching stream, "
              "pendulum.from_format's own result inside round trips and sessions (its parts come from the modelled Formatter.parse).")
TECHNIQUE = ("Coq proof (induction on digit lists, lia, vm_compute on generated tables, regex shape invariance + one kernel computation per text shape and per locale table entry) "
             "over translated tables + differential correspondence + stdlib oracle")


# the format-side method bodies are translated from /repo on every run and the hand model is PROVED equal to them
TRUSTED = list(TRUSTED) + [
    "tools/vlib/pyfloat2gallina.py + tools/vlib/gens/g57_formatter_methods.py (Formatter._format_localizable_token, _format_token, one unfolding of Formatter.format, DateTime._to_string, "
    "to_iso8601_string translated from /repo on every run; reading rules in the generator's docstring: strings = code-point lists, token in <table> = membership in the GENERATED tables, "
    "locale.get(<static key>) = the field of the generated locale record, <table>[i] = tbl_get, self._TOKENS_RULES[token](dt) = apply_rule on the generated rule, f\"{n:02d}\" = render_0wd 2, "
    "dt.<quantity> = the field of fq_of dt, dt.utcoffset() = t_off seconds, _FORMAT_RE.sub(callback) = the model's tokenizer + render_pieces (recognised shape, fails closed otherwise), the "
    "recursive self.format as a parameter) and coq/Model/FormatterPrims.v: they replace the former trust in the hand CONTROL FLOW of Model/Formatter.v (format_localizable, format_token, "
    "format_offset's integer reading of the float code, to_string, the iso8601 helper), now PROVED equal to the translation: model_is_code_format_localizable_token, model_is_code_format_token, "
    "model_is_code_format, model_is_code_to_string_helpers, offset_float_code_is_integer_arithmetic (closed under the global context; the offset float code by exhaustive kernel evaluation "
    "over every utcoffset strictly between -24 h and +24 h)",
]
LEVEL_NOTE = LEVEL_NOTE + (" Model = code (format side): coq/Gen/FormatterMethods.v is translated from formatter.py / datetime.py on every run and Proofs/FormatterMethodsFacts.v proves it equal to "
                           "Model/Formatter.v for every DateTime record, token and locale (utcoffset within +-24 h for the Z / ZZ float code), so a semantic edit of a method body breaks a proof or "
                           "fails closed (self-tested by mutation). Still hand + pinned (hand_modelled_sources_unchanged): the tokenizer (tokenize / bracket_body: the reading of _FORMAT_RE over the "
                           "generated alternatives), apply_rule / render_dec (the reading of the f-string lambdas of _TOKENS_RULES), Locale.ordinalize, Locale.load / find_locale, isoformat_T, the "
                           "interpretation string_helper of the generated to_*_string table, and the whole parse side (Model/FormatterParse.v: _get_parsed_values, _check_parsed, pattern assembly).")


# the parse-side method bodies are translated from /repo on every run and the hand models are PROVED equal to the translation
TRUSTED = list(TRUSTED) + [
    "tools/vlib/pyfloat2gallina.py + tools/vlib/gens/g73_formatter_parse.py (reading rules in its docstring: the dict `parsed` = the record threaded as a state, parsed[<static key>] = e = the setter, "
    "self._PARSE_TOKENS[token](value) = apply_parse_token over the generated table, a parsed value in integer arithmetic = pv_int, \"c\" in s = contains, s.startswith / s[a:b] / len(s) == n / "
    "a, b = s.split(\":\") / int(s) = starts_with / firstn-skipn / length / split2_colon / int_of_str, pendulum.timezone(x) = TzFixed / TzNamed, value not in pendulum.timezones() = the zones parameter, "
    "locale.match_translation(<static key>, value) = match_translation on that table, the loop over m.re.groupindex = the fold over the group names with m.group(index) = group_of, Formatter.parse = the "
    "recognised statement list, failing closed on any other) and coq/Model/FormatterParsePrims.v: they replace the former trust in the hand CONTROL FLOW of get_parsed_value, get_parsed_locale_value "
    "(except its a / A branch = the primitive parse_meridiem, not translated), get_parsed_values / fold_matches and parse of coq/Model/FormatterParse.v, now PROVED equal to the translation for every "
    "token, text, state, locale and format: model_is_code_get_parsed_value, model_is_code_get_parsed_locale_value, model_is_code_get_parsed_values, model_is_code_from_format_parse (closed under the "
    "global context). Still hand-written + pinned by fingerprint (hand_modelled_sources_unchanged): the regex engine (mre, search_anchored, sub_matches), re_escape, the tokenisation of the escaped "
    "format (ff_tokenize), _replace_tokens (replace_token / assemble / pattern_re), _check_parsed (check_parsed: quarter, day of year, day of week, meridiem, defaults, timestamp), the a / A branch, "
    "Locale.match_translation, ts_of_text (the float code of X / x) and pendulum.from_format's three lines (tz default, datetime(**parts))",
]
LEVEL_NOTE = LEVEL_NOTE + (" Model = code (parse side): coq/Gen/FormatterParseMethods.v is translated on every run and Proofs/FormatterParseMethodsFacts.v proves get_parsed_value (whole elif chain: YY pivot, "
                           "hh > 12, Z / ZZ offset text, z, X / x), get_parsed_locale_value (except a / A), get_parsed_values and parse's statement list equal to it (self-tested by 20 mutations: offset sign, "
                           "pivot 68 / 69, elif order, wrong key, missing re.escape ...). _check_parsed (incl. the meridiem arithmetic), _replace_tokens, the regex engine and the tokenisation stay hand + pinned.")


# _check_parsed and the a / A branch are translated too (supersedes the "still hand-written" remarks about them in the two entries above)
TRUSTED = list(TRUSTED) + [
    "tools/vlib/gens/g73_formatter_parse.py class CheckTr + coq/Model/FormatterParsePrims.v (Formatter._check_parsed translated WHOLE on every run; reading rules in the class docstring: the dict "
    "`validated` = eight variables, parsed[k] = the option field of the record, `x is None` tests = matches, `if x is None: x = ..` = a match expression, the for loop over literals unrolled, "
    "`a or b` on (optional) ints = or_else / or_z, the 4-tuple and `t >= (13, 0, 0, 0)` = tuple_ge, parsed[\"meridiem\"] == \"pm\" = the boolean of the record; named primitives: mk_date "
    "(pendulum.datetime), jan1 / jan1_of_now (start_of(\"year\")), quarter_loop (the while loop, three additions deep; running out: outside the fragment), parse_ordinal "
    "(pendulum.parse(f\"{year}-{doy:>03d}\") through the ISO ordinal parser model of the backend), week_eve / next_weekday (start_of(\"week\").subtract(days=1) / next(dow), range checks at next: "
    "the model's reading, off for the first days of year 1), ts_has_point / ts_frac_us / ts_local_time (str() of the timestamp float and helpers.local_time of the backend); and the a / A branch of "
    "_get_parsed_locale_value: need_strs, py_lower (ASCII), lower_all, index_of, nth_str): check_parsed of coq/Model/FormatterParse.v and the a / A branch of get_parsed_locale_value are PROVED "
    "equal to the translation for every parsed record, now, backend flag, locale, token and text: model_is_code_check_parsed, model_is_code_parse_meridiem (closed under the global context); "
    "model_is_code_from_format_parse now ends in the translated _check_parsed",
]
LEVEL_NOTE = LEVEL_NOTE + (" _check_parsed (timestamp-first path, quarter, defaults from now, day of year, day of week, meridiem %= 12 / += 12 / tuple test, zero defaults) and the a / A branch are now "
                           "translated and proved equal to the model as well (self-tested by 29 mutations incl. 'A pm adding 12 to 12'; one equivalent mutant: dropping the explicit membership test before "
                           "list.index, which raises the same ValueError). Remaining hand + pinned on the parse side: _replace_tokens, the regex engine, the tokenisation, re.escape, match_translation, ts_of_text.")
