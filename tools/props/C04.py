"""C04 — calendar-unit arithmetic follows the wall clock with end-of-month clamping."""
from __future__ import annotations

import calendar
import datetime as _dt
import math
import random

from vlib import tzcases as T
from vlib import zones

ID = "C04"
PROPS = "Props/C04.v"
RULE = ("enumerated month stream: starts on day 1/28/29/30/31 of every month of a leap, a common and a century year x month amounts "
        "{0,+-1,+-2,+-11,+-12,+-13,+-23,+-24,+-25} x year amounts {0,+-1,+-4} through add/subtract/+/- on Date, naive and aware DateTime; year-boundary stream "
        "(years 1 and 9999, results that leave 1..9999); dst-target stream: for each chosen zone (quick 60 incl. the odd ones, thorough all) and each chosen gap/overlap, "
        "a start that is a whole number of days/weeks/months before or after a wall probe inside/around the gap/overlap, so that the calendar result lands there "
        "(add, subtract, + Duration, - Duration, + (-d), subtract(components)); random integer tuples (years, months up to 1e4, weeks, days up to 1e5, h, m, s, us, either sign) "
        "over Date / naive / fixed-offset / named zones; Interval operands (+, -, + (-iv), subtract(components of iv)) and plain-timedelta operands; the inputs of the two repaired "
        "findings (dt - Duration with days/weeks across an offset change, dt - Interval with years/months) as ordinary cases; cancelling-units stream: calendar-unit arguments that CANCEL each other "
        "(weeks=k, days=-7k; years=k, months=-12k; both; days=k, hours=-24k; non-cancelling controls) combined with time units (either sign, mixed signs, sub-second) whose wall-clock target lies "
        "just past / inside / before a real gap or overlap (7 fixed zones incl. 30- and 45-minute offsets + 30 picked, 4 transitions each, 5 of 12 targets; quick ~1200 cases, thorough all zones x 10 transitions x 12), "
        "through add / subtract / + Duration (constructor signature) / - Duration / + (-d) / subtract(components), plus the same tuples on naive, UTC, fixed-offset and Date values at month ends "
        "(Feb 29, years 1 and 9999); inside the Coq model (dt_add with separate weeks and days; theorems add_cancelling_units_wall_clock, add_calendar_depends_on_totals). "
        "non-trivial = distinct (entry, zone, start, amounts).")
EXHAUSTIVE = {"quick": False, "thorough": False}
TRUSTED = ["zoneinfo.ZoneInfo and the tzdata tables (specification side of the normalisation oracle, as in C02); calendar.monthrange and naive datetime + timedelta (specification side of the month step and shift)",
           "Interval operands are described to the model by the values of their accessors (years .. microseconds, _total) computed by a stdlib re-implementation in the harness and "
           "checked against the real object on every case; how an Interval gets its components is C05/C06",
           "Model/Duration.v (C09) is the model of Duration.__new__ used for Duration operands; Spec/TdFloat.v for the float seconds of the operator paths"]
ASSUMPTIONS = ["zone windows: the table between 3 days before the earliest and 3 days after the latest wall value a call can look up (start, wall-clock target, elapsed-time target)",
               "operator streams keep the Duration inside the region where its float normalisation is exact (|total| < 2^32 s or whole seconds); outside it the deviation is C09's finding, "
               "a separate float-region stream still checks model = implementation there"]

MEG = T.MEG
US_DAY = T.US_DAY
TWO32 = 2 ** 32 * MEG


# ----------------------------------------------------------------------------- float wire format (Spec/TdFloat.v sf_code)
def fcode(x):
    x = float(x)
    if x != x:
        return [6, 0, 0]
    if x == math.inf:
        return [4, 0, 0]
    if x == -math.inf:
        return [5, 0, 0]
    if x == 0:
        return [1, 0, 0] if math.copysign(1.0, x) < 0 else [0, 0, 0]
    m, e = math.frexp(abs(x))
    m = int(m * 2 ** 53)
    e -= 53
    if e < -1074:
        m >>= (-1074 - e)
        e = -1074
    return [3 if x < 0 else 2, m, e]


# ----------------------------------------------------------------------------- stdlib reference arithmetic (the property)
def td_us(wk, d, h, m, s, us):
    return ((((d + 7 * wk) * 24 + h) * 60 + m) * 60 + s) * MEG + us


def ref_cal(W, y, mo, T_us, is_date=False):
    """Wall value after shifting years/months with end-of-month clamping and then T_us microseconds on the calendar.
    ("ok", W') | ("exn", name).  stdlib only: months-since-epoch, calendar.monthrange, naive datetime + timedelta."""
    Y, M, D, hh, mi, ss, u = T.fields_of(W)
    t = Y * 12 + (M - 1) + 12 * y + mo
    y2, m2 = t // 12, t % 12 + 1
    if not 1 <= y2 <= 9999:
        return ("exn", "ValueError")
    d2 = min(calendar.monthrange(y2, m2)[1], D)
    try:
        if is_date:
            res = _dt.date(y2, m2, d2) + _dt.timedelta(microseconds=T_us)
        else:
            res = _dt.datetime(y2, m2, d2, hh, mi, ss, u) + _dt.timedelta(microseconds=T_us)
    except OverflowError:
        return ("exn", "OverflowError")
    return ("ok", T.wall_of(res))


def ref_norm(spec, W):
    """C02 normalisation oracle with the default fold 1 (later instant of a repeated time, post-transition side of a skipped one):
    (wall, fold or None, offset) | str (oracle failure)."""
    if spec is None:
        return (W, None, 0)
    if isinstance(spec, int):
        return (W, None, spec)
    tz = T.ref_zone(spec)
    w = W // MEG
    sols = T.solutions(tz, w)
    if len(sols) == 1:
        return (W, None, sols[0][1])
    if len(sols) == 2:
        return (W, 1, sols[1][1])
    if len(sols) == 0:
        g = T.gap_around(tz, w)
        if g is None:
            return f"oracle could not locate the gap around wall second {w}"
        tt, o_pre, o_post = g
        return (W + (o_post - o_pre) * MEG, None, o_post)
    return f"oracle found {len(sols)} instants"


def ref_elapsed(spec, W, f, T_us):
    """Elapsed-time shift through UTC: ("ok", (wall, fold, off)) | ("exn", name)."""
    if spec is None:
        W2 = W + T_us
        if not 0 <= W2 <= T.MAX_WALL or abs(T_us) // US_DAY > 999999999:
            return ("exn", "OverflowError")
        return ("ok", (W2, None, 0))
    tz = T.ref_zone(spec)
    n = T.native(W, f, tz)
    try:
        u = n.astimezone(_dt.timezone.utc) + _dt.timedelta(microseconds=T_us)
        l = u.astimezone(tz)
    except OverflowError:
        return ("exn", "OverflowError")
    return ("ok", (T.wall_of(l), l.fold, T.off_s(l)))


def ref_add(spec, W, f, a):
    """DateTime.add(**a) as the property states it: calendar units present (or naive) -> wall clock + C02 normalisation; else elapsed time."""
    y, mo, wk, d, h, m, s, us = a
    if spec is None or y or mo or wk or d:
        r = ref_cal(W, y, mo, td_us(wk, d, h, m, s, us))
        if r[0] == "exn":
            return r
        n = ref_norm(spec, r[1])
        if isinstance(n, str):
            return ("fail", n)
        return ("ok", n)
    return ref_elapsed(spec, W, f, td_us(0, 0, h, m, s, us))


def neg_components(a):
    """The add() arguments of dt + (-d) / dt.subtract(**components of d) for Duration(**a), by exact integer arithmetic:
    years, months kept; the rest is sign-magnitude split into weeks, days, seconds, microseconds."""
    y, mo, wk, d, h, m, s, us = a
    rest = td_us(wk, d, h, m, s, us)
    sg = -1 if rest < 0 else 1
    secs, micro = divmod(abs(rest), MEG)
    days, secs = divmod(secs, 86400)
    return [-y, -mo, -(days // 7) * sg, -(days % 7) * sg, 0, 0, -secs * sg, -micro * sg]


def pdiff_utc(Wa, Wb):
    """helpers.precise_diff for two datetimes with the same (zero) offset, re-implemented on the stdlib:
    (years, months, days, hours, minutes, seconds, microseconds), signed."""
    if Wa == Wb:
        return (0,) * 7
    sign = 1
    if Wa > Wb:
        Wa, Wb, sign = Wb, Wa, -1
    y1, m1, d1, h1, i1, s1, u1 = T.fields_of(Wa)
    y2, m2, d2, h2, i2, s2, u2 = T.fields_of(Wb)
    dd, hh, mi, ss, us = 0, h2 - h1, i2 - i1, s2 - s1, u2 - u1
    if us < 0:
        us += 1000000; ss -= 1
    if ss < 0:
        ss += 60; mi -= 1
    if mi < 0:
        mi += 60; hh -= 1
    if hh < 0:
        hh += 24; dd -= 1
    yy, mm = y2 - y1, m2 - m1
    dd += d2 - d1
    if dd < 0:
        year, month = (y2 - 1, 12) if m2 == 1 else (y2, m2 - 1)
        dlm = calendar.monthrange(year, month)[1]
        dim = calendar.monthrange(y2, m2)[1]
        if dd < dim - dlm:
            dd += d1 if dlm < d1 else dlm
        elif dd == dim - dlm and d1 == dlm:
            dd = 0
            mm += 1
        else:
            dd += dlm
        mm -= 1
    if mm < 0:
        mm += 12
        yy -= 1
    return tuple(sign * v for v in (yy, mm, dd, hh, mi, ss, us))


def iv_components(Wa, Wb):
    """Accessor values of the Interval  b - a  (both UTC, |b - a| < 2^32 s): years, months, weeks, remaining_days, hours, minutes,
    remaining_seconds, microseconds, and _total (float)."""
    yy, mm, dd, hh, mi, _ss, _us = pdiff_utc(Wa, Wb)
    N = Wb - Wa
    sg = -1 if N < 0 else 1
    secs, micro = divmod(abs(N), MEG)
    days, secs = divmod(secs, 86400)
    sd = -1 if dd < 0 else 1
    sdays = -1 if days * sg < 0 else 1
    total = _dt.timedelta(microseconds=N).total_seconds()
    return [yy, mm, abs(dd) // 7 * sd, abs(dd) % 7 * sdays, hh, mi, secs % 60 * sg, micro * sg], total


# ----------------------------------------------------------------------------- cases
def _valid_start(spec, W, f):
    """The wall value exists in the zone (not inside a gap) and is well inside the supported range."""
    if not (US_DAY * 3 < W < T.MAX_WALL - US_DAY * 3):
        return False
    if spec is None or isinstance(spec, int):
        return True
    tz = T.ref_zone(spec)
    n = T.native(W, f, tz)
    back = n.astimezone(_dt.timezone.utc).astimezone(tz)
    return T.wall_of(back) == W


def _targets(c):
    """Wall values near which the call may look up zone offsets (for the model's zone window), or None when out of range."""
    fn, a = c["fn"], c["args"]
    spec, W, f = a[0], a[1], a[2]
    out = [W]
    sh = []
    if fn in ("add", "subtract"):
        y, mo, wk, d, h, m, s, us = a[3] if fn == "add" else [-v for v in a[3]]
        sh.append((y, mo, td_us(wk, d, h, m, s, us)))
    else:
        op = a[3]
        sg = 1 if fn == "plus" else -1
        if op[0] == "td":
            sh.append((0, 0, sg * op[1]))
        elif op[0] == "dur":
            y, mo, wk, d, h, m, s, us = op[1]
            sh.append((sg * y, sg * mo, sg * td_us(wk, d, h, m, s, us)))
        else:
            comps, total = iv_components(op[1], op[2])
            y, mo, wk, d, h, m, s, us = comps
            sh.append((sg * y, sg * mo, sg * td_us(wk, d, h, m, s, us)))
            sh.append((sg * y, sg * mo, sg * (op[2] - op[1])))
            sh.append((0, 0, sg * (op[2] - op[1])))
    for (y, mo, t) in sh:
        r = ref_cal(W, y, mo, t)
        if r[0] == "ok":
            out.append(r[1])
        r = ref_cal(W, 0, 0, t)
        if r[0] == "ok":
            out.append(r[1])
    return out


def _aware_ok(c):
    """Aware cases whose in-range targets come within 3 days of the supported range are dropped (zoneinfo itself overflows there)."""
    if c["args"][0] is None:
        return True
    return all(US_DAY * 3 < w < T.MAX_WALL - US_DAY * 3 for w in _targets(c))


ENTRY_CYCLE = ["add", "subtract", "plus", "minus", "plus_neg", "sub_comp"]


def _mk(stream, entry, spec, W, f, a):
    """One DateTime case for Duration-like amounts `a` (the amounts ADDED; the subtracting entries receive the negation)."""
    na = [-v for v in a]
    if entry == "add":
        return {"stream": stream, "fn": "add", "args": [spec, W, f, list(a)]}
    if entry == "subtract":
        return {"stream": stream, "fn": "subtract", "args": [spec, W, f, na]}
    if entry == "plus":
        return {"stream": stream, "fn": "plus", "args": [spec, W, f, ["dur", list(a)]]}
    return {"stream": stream, "fn": entry, "args": [spec, W, f, ["dur", na]]}      # minus / plus_neg / sub_comp of Duration(-a)


def _mk_date(stream, entry, W, a):
    a4 = list(a[:4])
    na = [-v for v in a4]
    W = W // US_DAY * US_DAY
    if entry == "add":
        return {"stream": stream, "fn": "date_add", "args": [W, a4]}
    if entry == "subtract":
        return {"stream": stream, "fn": "date_subtract", "args": [W, na]}
    if entry == "plus":
        return {"stream": stream, "fn": "date_plus", "args": [W, ["dur", a4 + [0, 0, 0, 0]]]}
    return {"stream": stream, "fn": "date_minus", "args": [W, ["dur", na + [0, 0, 0, 0]]]}


def _float_exact(a):
    y, mo, wk, d, h, m, s, us = a
    rest = td_us(wk, d, h, m, s, us)
    full = rest + (y * 365 + mo * 30) * US_DAY
    return (rest % MEG == 0) or (abs(full) < TWO32 and abs(rest) < TWO32)


# ----------------------------------------------------------------------------- calendar-unit arguments that CANCEL each other
# (years, months, weeks, days, extra hours): every tuple names a calendar unit (so the call is a wall-clock call) although the folded amount is zero:
# weeks vs days, years vs months (= -12k), both, and calendar units cancelled by TIME units (days=1, hours=-24: total shift zero);
# the last rows are controls that do not cancel.
CANCEL = [(0, 0, 1, -7, 0), (0, 0, -1, 7, 0), (0, 0, 2, -14, 0), (0, 0, -3, 21, 0), (0, 0, 52, -364, 0), (0, 0, -1000, 7000, 0),
          (1, -12, 0, 0, 0), (-1, 12, 0, 0, 0), (2, -24, 0, 0, 0), (-3, 36, 0, 0, 0), (1, -12, 1, -7, 0), (-2, 24, -2, 14, 0), (1, -12, -1, 7, 0),
          (0, 0, 0, 1, -24), (0, 0, 0, -2, 48), (0, 0, 1, 0, -168), (0, 0, -1, 0, 168), (1, -12, 0, 1, -24), (0, 0, 1, -6, -24), (1, -11, 0, -31, 0),
          (0, 0, 1, -6, 0), (0, 0, -1, 8, 0), (1, -11, 0, 0, 0), (0, 0, 0, 0, 0)]
# time units (h, m, s, us) moved across the offset change: longer than most gaps/overlaps, mixed signs inside one tuple, sub-second
CANCEL_TIMES = [(2, 0, 0, 0), (-2, 0, 0, 0), (3, 15, 0, 0), (-3, -15, 0, 0), (0, 90, 0, 0), (0, -90, 0, 0), (26, 0, 0, 0), (-26, 0, 0, 0),
                (0, 0, 5400, 1), (0, 0, -5400, -1), (1, -30, 0, 0), (-1, 30, 0, 0), (0, 0, 45, 0), (0, 0, -45, 0), (0, 0, 0, 7200 * MEG + 1), (0, 0, 0, -7200 * MEG - 1),
                (4, 0, -1, 999999), (-4, 0, 1, -999999), (0, 0, 0, 0)]
CANCEL_ZONES = ["Europe/Paris", "America/New_York", "Australia/Lord_Howe", "America/St_Johns", "Asia/Kathmandu", "Pacific/Apia", "Africa/Casablanca"]
CANCEL_ENTRIES = ["add", "subtract", "plus", "add", "subtract", "minus", "add", "plus_neg", "subtract", "sub_comp", "plus"]


def _cancel_cases(rnd, quick, zs, seed):
    """Starts placed so that the wall-clock target of the TIME units lies on the other side of (or inside) a gap / overlap while the calendar
    units cancel: there the wall-clock result and the elapsed-time result differ by the offset change."""
    out = []
    stream = "cancelling-units"
    k = seed
    # literals: one hour and a half before the Paris gap / overlap of 2013, New York 2021, Lord Howe (30 minutes) 2022
    lits = [("Europe/Paris", (2013, 3, 31, 1, 30), [0, 0, 1, -7, 2, 0, 0, 0]), ("Europe/Paris", (2013, 3, 31, 1, 30), [0, 0, -1, 7, 3, 15, 0, 0]),
            ("Europe/Paris", (2013, 10, 27, 1, 30), [0, 0, 2, -14, 2, 0, 0, 0]), ("America/New_York", (2021, 3, 14, 0, 30), [0, 0, -3, 21, 5, 0, 0, 0]),
            ("America/New_York", (2021, 11, 7, 4, 0), [0, 0, 1, -7, -4, 0, 0, 0]), ("Australia/Lord_Howe", (2022, 10, 2, 1, 0), [0, 0, 1, -7, 3, 0, 5, 0]),
            ("Europe/Paris", (2013, 3, 31, 1, 30), [1, -12, 0, 0, 2, 0, 0, 0]), ("Europe/Paris", (2013, 3, 31, 1, 30), [0, 0, 0, 1, -22, 0, 0, 0]),
            ("Europe/Paris", (2013, 3, 31, 4, 30), [-1, 12, -1, 7, -2, 0, 0, 0]), ("Europe/Paris", (2013, 3, 30, 1, 30), [0, 0, 1, -6, 2, 0, 0, 0])]
    for (name, st, a) in lits:
        W0 = T.wall_of(_dt.datetime(*st))
        for entry in ENTRY_CYCLE:
            out.append(_mk(stream, entry, name, W0, 0, a))
    names = [n for n in CANCEL_ZONES if n in set(zones.names())]
    names += [n for n in zs if n not in names][: (30 if quick else len(zs))]
    for name in names:
        trs = T.transition_probes(name, rnd, per_zone=(4 if quick else 10))
        for (tt, o_pre, o_post) in trs:
            a0 = (tt + T.EPOCH_S + min(o_pre, o_post)) * MEG
            b0 = (tt + T.EPOCH_S + max(o_pre, o_post)) * MEG
            # wall targets of the whole call: just past the region (both results exist and differ by the offset change), inside it, well past it,
            # and before it (control when the start is on the same side)
            tg = [b0, b0 + 1, b0 + MEG, b0 + 1800 * MEG, b0 + 3600 * MEG + 7, (a0 + b0) // 2, a0, a0 - 1, a0 - MEG, a0 - 1800 * MEG, a0 - 3600 * MEG - 7, b0 - 1]
            if quick:
                tg = [tg[(k + i * 5) % len(tg)] for i in range(5)]
            for Wt in tg:
                k += 1
                y, mo, wk, d, xh = CANCEL[k % len(CANCEL)]
                h, m, s, us = CANCEL_TIMES[(k // 2) % len(CANCEL_TIMES)]
                a = [y, mo, wk, d, h + xh, m, s, us]
                tot = td_us(wk, d, h + xh, m, s, us)
                back = ref_cal(Wt, -y, -mo, -tot)
                if back[0] != "ok":
                    continue
                W0 = back[1]
                if ref_cal(W0, y, mo, tot) != ("ok", Wt):
                    continue
                f = (k // 3) % 2
                if not _valid_start(name, W0, f):
                    continue
                entry = CANCEL_ENTRIES[(k // 5) % len(CANCEL_ENTRIES)]
                if entry not in ("add", "subtract") and not _float_exact(a):
                    entry = "add"
                c = _mk(stream, entry, name, W0, f, a)
                if _aware_ok(c):
                    out.append(c)
    # the same tuples on values without offset changes (naive, UTC, fixed offset, Date): every month end incl. Feb 29 (years vs months must not clamp)
    for (Y, M, D) in [(2024, 2, 29), (2023, 1, 31), (2023, 12, 31), (2100, 2, 28), (2000, 2, 29), (1, 1, 1), (9999, 12, 31), (2024, 3, 31)]:
        W0 = T.wall_of(_dt.datetime(Y, M, D, 22, 30, 15, 250000))
        for i, (y, mo, wk, d, xh) in enumerate(CANCEL):
            k += 1
            h, m, s, us = CANCEL_TIMES[k % len(CANCEL_TIMES)]
            a = [y, mo, wk, d, h + xh, m, s, us]
            entry = ENTRY_CYCLE[k % len(ENTRY_CYCLE)]
            kind = (None, "UTC", "date", 19800, -12600)[k % 5]
            if kind == "date":
                out.append(_mk_date(stream, entry if entry in ("add", "subtract", "plus", "minus") else "add", W0, [y, mo, wk, d]))
                continue
            if Y in (1, 9999) and kind is not None:
                kind = None
            if entry not in ("add", "subtract") and not _float_exact(a):
                entry = "add"
            out.append(_mk(stream, entry, kind, W0, 0, a))
    return out


def cases(tier, seed):
    rnd = random.Random(seed)
    out = []
    quick = tier != "thorough"
    k = 0
    # ---- the inputs of the two repaired findings (sub-duration-elapsed, sub-interval-double-count): ordinary cases, they must pass the oracle
    paris = T.wall_of(_dt.datetime(2013, 3, 31, 12, 0, 0))
    out.append({"stream": "witness", "fn": "minus", "args": ["Europe/Paris", paris, 0, ["dur", [0, 0, 0, 1, 0, 0, 0, 0]]]})
    out.append({"stream": "witness", "fn": "plus_neg", "args": ["Europe/Paris", paris, 0, ["dur", [0, 0, 0, 1, 0, 0, 0, 0]]]})
    out.append({"stream": "witness", "fn": "sub_comp", "args": ["Europe/Paris", paris, 0, ["dur", [0, 0, 0, 1, 0, 0, 0, 0]]]})
    wa, wb = T.wall_of(_dt.datetime(2020, 1, 1)), T.wall_of(_dt.datetime(2021, 3, 5, 6, 0, 0))
    out.append({"stream": "witness", "fn": "minus", "args": ["UTC", wb, 0, ["iv", wa, wb]]})
    out.append({"stream": "witness", "fn": "plus", "args": ["UTC", wa, 0, ["iv", wa, wb]]})
    out.append({"stream": "witness", "fn": "plus_neg", "args": ["UTC", wb, 0, ["iv", wa, wb]]})
    out.append({"stream": "witness", "fn": "sub_comp", "args": ["UTC", wb, 0, ["iv", wa, wb]]})
    # the same two shapes on other offset changes / another Interval with years and months
    out.append({"stream": "witness", "fn": "minus", "args": ["America/New_York", T.wall_of(_dt.datetime(2021, 11, 7, 12, 0, 0)), 0, ["dur", [0, 0, 1, 0, 0, 0, 0, 0]]]})
    out.append({"stream": "witness", "fn": "minus", "args": ["Europe/Paris", T.wall_of(_dt.datetime(2013, 10, 28, 0, 30, 0)), 0, ["dur", [0, 0, 0, 0, 36, 0, 0, 0]]]})
    wc, wd = T.wall_of(_dt.datetime(2011, 11, 30, 23, 0, 0)), T.wall_of(_dt.datetime(2024, 2, 29, 1, 30, 0, 5))
    out.append({"stream": "witness", "fn": "minus", "args": ["Europe/Paris", T.wall_of(_dt.datetime(2024, 3, 31, 12, 0, 0)), 0, ["iv", wc, wd]]})
    out.append({"stream": "witness", "fn": "minus", "args": [None, wd, 0, ["iv", wd, wc]]})
    # ---- February of EVERY century year and of the leap years around it (the clamp reads is_leap(year): helpers.is_leap is the compiled one under the
    #      extension): month/year steps that land on Feb 28/29 from days 29..31, in and out of leap years, naive DateTime / UTC / Date, every entry
    kk = 0
    for Y in list(range(100, 10000, 100)) + [4, 96, 104, 1996, 2004, 2096, 2104, 9996]:
        for (y0, m0, d0, a) in ((Y, 1, 31, [0, 1, 0, 0, 0, 0, 0, 0]), (Y, 3, 30, [0, -1, 0, 0, 0, 0, 0, 0]), (Y - 1, 12, 29, [0, 2, 0, 0, 0, 0, 0, 0]),
                                (Y - 4 if Y > 4 else Y + 4, 2, 29 if calendar.isleap(Y - 4 if Y > 4 else Y + 4) else 28, [4 if Y > 4 else -4, 0, 0, 0, 0, 0, 0, 0]),
                                (Y, 2, 28, [0, 0, 0, 1, 0, 0, 0, 0]), (Y, 3, 1, [0, 0, 0, -1, 0, 0, 0, 0])):
            if not (1 <= y0 <= 9999):
                continue
            kk += 1
            W0 = T.wall_of(_dt.datetime(y0, m0, d0, 10, 30, 15, 250000))
            entry = ENTRY_CYCLE[kk % len(ENTRY_CYCLE)] if kk % 3 else "add"
            kind = (None, "UTC", "date")[kk % 3]
            if kind == "date":
                out.append(_mk_date("february-of-every-century", entry if entry in ("add", "subtract", "plus", "minus") else "add", W0, a))
            else:
                out.append(_mk("february-of-every-century", entry, kind, W0, 0, a))
    # ---- enumerated month stream
    mdeltas = [0, 1, -1, 2, -2, 11, -11, 12, -12, 13, -13, 23, -23, 24, -24, 25, -25]
    ydeltas = [0, 1, -1, 4, -4]
    years = [2023, 2024, 2100] if quick else [1999, 2000, 2023, 2024, 2100, 2400]
    kinds = [None, "UTC", "date", "Europe/Paris", 19800]
    for Y in years:
        for M in range(1, 13):
            for D in (1, 28, 29, 30, 31):
                if D > calendar.monthrange(Y, M)[1]:
                    continue
                W0 = T.wall_of(_dt.datetime(Y, M, D, 10, 30, 15, 250000))
                for md in mdeltas:
                    for yd in (ydeltas if not quick else ydeltas[:3]):
                        k += 1
                        if quick and (k + seed) % 3:
                            continue
                        kind = kinds[k % len(kinds)]
                        entry = ENTRY_CYCLE[(k // 5) % len(ENTRY_CYCLE)]
                        a = [yd, md, 0, 0, 0, 0, 0, 0]
                        if k % 7 == 0:
                            a[3] = rnd.choice([1, -1, 3, -31, 40])
                        if kind == "date":
                            out.append(_mk_date("enum-month", entry, W0, a))
                        else:
                            out.append(_mk("enum-month", entry, kind, W0, 0, a))
    # ---- year boundaries: starts in years 1 / 9999 (naive and Date only: zoneinfo does not work at the edges)
    for (Y, M, D) in [(1, 1, 1), (1, 1, 31), (1, 3, 31), (1, 12, 31), (9999, 1, 31), (9999, 12, 31), (9999, 10, 31), (9998, 12, 31), (2, 1, 1), (5000, 2, 28)]:
        W0 = T.wall_of(_dt.datetime(Y, M, D, 23, 59, 59, 999999))
        for a in [[0, 1, 0, 0], [0, -1, 0, 0], [1, 0, 0, 0], [-1, 0, 0, 0], [0, 0, 0, 1], [0, 0, 0, -1], [0, 0, 1, 0], [0, 12, 0, 0], [0, -12, 0, 0], [0, 2, 0, -31],
                  [9998, 0, 0, 0], [-9998, 0, 0, 0], [0, 119976, 0, 0], [0, -119976, 0, 0], [0, 0, 0, 3652058], [0, 0, 0, -3652058], [-1, 12, 0, 0], [1, -12, 0, 0],
                  [0, 0, 0, 10 ** 9], [0, 0, 0, -10 ** 9], [0, 0, 142857143, 0], [10 ** 6, 0, 0, 0], [0, -1, 0, 31], [0, 1, 0, -31]]:
            for entry in ("add", "subtract", "plus", "minus"):
                k += 1
                if quick and (k + seed) % 2:
                    continue
                a8 = a + [0, 0, 0, 0]
                if abs(td_us(a[2], a[3], 0, 0, 0, 0)) // US_DAY > 999999999 and entry != "add" and entry != "subtract":
                    continue          # the Duration itself cannot be built
                out.append(_mk_date("year-boundary", entry, W0, a8))
                if _float_exact(a8) or entry in ("add", "subtract"):
                    out.append(_mk("year-boundary", entry, None, W0, 0, a8[:4] + [0, 0, rnd.choice([0, 1, -1]), rnd.choice([0, 1, -1])] if entry in ("add", "subtract") else a8))
    # ---- calendar results that land in / around gaps and overlaps
    zs = list(zones.names()) if not quick else zones.pick_zones(rnd, 60)
    shifts = [(0, 0, 0, 1), (0, 0, 0, -1), (0, 0, 1, 0), (0, 0, -1, 0), (0, 1, 0, 0), (0, -1, 0, 0), (1, 0, 0, 0), (-1, 0, 0, 0), (0, 0, 0, 2), (0, 0, 0, -3),
              (0, 1, 0, 1), (0, -2, 1, 0), (0, 0, 0, 30), (0, 12, 0, 0), (0, 0, 52, 0), (0, 0, 0, -365)]
    for name in zs:
        trs = T.transition_probes(name, rnd, per_zone=(6 if quick else 40))
        for (tt, o_pre, o_post) in trs:
            probes = T.wall_probes(tt, o_pre, o_post)
            if quick:
                probes = [probes[i] for i in (1, 2, 4, 6, 7)] if (k + seed) % 2 else [probes[i] for i in (0, 3, 5, 8, 9, 4)]
            for Wt in probes:
                k += 1
                y, mo, wk, d = shifts[k % len(shifts)]
                hms = [0, 0, 0, 0]
                if k % 5 == 0:
                    hms = [rnd.choice([0, 1, -1]), rnd.choice([0, 30, -90]), 0, rnd.choice([0, 1, -1])]
                a = [y, mo, wk, d] + hms
                # start = target moved back on the wall clock (no clamping: skip targets on days 29..31 when months are involved)
                back = ref_cal(Wt, -y, -mo, -td_us(wk, d, *hms))
                if back[0] != "ok":
                    continue
                W0 = back[1]
                chk = ref_cal(W0, y, mo, td_us(wk, d, *hms))
                if chk != ("ok", Wt):
                    continue
                f = k % 2
                if not _valid_start(name, W0, f):
                    continue
                entry = ENTRY_CYCLE[(k // 3) % len(ENTRY_CYCLE)]
                if entry not in ("add", "subtract") and not _float_exact(a):
                    entry = "add"
                out.append(_mk("dst-target", entry, name, W0, f, a))
                if k % 4 == 0:
                    out.append(_mk("dst-target", "minus", name, W0, f, a))
    # ---- calendar units that cancel each other (weeks vs days, years vs months, days vs hours) with time units across offset changes
    out.extend(_cancel_cases(rnd, quick, zs, seed))
    # ---- random integer tuples
    nrand = 6000 if quick else 150000
    zr = zs[:25] if quick else zs
    for _ in range(nrand):
        k += 1

        def pick(lim, p=0.5):
            if rnd.random() < p:
                return 0
            r = rnd.random()
            if r < 0.5:
                return rnd.randint(-3, 3)
            if r < 0.8:
                return rnd.randint(-lim // 50 - 1, lim // 50 + 1)
            return rnd.randint(-lim, lim)
        a = [pick(30), pick(10 ** 4), pick(2000), pick(10 ** 5), pick(2000), pick(10 ** 5), pick(10 ** 7), pick(10 ** 8)]
        kindr = rnd.random()
        entry = ENTRY_CYCLE[rnd.randrange(len(ENTRY_CYCLE))]
        W0 = rnd.randrange(US_DAY * 400, T.MAX_WALL - US_DAY * 400) if rnd.random() < 0.3 else \
            T.wall_of(_dt.datetime(1900, 1, 1)) + rnd.randrange(0, 200 * 365 * US_DAY)
        if kindr < 0.2:
            out.append(_mk_date("random", entry if entry in ("add", "subtract", "plus", "minus") else "add", W0, a))
            continue
        if entry not in ("add", "subtract") and not _float_exact(a):
            a[7] = 0
            a[6] = a[6] // 1
            if not _float_exact(a):
                entry = "add"
        if kindr < 0.4:
            spec = None
        elif kindr < 0.5:
            spec = rnd.choice([0, 3600, -3600, 19800, 20700, -12600, 50400, -39600])
        else:
            spec = zr[rnd.randrange(len(zr))]
            # named zones: keep the span moderate so that the zone window stays small
            a[0] = max(-8, min(8, a[0])); a[1] = max(-120, min(120, a[1])); a[2] = max(-300, min(300, a[2])); a[3] = max(-4000, min(4000, a[3]))
            a[4] = max(-2000, min(2000, a[4]))
        f = 0 if isinstance(spec, int) else rnd.randrange(2)
        if not _valid_start(spec, W0, f):
            continue
        c = _mk("random", entry, spec, W0, f, a)
        if _aware_ok(c):
            out.append(c)
    # ---- float region: correspondence only (Duration normalisation is inexact there: C09)
    for _ in range(150 if quick else 3000):
        a = [rnd.choice([0, 0, 3, -7]), rnd.choice([0, 0, 5, -11]), 0, rnd.randint(-140000, 140000), 0, 0, rnd.randint(-86400, 86400), rnd.randint(-999999, 999999)]
        W0 = T.wall_of(_dt.datetime(5000, 1, 1)) + rnd.randrange(0, 365 * US_DAY)
        spec = rnd.choice([None, "UTC", 3600])
        c = _mk("float-region", rnd.choice(["minus", "plus_neg", "sub_comp", "plus"]), spec, W0, 0, a)
        if _aware_ok(c):
            out.append(c)
    # ---- Interval operands (between two UTC datetimes) and plain timedeltas
    for _ in range(1500 if quick else 30000):
        k += 1
        Wa = T.wall_of(_dt.datetime(1950, 1, 1)) + rnd.randrange(0, 100 * 365 * US_DAY)
        span = rnd.choice([rnd.randrange(-3 * US_DAY, 3 * US_DAY), rnd.randrange(-400 * US_DAY, 400 * US_DAY), rnd.randrange(-40 * 365 * US_DAY, 40 * 365 * US_DAY),
                           rnd.randrange(-40, 40) * US_DAY, rnd.randrange(-90000, 90000) * MEG])
        if rnd.random() < 0.5:
            span = span // MEG * MEG
        Wb = Wa + span
        r = rnd.random()
        fn = "plus" if k % 2 else "minus"
        if r >= 0.15 and k % 5 == 0:
            fn = "plus_neg" if k % 2 else "sub_comp"          # dt + (-iv) / dt.subtract(components of iv)
        if r < 0.15:
            out.append({"stream": "interval", "fn": "date_" + fn, "args": [Wa // US_DAY * US_DAY if k % 3 else (Wb // US_DAY * US_DAY), ["iv", Wa, Wb]]})
            continue
        spec = None if r < 0.3 else ("UTC" if r < 0.5 else zr[rnd.randrange(len(zr))])
        W0 = rnd.choice([Wa, Wb, Wa + rnd.randrange(-400 * US_DAY, 400 * US_DAY)])
        f = rnd.randrange(2)
        if not _valid_start(spec, W0, f):
            continue
        c = {"stream": "interval", "fn": fn, "args": [spec, W0, f, ["iv", Wa, Wb]]}
        if _aware_ok(c):
            out.append(c)
    for _ in range(1000 if quick else 20000):
        k += 1
        N = rnd.choice([rnd.randrange(-3 * US_DAY, 3 * US_DAY), rnd.randrange(-4000 * US_DAY, 4000 * US_DAY), rnd.randrange(-400, 400) * US_DAY,
                        rnd.randrange(-10 ** 7, 10 ** 7), rnd.randrange(-90000, 90000) * MEG])
        W0 = T.wall_of(_dt.datetime(1950, 1, 1)) + rnd.randrange(0, 100 * 365 * US_DAY)
        r = rnd.random()
        fn = "plus" if k % 2 else "minus"
        if r < 0.3:
            out.append({"stream": "timedelta", "fn": "date_" + fn, "args": [W0 // US_DAY * US_DAY, ["td", N]]})
            continue
        spec = None if r < 0.45 else (rnd.choice([0, 3600, -12600]) if r < 0.55 else zr[rnd.randrange(len(zr))])
        f = 0 if isinstance(spec, int) else rnd.randrange(2)
        if not _valid_start(spec, W0, f):
            continue
        c = {"stream": "timedelta", "fn": fn, "args": [spec, W0, f, ["td", N]]}
        if _aware_ok(c):
            out.append(c)
    # ---- helpers.add_duration directly (incl. the date + time-elements RuntimeError)
    for _ in range(400 if quick else 6000):
        W0 = rnd.randrange(0, T.MAX_WALL)
        isdt = rnd.randrange(2)
        if not isdt:
            W0 = W0 // US_DAY * US_DAY
        a = [rnd.randint(-3, 3), rnd.randint(-40, 40), rnd.randint(-5, 5), rnd.randint(-400, 400),
             rnd.choice([0, 0, rnd.randint(-100, 100)]), rnd.choice([0, 0, rnd.randint(-4000, 4000)]), rnd.choice([0, 0, rnd.randint(-10 ** 5, 10 ** 5)]), rnd.choice([0, 0, rnd.randint(-10 ** 7, 10 ** 7)])]
        out.append({"stream": "add-duration", "fn": "add_duration", "args": [W0, isdt, a]})
    return out


def search_cases(seed):
    return [c for c in cases("thorough", seed + 1) if c["stream"] in ("dst-target", "enum-month", "year-boundary")][::4] + cases("quick", seed + 7)


def nontrivial(c):
    return True


# ----------------------------------------------------------------------------- implementation
def _mk_dt(pendulum, spec, W, f):
    y, mo, d, h, mi, s, us = T.fields_of(W)
    if spec is None:
        return pendulum.naive(y, mo, d, h, mi, s, us), None
    tz = T.pzone(spec)
    return pendulum.datetime(y, mo, d, h, mi, s, us, tz=tz, fold=f), tz


KW = ["years", "months", "weeks", "days", "hours", "minutes", "seconds", "microseconds"]


def _mk_operand(pendulum, op):
    """-> (operand, None) or (None, marker) when the observed Interval does not have the components the harness predicted."""
    if op[0] == "td":
        return _dt.timedelta(microseconds=op[1]), None
    if op[0] == "dur":
        return pendulum.duration(**dict(zip(KW, op[1]))), None
    a = pendulum.datetime(*T.fields_of(op[1]), tz="UTC")
    b = pendulum.datetime(*T.fields_of(op[2]), tz="UTC")
    iv = b - a
    comps, total = iv_components(op[1], op[2])
    obs = [iv.years, iv.months, iv.weeks, iv.remaining_days, iv.hours, iv.minutes, iv.remaining_seconds, iv.microseconds]
    if obs != comps or iv._total != total or type(iv).__name__ != "Interval":
        return None, [7, 5] + obs
    return iv, None


def _res_dt(res, start, tz):
    import pendulum
    if not isinstance(res, pendulum.DateTime):
        return [7, 1]
    if tz is None:
        if res.tzinfo is not None:
            return [7, 2]
        return [0, T.wall_of(res), res.fold, 0]
    if res.tzinfo is not start.tzinfo and res.timezone_name != start.timezone_name:
        return [7, 2]
    return [0, T.wall_of(res), res.fold, T.off_s(res)]


def _res_date(res):
    import pendulum
    if not isinstance(res, pendulum.Date) or isinstance(res, _dt.datetime):
        return [7, 1]
    return [0, T.wall_of(res)]


def impl_run(cases):
    import pendulum
    from pendulum.helpers import add_duration
    out = []
    for c in cases:
        fn, a = c["fn"], c["args"]
        try:
            if fn == "add_duration":
                W, isdt, amt = a
                y, mo, d, h, mi, s, us = T.fields_of(W)
                base = _dt.datetime(y, mo, d, h, mi, s, us) if isdt else _dt.date(y, mo, d)
                r = add_duration(base, **dict(zip(KW, amt)))
                out.append([0, T.wall_of(r)] if type(r) is type(base) else [7, 1])
                continue
            if fn.startswith("date_"):
                W = a[0]
                y, mo, d = T.fields_of(W)[:3]
                start = pendulum.date(y, mo, d)
                if fn in ("date_add", "date_subtract"):
                    kw = dict(zip(KW[:4], a[1]))
                    out.append(_res_date(start.add(**kw) if fn == "date_add" else start.subtract(**kw)))
                    continue
                op, bad = _mk_operand(pendulum, a[1])
                if bad:
                    out.append(bad)
                    continue
                out.append(_res_date(start + op if fn == "date_plus" else start - op))
                continue
            spec, W, f = a[0], a[1], a[2]
            start, tz = _mk_dt(pendulum, spec, W, f)
            if T.wall_of(start) != W or (tz is not None and start.fold != f):
                out.append([7, 4])
                continue
            if fn in ("add", "subtract"):
                kw = dict(zip(KW, a[3]))
                res = start.add(**kw) if fn == "add" else start.subtract(**kw)
            else:
                op, bad = _mk_operand(pendulum, a[3])
                if bad:
                    out.append(bad)
                    continue
                if fn == "plus":
                    res = start + op
                elif fn == "minus":
                    res = start - op
                elif fn == "plus_neg":
                    nop = -op
                    if a[3][0] == "iv":
                        # -iv is the reversed Interval: it must have the components the model is given for it
                        ncomps, ntotal = iv_components(a[3][2], a[3][1])
                        nobs = [nop.years, nop.months, nop.weeks, nop.remaining_days, nop.hours, nop.minutes, nop.remaining_seconds, nop.microseconds]
                        if nobs != ncomps or nop._total != ntotal or type(nop).__name__ != "Interval":
                            out.append([7, 6] + nobs)
                            continue
                    res = start + nop
                elif fn == "sub_comp":
                    res = start.subtract(years=op.years, months=op.months, weeks=op.weeks, days=op.remaining_days, hours=op.hours,
                                         minutes=op.minutes, seconds=op.remaining_seconds, microseconds=op.microseconds)
                else:
                    out.append([9])
                    continue
            out.append(_res_dt(res, start, tz))
        except Exception as ex:  # noqa
            out.append(T.exn_result(ex))
    return out


# ----------------------------------------------------------------------------- model
MODEL_FN = {"add": "dt_add", "subtract": "dt_subtract", "plus": "dt_plus", "minus": "dt_minus", "plus_neg": "dt_plus_neg", "sub_comp": "dt_sub_components",
            "date_add": "date_add", "date_subtract": "date_subtract", "date_plus": "date_plus", "date_minus": "date_minus"}


def _op_enc(op):
    if op[0] == "td":
        return [0, op[1]]
    if op[0] == "dur":
        return [1] + list(op[1])
    comps, total = iv_components(op[1], op[2])
    return [2] + comps + fcode(total)


def model_calls(c, backend):
    fn, a = c["fn"], c["args"]
    if fn == "add_duration":
        return [("add_duration", [0, 0, a[0], a[1]] + list(a[2]))]
    if fn.startswith("date_"):
        rest = list(a[1]) if fn in ("date_add", "date_subtract") else _op_enc(a[1])
        return [(MODEL_FN[fn], [0, 0, a[0]] + rest)]
    spec, W, f = a[0], a[1], a[2]
    if spec is None:
        zenc, kind = [0, 0], 0
    elif isinstance(spec, int):
        zenc, kind = [spec, 0], 2
    else:
        ws = _targets(c)
        lo, hi = T.unix_of_wall(min(ws)) - 100000, T.unix_of_wall(max(ws)) + 100000
        zenc, kind = T.zone_enc(spec, lo, hi), 1
    if fn in ("plus_neg", "sub_comp") and a[3][0] == "iv":
        # dt + (-iv): `+` with the reversed Interval;  dt.subtract(components of iv): subtract with the accessor values
        if fn == "plus_neg":
            return [("dt_plus", zenc + [kind, W, f] + _op_enc(["iv", a[3][2], a[3][1]]))]
        return [("dt_subtract", zenc + [kind, W, f] + iv_components(a[3][1], a[3][2])[0])]
    rest = list(a[3]) if fn in ("add", "subtract") else _op_enc(a[3])
    return [(MODEL_FN[fn], zenc + [kind, W, f] + rest)]


def model_result(c, backend, outs):
    return outs[0]


def same(c, m, r):
    return m == r


# ----------------------------------------------------------------------------- the property (stdlib only)
def _expect(c):
    """What the property says the call returns: ("ok", (wall, fold|None, off)) | ("exn", name) | ("fail", why) | None (not judged)."""
    fn, a = c["fn"], c["args"]
    if c["stream"] == "float-region":
        return None
    if fn == "add_duration":
        W, isdt, amt = a
        y, mo, wk, d, h, m, s, us = amt
        if not isdt and (h or m or s or us):
            return ("exn", "RuntimeError")
        r = ref_cal(W, y, mo, td_us(wk, d, h, m, s, us), is_date=not isdt)
        return r if r[0] == "exn" else ("ok", (r[1], None, None))
    if fn.startswith("date_"):
        W = a[0]
        if fn in ("date_add", "date_subtract"):
            y, mo, wk, d = a[1] if fn == "date_add" else [-v for v in a[1]]
        else:
            op = a[1]
            sg = 1 if fn == "date_plus" else -1
            if op[0] == "td":
                y, mo, wk, d = 0, 0, 0, sg * (op[1] // US_DAY)            # timedelta.days (floor)
            elif op[0] == "dur":
                if abs(td_us(*op[1][2:]) + (op[1][0] * 365 + op[1][1] * 30) * US_DAY) // US_DAY > 999999999:
                    return ("exn", "OverflowError")
                n = neg_components(op[1])                                  # exact components, negated
                y, mo, wk, d = [-sg * v for v in n[:4]]
            else:
                comps, _ = iv_components(op[1], op[2])
                y, mo, wk, d = [sg * v for v in comps[:4]]
        r = ref_cal(W, y, mo, td_us(wk, d, 0, 0, 0, 0), is_date=True)
        return r if r[0] == "exn" else ("ok", (r[1], None, None))
    spec, W, f = a[0], a[1], a[2]
    if fn == "add":
        return ref_add(spec, W, f, a[3])
    if fn == "subtract":
        return ref_add(spec, W, f, [-v for v in a[3]])
    op = a[3]
    if op[0] == "td":
        return ref_elapsed(spec, W, f, op[1] if fn == "plus" else -op[1])
    if op[0] == "dur":
        if abs(td_us(*op[1][2:]) + (op[1][0] * 365 + op[1][1] * 30) * US_DAY) // US_DAY > 999999999:
            return ("exn", "OverflowError")
        if fn == "plus":
            return ref_add(spec, W, f, op[1])                              # add(**_signature)
        return ref_add(spec, W, f, neg_components(op[1]))                  # dt - d == dt + (-d) == dt.subtract(**components)
    comps, _ = iv_components(op[1], op[2])
    return ref_add(spec, W, f, comps if fn == "plus" else [-v for v in comps])


def _cmp(exp, r):
    if exp is None:
        return None
    if exp[0] == "fail":
        return exp[1]
    if exp[0] == "exn":
        return None if r == [1, T.EXN[exp[1]]] else f"expected {exp[1]}, got {r}"
    w, fo, off = exp[1]
    if r[0] != 0:
        return f"expected wall {T.fields_of(w)}, got {r}"
    if r[1] != w or (fo is not None and len(r) > 2 and r[2] != fo) or (off is not None and len(r) > 3 and r[3] != off):
        return (f"expected wall {T.fields_of(w)} fold {fo} offset {off}, got wall {T.fields_of(r[1])}" +
                (f" fold {r[2]} offset {r[3]}" if len(r) > 3 else ""))
    return None


def oracle(c, backend, r):
    if r and r[0] in (7, 9):
        return f"harness marker {r}"
    why = _cmp(_expect(c), r)
    if why is None:
        return None
    return f"{c['fn']}{c['args']}: {why}"


def known(c, backend, r):
    """Listed findings, by call site and region.  Both are `fixed` (DateTime._subtract_timedelta now passes the Duration's components to
    subtract()): the predicates still recognise the old behaviour, so a regression is reported as a VIOLATION under the finding's id."""
    fn, a = c["fn"], c["args"]
    if fn != "minus" or a[3][0] == "td":
        return None
    spec, W, f, op = a
    if op[0] == "dur":
        y, mo = op[1][0], op[1][1]
        rest = td_us(*op[1][2:])
        total_f = None
    else:
        comps, total_f = iv_components(op[1], op[2])
        y, mo = comps[0], comps[1]
        rest = op[2] - op[1]
    if op[0] == "iv" and (y or mo):
        # years/months are subtracted on the calendar AND once more inside the elapsed seconds
        e = ref_add(spec, W, f, [-y, -mo, 0, 0, 0, 0, 0, -rest])
        return "sub-interval-double-count" if _cmp(e, r) is None else None
    if y == 0 and mo == 0 and abs(rest) >= US_DAY and isinstance(spec, str):
        # a whole-day (or longer) Duration is subtracted as elapsed time through UTC instead of on the wall clock
        e = ref_elapsed(spec, W, f, -rest)
        return "sub-duration-elapsed" if _cmp(e, r) is None else None
    return None


LEVEL_TEXT = ("Machine-checked Coq theorems, for ALL integer amounts of either sign and every wall value: the translated helpers.add_duration equals months-since-epoch arithmetic "
              "(ym_add), the day clamped to min(days-in-month, day), then an exact shift by (7*weeks+days, h, m, s, us) on the wall clock, ValueError exactly when the intermediate year "
              "leaves 1..9999 and OverflowError exactly when the shifted value does; DateTime.add with calendar units is the C02 normalisation (default fold 1, zone kept) of that wall value "
              "for every well-formed zone; subtract is add of the negated amounts; Date.add / + / - use years, months, weeks, remaining_days (plain timedelta: .days); "
              "dt + Duration is add(**_signature); for every Duration d `dt - d == dt.subtract(**components of d) == dt + (-d)` (-d as Duration.__neg__ builds it, its own construction may raise), "
              "for an Interval `dt - iv == dt.subtract(**components) == dt + (the Interval with the negated components)`, and `dt - d` with a year/month/week/day component is the C02 normalisation of the "
              "wall-clock target (proved in full after the repair of DateTime._subtract_timedelta; the two former witnesses are theorems and ordinary cases of the correspondence). "
              "Calendar-unit arguments that cancel each other (12*years+months = 0 and days+7*weeks = 0 with some unit non-zero) still move the time units on the wall clock followed by the C02 normalisation "
              "(add_cancelling_units_wall_clock, subtract_cancelling_units_wall_clock), and a calendar call depends on its amounts only through 12*years+months and the total of the rest (add_calendar_depends_on_totals). "
              "The model is tied to /repo by translation of add_duration and correspondence on every month-length x sign x overflow combination and on results landing in real gaps/overlaps, both backends.")
DESIGN_REF = "DESIGN.md section 4 C04"
LEVEL_NOTE = ("Trusted: Coq kernel+VM; Spec/Zone.v, Spec/NativeDT.v, Spec/TdFloat.v as models of zoneinfo / naive datetime arithmetic / CPython floats (validated by correspondence); "
              "hand models Model/CalendarArith.v, Model/TzConvert.v, Model/Duration.v (validated by correspondence). The findings sub-duration-elapsed and sub-interval-double-count are fixed: "
              "nothing is excluded for them, and known() still recognises the old behaviour so that a regression is reported as a VIOLATION. That the reversed Interval -iv has the negated components is observed on "
              "every case of the harness (components of an Interval are C05/C06).")
TECHNIQUE = "translation of add_duration + Coq proofs (lia/nia over Z, case analysis) + differential correspondence with a stdlib/zoneinfo oracle"


# ---- model = code theorems for the arithmetic entry points (appended) ----
TRUSTED = [t for t in TRUSTED] + ['model_is_code_add_interval_operand / _add_duration_operand / _sub_duration_operand / _sub_interval_operand: DateTime._add_timedelta_ and _subtract_timedelta translated from /repo for Duration and Interval operands (self.add(**delta._signature) = the eight keyword values, AttributeError without _signature) = dt_add_timedelta / dt_sub_timedelta; model_is_code_date_add / _date_subtract / _date_add_timedelta / _date_add_duration / _date_add_interval / _date_sub_timedelta: Date.add, subtract, _add_timedelta, _subtract_timedelta, __add__ and __sub__ (timedelta operand of every class; a plain timedelta contributes .days, integers only) = date_add / date_subtract / date_add_timedelta / date_sub_timedelta. An operand is the record of its class, native microseconds, accessor values and _signature (by hand, coq/Model/TzGlueObj.v gop). NOT translated (hand-written + pinned): DateTime +/- a PLAIN timedelta (float seconds), the datetime/date operand of `-` and diff (Interval construction, Model/IntervalLen.v), Duration.__neg__']
LEVEL_NOTE = LEVEL_NOTE + " " + 'model_is_code_add_interval_operand / _add_duration_operand / _sub_duration_operand / _sub_interval_operand: DateTime._add_timedelta_ and _subtract_timedelta translated from /repo for Duration and Interval operands (self.add(**delta._signature) = the eight keyword values, AttributeError without _signature) = dt_add_timedelta / dt_sub_timedelta; model_is_code_date_add / _date_subtract / _date_add_timedelta / _date_add_duration / _date_add_interval / _date_sub_timedelta: Date.add, subtract, _add_timedelta, _subtract_timedelta, __add__ and __sub__ (timedelta operand of every class; a plain timedelta contributes .days, integers only) = date_add / date_subtract / date_add_timedelta / date_sub_timedelta. An operand is the record of its class, native microseconds, accessor values and _signature (by hand, coq/Model/TzGlueObj.v gop). NOT translated (hand-written + pinned): DateTime +/- a PLAIN timedelta (float seconds), the datetime/date operand of `-` and diff (Interval construction, Model/IntervalLen.v), Duration.__neg__' + "."
