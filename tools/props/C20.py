"""C20 — Time-of-day arithmetic wraps modulo 24 hours exactly (src/pendulum/time.py)."""
from __future__ import annotations

import random

ID = "C20"
PROPS = "Props/C20.v"
DAY = 86400 * 10**6
EPOCH_WALL = 719162 * DAY                 # microseconds from 0001-01-01T00:00 to 1970-01-01T00:00
MAX_WALL = 3652059 * DAY - 1              # 9999-12-31T23:59:59.999999
LO, HI = -EPOCH_WALL, MAX_WALL - EPOCH_WALL   # admissible (tod + amount) relative to 1970-01-01T00:00

RULE = ("times of day are microsecond-of-day integers: a boundary set (00:00:00, 23:59:59.999999, +-1 us/s/min/h around every field carry, noon) "
        "plus seeded random values; amounts (hours, minutes, seconds, microseconds) of either and mixed sign: every carry threshold of "
        "helpers.add_duration (+-999999/10^6, +-59/60, +-23/24 and multiples), amounts spanning days to millennia, and the edges of the "
        "representable range 0001-01-01..9999-12-31 expressed in each unit and with compensating parts (+-1 us around the edge), plus integers "
        "far beyond it; timedeltas with raw days/seconds/microseconds whose normal form has days in -2..2 (incl. negative sub-day deltas); "
        "all ordered pairs of boundary times for diff / t2 - t1 (Time and datetime.time operands, both operand orders) and triples for "
        "closest/farthest incl. sub-second distances. timedelta SUBCLASS operands for every entry point (add_timedelta, subtract_timedelta, t + x, t - x, x + t, x - t): "
        "pendulum.Duration and AbsoluteDuration given by their nine constructor integers (literal user forms; every boundary total -366 d .. 40 y decomposed in seven "
        "styles incl. weeks/days/milliseconds and compensating parts of opposite sign; a years/months part that keeps or changes the native value; whole days whose "
        "sub-day components are all zero; negative spans whose normal form has days = -1), Interval built eight ways (UTC / naive / stdlib / mixed-zone / Date endpoints, "
        "end - start, start.diff(end), absolute or not) around the same totals, and a user subclass of timedelta that overrides nothing; plus the six accessor values "
        "(presented and native days/seconds/microseconds) of every such object. A case is non-trivial when it is a distinct (function, arguments) tuple; each is compared "
        "implementation (both backends) vs extracted Coq model and implementation vs the integer/stdlib oracle.")
EXHAUSTIVE = {"quick": False, "thorough": False}
TRUSTED = ["coq/Model/TimeOfDay.v: the hand-written glue around the translated cores (EPOCH.at(..).add(..).time() in UTC as Spec/Cal.v wall-clock "
           "arithmetic with the 0001..9999 range check; CPython's timedelta constructor as exact integer total + floor normal form) — tied by correspondence",
           "tools/vlib/gens/g70_time.py: picks the statements of helpers.add_duration / Time.* that are translated and compares the rest with fixed text (fails closed)"]
ASSUMPTIONS = ["arguments of add/subtract are Python ints (floats and bools are outside the property)",
               "subclass operands: 'day component' is read on what the operand IS as a timedelta (days of the normal form of its native value != 0, as for a plain timedelta; "
               "Duration counts years * 365 + months * 30 days) for Duration / AbsoluteDuration / a plain subclass; an Interval presents itself in sign-magnitude form "
               "(interval.py overrides `days`), so its day component is |span| >= 24 h and a NEGATIVE span shorter than a day shifts backwards exactly (an equal plain "
               "timedelta or Duration is rejected) — stated as interval_operand_spec; operands stay below 60 years, inside the domain where Duration.__new__'s float "
               "normalisation is proved exact (C09 D9: 2^32 s)",
               "round(Duration.total_seconds() * 10**6) recovers the microsecond total exactly below one day (|error| < 1e-4); the native timedelta fields are read as a second, exact observation",
               "every exception on the add path for out-of-range amounts is an OverflowError (date value out of range, timedelta days > 999999999, int too large for C int / float); checked on each such case"]
VM_SUBSET = 260

B_TOD = sorted({0, 1, 2, 999999, 10**6, 10**6 + 1, 59 * 10**6 + 999999, 60 * 10**6, 60 * 10**6 + 1, 3599 * 10**6 + 999999, 3600 * 10**6,
                3600 * 10**6 + 500, 3723 * 10**6 + 500, 3723 * 10**6 + 900, 12 * 3600 * 10**6 - 1, 12 * 3600 * 10**6, 12 * 3600 * 10**6 + 1,
                23 * 3600 * 10**6, 86399 * 10**6, 86399 * 10**6 + 1, DAY - 10**6 - 1, DAY - 2, DAY - 1})


def _fields(t):
    s, us = divmod(t, 10**6)
    return s // 3600, s // 60 % 60, s % 60, us


def _total(h, m, s, us):
    return ((h * 60 + m) * 60 + s) * 10**6 + us


def _amount_boundaries():
    out = []
    for us in (0, 1, 999999, 10**6, 10**6 + 1, 1999999, 2 * 10**6, DAY - 1, DAY, DAY + 1, 3 * DAY + 7):
        out += [(0, 0, 0, us), (0, 0, 0, -us)]
    for s in (1, 59, 60, 61, 119, 120, 3599, 3600, 86399, 86400, 86401, 5 * 86400 + 1):
        out += [(0, 0, s, 0), (0, 0, -s, 0), (0, 0, s, -1), (0, 0, -s, 1)]
    for m in (1, 59, 60, 61, 1439, 1440, 1441, 10 * 1440 - 1):
        out += [(0, m, 0, 0), (0, -m, 0, 0), (0, m, -59, 0), (0, -m, 61, -999999)]
    for h in (1, 23, 24, 25, 47, 48, 49, 24 * 7, 24 * 366 + 5):
        out += [(h, 0, 0, 0), (-h, 0, 0, 0), (h, -60, 0, 0), (-h, 59, 60, 10**6)]
    # mixed-sign carries through every level
    out += [(23, 59, 59, 999999), (-23, -59, -59, -999999), (24, -1440, 86400, -DAY), (-24, 1440, -86400, DAY),
            (23, 60, -3600, 1), (0, 59, 60, 10**6), (0, -59, -60, -10**6), (1, -61, 61, -1000001), (-1, 61, -61, 1000001),
            (0, 0, 59, 10**6), (0, 0, -59, -10**6), (0, 59, 59, 10**6), (23, 59, 59, 10**6), (-23, -59, -59, -10**6)]
    return out


def _range_edges(rnd, tod):
    """amounts that put 1970-01-01 + tod + amount at / next to the ends of the datetime range, in different units."""
    out = []
    for edge in (LO - tod, HI - tod):
        for d in (-2, -1, 0, 1, 2):
            a = edge + d
            out.append((0, 0, 0, a))
            s, us = divmod(a, 10**6)
            out.append((0, 0, s, us))
            m, r = divmod(a, 60 * 10**6)
            out.append((0, m, 0, r))
            h, r = divmod(a, 3600 * 10**6)
            out.append((h, 0, 0, r))
            # compensating parts: overshoot in hours, come back in minutes/seconds
            k = rnd.randrange(1, 10**6)
            out.append((h + k, -60 * k, 0, r))
            out.append((h - k, 0, 3600 * k, r))
            # sign-magnitude split (what the normalisation itself produces)
            sg = -1 if a < 0 else 1
            q, r2 = divmod(abs(a), 3600 * 10**6)
            out.append((sg * q, 0, 0, sg * r2))
    return out


def _rand_amount(rnd):
    k = rnd.randrange(8)
    if k == 0:
        return (rnd.randrange(-60, 61), rnd.randrange(-150, 151), rnd.randrange(-150, 151), rnd.randrange(-3 * 10**6, 3 * 10**6))
    if k == 1:
        return (rnd.randrange(-10**4, 10**4), rnd.randrange(-10**5, 10**5), rnd.randrange(-10**6, 10**6), rnd.randrange(-10**12, 10**12))
    if k == 2:
        return (0, 0, 0, rnd.randrange(-20 * DAY, 20 * DAY))
    if k == 3:
        return (rnd.randrange(-500, 500), 0, 0, 0)
    if k == 4:   # exact multiples of a day, of either sign, in mixed units
        d = rnd.randrange(-3000, 3000)
        return (24 * d - rnd.randrange(0, 3), 60 * rnd.randrange(0, 3), 0, 0)
    if k == 5:   # anywhere in (and a bit outside) the whole range
        a = rnd.randrange(LO - 400 * DAY, HI + 400 * DAY)
        h, r = divmod(a, 3600 * 10**6)
        return (h, 0, 0, r) if rnd.random() < 0.5 else (0, 0, *divmod(a, 10**6))
    if k == 6:   # thresholds
        c = lambda n: rnd.choice([-1, 1]) * (n * rnd.randrange(0, 4) + rnd.choice([-1, 0, 1]))
        return (c(24), c(60), c(60), c(10**6))
    return (rnd.randrange(-10**7, 10**7), rnd.randrange(-10**9, 10**9), rnd.randrange(-10**11, 10**11), rnd.randrange(-10**17, 10**17))



# ----------------------------------------------------------------------------- timedelta SUBCLASS operands (Duration, AbsoluteDuration, Interval)
# A Duration / AbsoluteDuration operand is its nine constructor integers in the positional order of Duration.__new__:
#   (days, seconds, microseconds, milliseconds, minutes, hours, weeks, years, months);  kind 0 = Duration, 1 = AbsoluteDuration.
# An Interval operand (kind 2) is (variant, start, end, absolute): start / end are microseconds since 1970-01-01T00:00 UTC, the variant says
# how the two endpoints are presented and how the Interval is obtained (IVL_VARIANTS).
OPERAND_FNS = ("sc_add_timedelta", "sc_subtract_timedelta", "sc_op_add", "sc_op_sub", "sc_op_radd", "sc_op_rsub")
# kind 3: a user-defined subclass of datetime.timedelta that overrides nothing (seven native constructor integers, years = months = 0)
IVL_VARIANTS = 8
YEAR_US, MONTH_US = 365 * DAY, 30 * DAY
SPAN_LIMIT = 60 * 365 * DAY      # |native value| and |value without the year/month part| stay far inside C09's exactness domain D9 (2^32 s = 136 years)


def _dur_native(kind, a):
    """the native timedelta value in microseconds of Duration(*a) / AbsoluteDuration(*a) (exact integer arithmetic)"""
    d, s, us, ms, mi, h, w, y, mo = a
    if kind == 0:
        d = d + 365 * y + 30 * mo
    return ((((w * 7 + d) * 24 + h) * 60 + mi) * 60 + s) * 10**6 + ms * 1000 + us


def _split_total(rnd, total, style):
    """nine constructor integers of native value `total` (years = months = 0), decomposed in the given style"""
    if style == 0:      # all in microseconds
        return [0, 0, total, 0, 0, 0, 0, 0, 0]
    if style == 1:      # seconds + microseconds (floor)
        return [0, total // 10**6, total % 10**6, 0, 0, 0, 0, 0, 0]
    if style == 2:      # sign-magnitude h / m / s / us (what the class itself reports)
        sg = -1 if total < 0 else 1
        m = abs(total)
        return [0, sg * (m // 10**6 % 60), sg * (m % 10**6), 0, sg * (m // (60 * 10**6) % 60), sg * (m // (3600 * 10**6)), 0, 0, 0]
    if style == 3:      # normal form days / seconds / microseconds
        return [total // DAY, total % DAY // 10**6, total % 10**6, 0, 0, 0, 0, 0, 0]
    if style == 4:      # weeks + days + hours + ... (floor at every level)
        w, r = divmod(total, 7 * DAY)
        d, r = divmod(r, DAY)
        h, r = divmod(r, 3600 * 10**6)
        mi, r = divmod(r, 60 * 10**6)
        sec, r = divmod(r, 10**6)
        ms, us = divmod(r, 1000)
        return [d, sec, us, ms, mi, h, w, 0, 0]
    if style == 5:      # compensating parts: overshoot in one unit, come back in another
        k = rnd.randrange(1, 50)
        pick = rnd.randrange(4)
        if pick == 0:
            return [k, 0, total - k * DAY, 0, 0, 0, 0, 0, 0]
        if pick == 1:
            return [0, 0, total % (3600 * 10**6), 0, -60 * k, k + total // (3600 * 10**6), 0, 0, 0]
        if pick == 2:
            return [-7 * k, total // 10**6, total % 10**6, 0, 0, 0, k, 0, 0]
        return [k, -86400 * k + total // 10**6, total % 10**6 - 1000 * k, k, 0, 0, 0, 0, 0]
    # milliseconds + minutes
    mi, r = divmod(total, 60 * 10**6)
    ms, us = divmod(r, 1000)
    return [0, 0, us, ms, mi, 0, 0, 0, 0]


def _with_ym(rnd, a, kind, keep):
    """add a years / months part; keep=True compensates it in days so that the NATIVE value is unchanged (Duration only counts them)"""
    a = list(a)
    y, mo = rnd.choice([(1, 0), (0, 1), (-1, 0), (0, -1), (1, -12), (2, 5), (-3, 7), (rnd.randrange(-20, 21), rnd.randrange(-30, 31))])
    a[7], a[8] = y, mo
    if keep and kind == 0:
        a[0] -= 365 * y + 30 * mo
    return a


SC_TOTALS = sorted({0, 1, 999, 1000, 999999, 10**6, 10**6 + 1, 59 * 10**6, 60 * 10**6, 3599 * 10**6 + 999999, 3600 * 10**6, 12 * 3600 * 10**6,
                    23 * 3600 * 10**6, 86399 * 10**6, DAY - 10**6, DAY - 1000, DAY - 1,                                   # no day component
                    DAY, DAY + 1, DAY + 999999, DAY + 10**6, DAY + 3600 * 10**6, DAY + 2 * 3600 * 10**6, 25 * 3600 * 10**6, 2 * DAY - 1, 2 * DAY,
                    2 * DAY + 3 * 3600 * 10**6 + 4 * 60 * 10**6 + 5 * 10**6 + 6, 6 * DAY, 7 * DAY - 1, 7 * DAY, 7 * DAY + 1, 8 * DAY,
                    14 * DAY, 30 * DAY, 31 * DAY, 365 * DAY, 366 * DAY, 395 * DAY, 400 * 365 * DAY // 10,               # whole days and more
                    -1, -999, -1000, -999999, -10**6, -10**6 - 1, -60 * 10**6, -3600 * 10**6, -12 * 3600 * 10**6, -86399 * 10**6, -DAY + 1,   # days = -1
                    -DAY, -DAY - 1, -DAY - 3600 * 10**6, -25 * 3600 * 10**6, -49 * 3600 * 10**6 - 30 * 60 * 10**6, -2 * DAY + 1, -2 * DAY, -3 * DAY - 3600 * 10**6,
                    -7 * DAY, -7 * DAY - 1, -30 * DAY, -365 * DAY, -366 * DAY})


def _rand_total(rnd):
    k = rnd.randrange(10)
    if k <= 2:
        return rnd.randrange(0, DAY)                                   # accepted region
    if k == 3:
        return rnd.randrange(-DAY + 1, 0)                              # negative, shorter than a day
    if k == 4:
        return rnd.choice([-1, 1]) * rnd.randrange(1, 400) * DAY       # whole days: every sub-day component is zero
    if k == 5:
        return rnd.choice([-1, 1]) * (rnd.randrange(1, 60) * DAY + rnd.randrange(0, DAY))
    if k == 6:
        return rnd.choice([-1, 1]) * (rnd.choice([1, 7, 30, 365]) * DAY) + rnd.randrange(-2 * 10**6, 2 * 10**6)   # next to a unit of days
    if k == 7:
        return rnd.choice([0, DAY, -DAY, 2 * DAY]) + rnd.randrange(-3, 4)
    if k == 8:
        return rnd.randrange(-SPAN_LIMIT // 2, SPAN_LIMIT // 2)
    return rnd.randrange(-3 * DAY, 3 * DAY)


def _operand_cases(rnd, big, rtod):
    """[(kind, args)]: subclass operands with and without a day component"""
    ops = []
    # hand-picked constructor calls (the forms a user writes)
    z = [0] * 9
    def D(**kw):
        a = list(z)
        for k, v in kw.items():
            a[("days", "seconds", "microseconds", "milliseconds", "minutes", "hours", "weeks", "years", "months").index(k)] = v
        return a
    literal = [D(), D(days=1), D(days=1, hours=2), D(days=2, hours=3, minutes=4, seconds=5, microseconds=6), D(hours=24), D(hours=25), D(hours=23, minutes=59, seconds=59, microseconds=999999),
               D(weeks=1), D(weeks=1, hours=1), D(weeks=-1), D(days=7), D(days=-3, hours=-1), D(hours=-49, minutes=-30), D(days=5, minutes=1), D(minutes=1440), D(minutes=1439),
               D(seconds=86400), D(seconds=86399, microseconds=999999), D(microseconds=DAY), D(milliseconds=86400000), D(milliseconds=86399999, microseconds=999),
               D(hours=-1), D(microseconds=-1), D(seconds=-1), D(days=-1), D(days=-1, hours=24), D(days=-1, hours=25), D(days=1, hours=-24), D(days=1, hours=-1), D(days=1, hours=-25),
               D(years=1), D(months=1), D(years=1, hours=2), D(months=1, minutes=5), D(years=-1), D(months=-1, hours=3), D(years=1, months=-12), D(years=1, months=-12, hours=7),
               D(years=1, days=-365), D(years=1, days=-365, hours=2), D(years=1, days=-365, hours=2, microseconds=5), D(years=1, days=-366, hours=23), D(months=1, days=-30, seconds=1),
               D(months=1, days=-30, hours=-1), D(years=-1, days=365, hours=5), D(years=-1, days=365, microseconds=1), D(years=2, months=5, days=-880, hours=12),
               D(weeks=1, days=-7, hours=3), D(weeks=52, days=-364, minutes=90), D(hours=5, minutes=6, seconds=7, microseconds=8), D(hours=12), D(hours=12, minutes=-721), D(seconds=3600, minutes=-60)]
    for a in literal:
        for kind in (0, 1):
            ops.append((kind, a))
    styles = 7
    for i, tot in enumerate(SC_TOTALS):
        for st in range(styles):
            a = _split_total(rnd, tot, st)
            ops.append((0, a))
            if (i + st) % 2:
                ops.append((1, a))
        ops.append((0, _with_ym(rnd, _split_total(rnd, tot, i % styles), 0, True)))      # native value kept, class components shifted by a year/month part
        ops.append((0, _with_ym(rnd, _split_total(rnd, tot, (i + 3) % styles), 0, False)))
        ops.append((1, _with_ym(rnd, _split_total(rnd, tot, (i + 1) % styles), 1, False)))  # AbsoluteDuration ignores years/months in its native value
    for _ in range(700 * (6 if big else 1)):
        tot = _rand_total(rnd)
        a = _split_total(rnd, tot, rnd.randrange(styles))
        kind = 0 if rnd.random() < 0.65 else 1
        r = rnd.random()
        if r < 0.25:
            a = _with_ym(rnd, a, kind, True)
        elif r < 0.35:
            a = _with_ym(rnd, a, kind, False)
        ops.append((kind, a))
    ops += [(3, a) for j, (k, a) in enumerate(ops) if j % 5 == 0 and a[7] == 0 and a[8] == 0]
    ops = [(k, a) for k, a in ops if abs(_dur_native(k, a)) < SPAN_LIMIT and abs(_dur_native(1, a)) < SPAN_LIMIT]
    # Intervals: (variant, start, end, absolute)
    ivs = []
    base = [0, 10**6 * 86400 * 18262 + 12 * 3600 * 10**6, 951782400 * 10**6 + 86399999999, -86400 * 10**6 * 3653 + 1, 1583020800 * 10**6 - 1]   # 1970, 2020-01-01T12, 2000-02-29, 1960, 2020-02-29/03-01
    for i, tot in enumerate(SC_TOTALS):
        if abs(tot) >= SPAN_LIMIT:
            continue
        for j in range(2):
            s0 = base[(i + j) % len(base)]
            ivs.append(((i + 3 * j) % IVL_VARIANTS, s0, s0 + tot, (i + j) % 2))
        ivs.append((i % 4, base[i % len(base)] - tot, base[i % len(base)], 1))
    for _ in range(500 * (6 if big else 1)):
        tot = _rand_total(rnd)
        s0 = rnd.choice(base) if rnd.random() < 0.3 else rnd.randrange(-40 * 365 * DAY, 60 * 365 * DAY)
        ivs.append((rnd.randrange(IVL_VARIANTS), s0, s0 + tot, rnd.randrange(2)))
    out = []
    for i, (kind, a) in enumerate(ops):
        t = B_TOD[(i * 5) % len(B_TOD)] if i % 3 else rtod()
        for fn in OPERAND_FNS[:4]:
            out.append({"stream": "subclass-operand", "fn": fn, "args": [t, kind, *a]})
        if i % 4 == 0:
            out.append({"stream": "subclass-operand", "fn": "sc_op_radd", "args": [t, kind, *a]})
            out.append({"stream": "subclass-operand", "fn": "sc_op_rsub", "args": [t, kind, *a]})
        out.append({"stream": "subclass-operand-accessors", "fn": "sc_observe", "args": [kind, *a]})
    for i, (v, s0, e0, ab) in enumerate(ivs):
        if v == 6:       # Date endpoints: whole days
            s0, e0 = s0 // DAY * DAY, e0 // DAY * DAY
        t = B_TOD[(i * 7) % len(B_TOD)] if i % 3 else rtod()
        for fn in OPERAND_FNS[:4]:
            out.append({"stream": "interval-operand", "fn": fn, "args": [t, 2, v, s0, e0, ab]})
        if i % 4 == 0:
            out.append({"stream": "interval-operand", "fn": "sc_op_radd", "args": [t, 2, v, s0, e0, ab]})
            out.append({"stream": "interval-operand", "fn": "sc_op_rsub", "args": [t, 2, v, s0, e0, ab]})
        out.append({"stream": "subclass-operand-accessors", "fn": "sc_observe", "args": [2, v, s0, e0, ab]})
    return out


def _ivl_delta(a):
    """span in microseconds of the Interval described by (variant, start, end, absolute): end - start, its magnitude when absolute
    (variants 3 = `end - start` and 7 = `start - end` build a signed Interval whatever the flag)"""
    v, s0, e0, ab = a
    if v == 7:
        return s0 - e0
    d = e0 - s0
    return abs(d) if (ab and v != 3) else d


def cases(tier, seed):
    rnd = random.Random(seed * 1000003 + 20)
    big = tier == "thorough"
    n = 50 if big else 3
    out = []
    rtod = lambda: rnd.choice(B_TOD) if rnd.random() < 0.3 else rnd.randrange(0, DAY)
    amounts = _amount_boundaries()
    tods = B_TOD if big else [0, 1, 999999, 3723 * 10**6 + 500, 12 * 3600 * 10**6, 86399 * 10**6, DAY - 1]
    for t in tods:
        for a in amounts:
            out.append({"stream": "add-boundary", "fn": "add", "args": [t, *a]})
            out.append({"stream": "subtract-boundary", "fn": "subtract", "args": [t, *a]})
    for _ in range(6000 * n):
        out.append({"stream": "add-random", "fn": "add", "args": [rtod(), *_rand_amount(rnd)]})
    for _ in range(3000 * n):
        out.append({"stream": "subtract-random", "fn": "subtract", "args": [rtod(), *_rand_amount(rnd)]})
    for t in [0, 1, DAY - 1, 12 * 3600 * 10**6] + [rtod() for _ in range(8 * n)]:
        for a in _range_edges(rnd, t):
            out.append({"stream": "add-range-edge", "fn": "add", "args": [t, *a]})
            out.append({"stream": "subtract-range-edge", "fn": "subtract", "args": [t, *(-x for x in a)]})
    for a in [(10**30, 0, 0, 0), (0, 0, 0, -10**30), (10**320, 0, 0, 0), (0, 0, -10**320, 0), (10**30, -60 * 10**30, 0, 5), (2**31, 0, 0, 0),
              (0, 0, 2**63, 0), (24 * 10**9, -1440 * 10**9 + 1, 0, 0), (-24 * 10**9, 1440 * 10**9, 0, -1)]:
        out.append({"stream": "add-huge", "fn": "add", "args": [rnd.choice(B_TOD), *a]})
        out.append({"stream": "add-huge", "fn": "subtract", "args": [rnd.choice(B_TOD), *a]})
    # subtract undoes add
    for t in tods:
        for a in amounts[::3]:
            out.append({"stream": "add-then-subtract", "fn": "add_sub", "args": [t, *a]})
    for _ in range(3000 * n):
        out.append({"stream": "add-then-subtract", "fn": "add_sub", "args": [rtod(), *_rand_amount(rnd)]})
    # timedeltas: raw constructor arguments; normal form days in -2..2
    tds = []
    for d in (-2, -1, 0, 1, 2):
        for s in (0, 1, 59, 3600, 86399, 86400, -1, -86399, -86400, -86401, 2 * 86400):
            for us in (0, 1, 999999, 10**6, -1, -999999, -10**6, DAY, -DAY):
                tds.append((d, s, us))
    for _ in range(600 * n):
        tds.append((rnd.randrange(-2, 3), rnd.randrange(-2 * 86400, 2 * 86400), rnd.randrange(-2 * DAY, 2 * DAY)))
    for _ in range(300 * n):   # normal form has days == 0 exactly
        u = rnd.randrange(0, DAY)
        d = rnd.randrange(-3, 4)
        s = rnd.randrange(-86400, 86400)
        tds.append((d, s, u - (d * 86400 + s) * 10**6))
    for i, td in enumerate(tds):
        for fn in ("add_timedelta", "subtract_timedelta", "op_add_td", "op_sub_td"):
            out.append({"stream": "timedelta", "fn": fn, "args": [B_TOD[(i * 7 + len(fn)) % len(B_TOD)] if i % 3 else rtod(), *td]})
        out.append({"stream": "timedelta-normal-form", "fn": "td_spec", "args": list(td)})
    # differences
    pairs = [(a, b) for a in B_TOD for b in B_TOD]
    for _ in range(1500 * n):
        a = rtod()
        k = rnd.randrange(4)
        b = rtod() if k == 0 else min(DAY - 1, max(0, a + rnd.randrange(-2 * 10**6, 2 * 10**6))) if k == 1 else \
            (a // 10**6 * 10**6 + rnd.randrange(0, 10**6)) if k == 2 else (rnd.randrange(0, 86400) * 10**6 + a % 10**6)
        pairs.append((a, b))
    for a, b in pairs:
        for ab in (0, 1):
            out.append({"stream": "diff", "fn": "diff", "args": [a, b, ab]})
    for i, (a, b) in enumerate(pairs):
        out.append({"stream": "time-minus-time", "fn": "op_sub_time", "args": [a, b, i % 3]})
    # the public component fields of the returned Duration (oracle-only: the Duration constructor is C09's model); sub-second
    # differences of either sign are the sensitive region (sign taken from truncated seconds, borrowed microseconds, ...)
    for i, (a, b) in enumerate(pairs):
        out.append({"stream": "diff-fields", "fn": "diff_fields", "args": [a, b, i % 4]})
    # closest / farthest
    sub = B_TOD if big else B_TOD[::2]
    triples = [(t, a, b) for t in sub for a in sub for b in sub]
    for _ in range(2500 * n):
        t = rtod()
        k = rnd.randrange(4)
        if k == 0:
            a, b = rtod(), rtod()
        elif k == 1:   # sub-second distances
            a, b = (min(DAY - 1, max(0, t + rnd.randrange(-1500000, 1500000))) for _ in range(2))
        elif k == 2:   # same microsecond field everywhere (the region where the current code is right)
            a, b = (rnd.randrange(0, 86400) * 10**6 + t % 10**6 for _ in range(2))
        else:          # equal true distances on both sides
            d = rnd.randrange(0, min(t, DAY - 1 - t) + 1)
            a, b = t - d, t + d
        triples.append((t, a, b))
    for tr in triples:
        out.append({"stream": "closest", "fn": "closest", "args": list(tr)})
        out.append({"stream": "farthest", "fn": "farthest", "args": list(tr)})
    # the carry normalisation observed directly (helpers.timedelta is replaced by a recorder inside the implementation run)
    for a in amounts:
        out.append({"stream": "add_duration-normalisation", "fn": "norm", "args": [0, *a]})
    for _ in range(3000 * n):
        out.append({"stream": "add_duration-normalisation", "fn": "norm", "args": [rnd.randrange(-5, 6), *_rand_amount(rnd)]})
    for v in range(12):
        out.append({"stream": "guards", "fn": "guard", "args": [v, rtod(), rtod()]})
    # timedelta subclasses handed to + / - / add_timedelta / subtract_timedelta (own generator: the streams above are unchanged)
    rnd2 = random.Random(seed * 1000003 + 2020)
    out += _operand_cases(rnd2, big, lambda: rnd2.choice(B_TOD) if rnd2.random() < 0.3 else rnd2.randrange(0, DAY))
    return out


def search_cases(seed):
    return cases("thorough", seed + 1)


def nontrivial(c):
    return True


# ----------------------------------------------------------------------------- implementation side
def _tod_of(t):
    return ((t.hour * 60 + t.minute) * 60 + t.second) * 10**6 + t.microsecond


def _dur(d):
    from datetime import timedelta
    native = (timedelta.days.__get__(d) * 86400 + timedelta.seconds.__get__(d)) * 10**6 + timedelta.microseconds.__get__(d)
    return [round(d.total_seconds() * 10**6), native, d.in_seconds()]


def impl_run(cases):
    import datetime
    from datetime import timedelta
    import pendulum
    from pendulum import helpers as H
    from pendulum.duration import AbsoluteDuration, Duration
    T = pendulum.Time
    names = {"TypeError": "TypeError", "OverflowError": "OverflowError"}

    def time_res(r):
        return [0, _tod_of(r), int(type(r) is T and r.tzinfo is None)]
    out = []
    for c in cases:
        fn, a = c["fn"], c["args"]
        try:
            if fn in ("add", "subtract"):
                t = T(*_fields(a[0]))
                out.append(time_res(getattr(t, fn)(hours=a[1], minutes=a[2], seconds=a[3], microseconds=a[4])))
            elif fn == "add_sub":
                t = T(*_fields(a[0]))
                r1 = t.add(hours=a[1], minutes=a[2], seconds=a[3], microseconds=a[4])
                try:
                    r2 = r1.subtract(hours=a[1], minutes=a[2], seconds=a[3], microseconds=a[4])
                    out.append([0, _tod_of(r1), _tod_of(r2)])
                except OverflowError:
                    out.append([0, _tod_of(r1), -1])
            elif fn in ("add_timedelta", "subtract_timedelta", "op_add_td", "op_sub_td"):
                t = T(*_fields(a[0]))
                td = timedelta(days=a[1], seconds=a[2], microseconds=a[3])
                r = t.add_timedelta(td) if fn == "add_timedelta" else t.subtract_timedelta(td) if fn == "subtract_timedelta" else \
                    t + td if fn == "op_add_td" else t - td
                out.append(time_res(r))
            elif fn == "td_spec":
                out.append([0])
            elif fn in OPERAND_FNS:
                t = T(*_fields(a[0]))
                d = _build_operand(a[1:], pendulum, datetime)
                r = t.add_timedelta(d) if fn == "sc_add_timedelta" else t.subtract_timedelta(d) if fn == "sc_subtract_timedelta" else \
                    t + d if fn == "sc_op_add" else t - d if fn == "sc_op_sub" else d + t if fn == "sc_op_radd" else d - t
                out.append(time_res(r))
            elif fn == "sc_observe":
                d = _build_operand(a, pendulum, datetime)
                out.append([0, d.days, d.seconds, d.microseconds,
                            timedelta.days.__get__(d), timedelta.seconds.__get__(d), timedelta.microseconds.__get__(d),
                            int(type(d) is (Duration, AbsoluteDuration, pendulum.Interval, _plain_subclass(datetime))[a[0]])])
            elif fn == "diff":
                t1, t2 = T(*_fields(a[0])), T(*_fields(a[1]))
                d = t1.diff(t2, bool(a[2]))
                cls_ok = type(d) is (AbsoluteDuration if a[2] else Duration)
                out.append([0] + _dur(d) + [int(cls_ok)])
            elif fn == "diff_fields":
                v = a[2]
                t1, t2 = T(*_fields(a[0])), T(*_fields(a[1]))
                d = t1.diff(t2, False) if v == 0 else t1.diff(t2, True) if v == 1 else (t2 - t1) if v == 2 else (datetime.time(*_fields(a[1])) - t1)
                out.append([0, d.years, d.months, d.weeks, d.remaining_days, d.hours, d.minutes, d.remaining_seconds, d.microseconds])
            elif fn == "op_sub_time":
                v = a[2]
                me = T(*_fields(a[0]))
                if v == 0:
                    d = me - T(*_fields(a[1]))
                elif v == 1:
                    d = me - datetime.time(*_fields(a[1]))
                else:
                    d = datetime.time(*_fields(a[1])) - me
                out.append([0, _dur(d)[0], int(type(d) is Duration)])
            elif fn in ("closest", "farthest"):
                t, x, y = (T(*_fields(v)) for v in a)
                if (a[0] + a[1]) % 2:   # a datetime.time operand is accepted as well
                    x = datetime.time(*_fields(a[1]))
                r = getattr(t, fn)(x, y)
                out.append([0, _tod_of(r), int(type(r) is T)])
            elif fn == "norm":
                rec = []
                real = H.timedelta

                def spy(**kw):
                    rec.append(kw)
                    return real(0)
                H.timedelta = spy
                try:
                    H.add_duration(datetime.datetime(1970, 1, 1), days=a[0], hours=a[1], minutes=a[2], seconds=a[3], microseconds=a[4])
                finally:
                    H.timedelta = real
                kw = rec[0]
                out.append([0, kw["days"], kw["hours"], kw["minutes"], kw["seconds"], kw["microseconds"]])
            elif fn == "guard":
                out.append(_guard(a, T, pendulum, datetime, timedelta))
            else:
                out.append([9])
        except Exception as e:  # noqa
            out.append([1, type(e).__name__])
    return out


_SUBCLASS = []


def _plain_subclass(datetime):
    if not _SUBCLASS:
        _SUBCLASS.append(type("PlainDelta", (datetime.timedelta,), {}))
    return _SUBCLASS[0]


def _build_operand(a, pendulum, datetime):
    """the timedelta-subclass object described by a = [kind, ...] (see OPERAND_FNS); runs inside the staged interpreter"""
    from pendulum.duration import AbsoluteDuration, Duration
    kind = a[0]
    if kind == 0:
        return Duration(*a[1:10])
    if kind == 1:
        return AbsoluteDuration(*a[1:10])
    if kind == 3:
        return _plain_subclass(datetime)(*a[1:8])
    v, s0, e0, ab = a[1:5]
    E = datetime.datetime(1970, 1, 1)

    def f(x, off=0):
        z = E + datetime.timedelta(microseconds=x + off * 10**6)
        return (z.year, z.month, z.day, z.hour, z.minute, z.second, z.microsecond)
    P = lambda x: pendulum.datetime(*f(x))                         # UTC
    if v == 0:
        return pendulum.Interval(P(s0), P(e0), absolute=bool(ab))
    if v == 1:
        return pendulum.Interval(pendulum.naive(*f(s0)), pendulum.naive(*f(e0)), absolute=bool(ab))
    if v == 2:
        return pendulum.Interval(datetime.datetime(*f(s0)), datetime.datetime(*f(e0)), absolute=bool(ab))
    if v == 3:
        return P(e0) - P(s0)
    if v == 4:
        return P(s0).diff(P(e0), bool(ab))
    if v == 5:          # the same instants, the start presented in a fixed +05:30 zone
        return pendulum.Interval(pendulum.datetime(*f(s0, 19800), tz=pendulum.FixedTimezone(19800)), P(e0), absolute=bool(ab))
    if v == 6:
        return pendulum.Interval(pendulum.date(*f(s0)[:3]), pendulum.date(*f(e0)[:3]), absolute=bool(ab))
    return P(s0) - datetime.datetime(*f(e0), tzinfo=datetime.timezone.utc)


def _guard(a, T, pendulum, datetime, timedelta):
    """small behaviours around the operators; result [0, code] with code 1 = as the property expects."""
    v, x, y = a
    t, u = T(*_fields(x)), T(*_fields(y))

    def raises(f, exc):
        try:
            f()
        except exc:
            return 1
        except Exception:  # noqa
            return 0
        return 0
    aware = datetime.time(*_fields(y), tzinfo=datetime.timezone.utc)
    if v == 0:
        return [0, raises(lambda: t - aware, TypeError)]
    if v == 1:
        return [0, raises(lambda: aware - t, TypeError)]
    if v == 2:
        return [0, raises(lambda: t + 5, TypeError)]
    if v == 3:
        return [0, raises(lambda: t - 5, TypeError)]
    if v == 4:
        return [0, raises(lambda: timedelta(hours=1) + t, TypeError)]
    if v == 5:
        return [0, raises(lambda: timedelta(hours=1) - t, TypeError)]
    if v == 6:   # an aware Time: the arithmetic is on the fields, the result is a Time
        r = T(*_fields(x), tzinfo=pendulum.UTC).add(hours=25, microseconds=-1)
        return [0, int(type(r) is T and _tod_of(r) == (x + 3600 * 10**6 - 1) % DAY)]
    if v == 7:
        return [0, int(t.add() == t and t.subtract() == t and type(t.add()) is T)]
    if v == 8:   # Time subclass of datetime.time: diff accepts a datetime.time
        d = t.diff(datetime.time(*_fields(y)), False)
        return [0, int(type(d) is pendulum.Duration)]
    if v == 9:
        return [0, int((t + timedelta(0)) == t and (t - timedelta(0)) == t)]
    if v == 10:
        return [0, raises(lambda: t.add_timedelta(timedelta(days=-1, seconds=86399, microseconds=999999)), TypeError)]
    return [0, int(u.closest(t, t) == t and u.farthest(t, t) == t)]


# ----------------------------------------------------------------------------- model side
EXN = {2: "TypeError", 3: "OverflowError"}


def model_calls(c, backend):
    fn, a = c["fn"], c["args"]
    if fn == "add":
        return [("time_add", a)]
    if fn == "subtract":
        return [("time_subtract", a)]
    if fn == "add_sub":
        return [("time_add", a), ("time_add_then_subtract", a)]
    if fn in ("add_timedelta", "op_add_td"):
        return [("time_add_timedelta", a)]
    if fn in ("subtract_timedelta", "op_sub_td"):
        return [("time_subtract_timedelta", a)]
    if fn == "td_spec":
        return [("td_make", a)]
    if fn in OPERAND_FNS or fn == "sc_observe":
        if fn in ("sc_op_radd", "sc_op_rsub"):
            return None                       # timedelta + Time, timedelta - Time: only the oracle speaks (no reflected operator in the model)
        head, o = ([a[0]], a[1:]) if fn != "sc_observe" else ([], a)
        if o[0] == 3:                         # nothing overridden: the plain-timedelta entries
            tot = _dur_native(1, o[1:10])
            if fn == "sc_observe":
                return [("td_make", [0, 0, tot])]
            return [("time_add_timedelta" if fn in ("sc_add_timedelta", "sc_op_add") else "time_subtract_timedelta", [a[0], 0, 0, tot])]
        nine = list(o[1:10]) if o[0] != 2 else [_ivl_delta(o[1:5])] + [0] * 8
        name = {"sc_add_timedelta": "time_add_operand", "sc_op_add": "time_add_operand", "sc_subtract_timedelta": "time_subtract_operand",
                "sc_op_sub": "time_subtract_operand", "sc_observe": "operand_observe"}[fn]
        return [(name, head + [o[0]] + nine)]
    if fn == "diff":
        return [("time_diff", a)]
    if fn == "op_sub_time":
        return [("time_op_rsub" if a[2] == 2 else "time_op_sub", a[:2]), ("time_fields", [a[0]])]
    if fn == "closest":
        return [("time_closest", a)]
    if fn == "farthest":
        return [("time_farthest", a)]
    if fn == "norm":
        return [("add_duration_norm", a)]
    return None


def _mres(o):
    return [1, EXN.get(o[1], f"exn{o[1]}")] if o[0] == 1 else list(o)


def model_result(c, backend, outs):
    fn, a = c["fn"], c["args"]
    if fn == "add_sub":
        first, both = outs
        if first[0] == 1:
            return _mres(first)
        if both[0] == 1:          # the add succeeded, the subtract raised
            return [0, first[1], -1] if both[1] == 3 else _mres(both)
        return list(both)
    if fn == "td_spec":
        from datetime import timedelta
        td = timedelta(days=a[0], seconds=a[1], microseconds=a[2])
        return [0] if outs[0] == [0, td.days, td.seconds, td.microseconds] else [7] + outs[0]
    if fn == "diff":
        return list(outs[0]) + [1]
    if fn == "op_sub_time":
        if outs[1] != [0, *_fields(a[0]), a[0]]:      # the field split used by the harness and the model agree
            return [7] + outs[1]
        return list(outs[0]) + [1]
    if fn in ("closest", "farthest"):
        return list(outs[0]) + [1]
    if fn == "sc_observe":
        if a[0] == 3:
            return [0] + list(outs[0][1:]) * 2 + [1]
        return _mres(outs[0]) + ([1] if outs[0][0] == 0 else [])
    return _mres(outs[0])


def same(c, m, r):
    return m == r


# ----------------------------------------------------------------------------- the property itself (integers + datetime.time/timedelta)
def _expected_shift(tod, amount):
    """(tod + amount) mod 24h as a datetime.time, or 'OverflowError' when 1970-01-01 + tod + amount leaves 0001..9999."""
    import datetime
    w = EPOCH_WALL + tod + amount
    if not (0 <= w <= MAX_WALL):
        return "OverflowError"
    r = (tod + amount) % DAY
    # the same through the standard library (timedelta is exact on integers)
    dt = datetime.datetime(1970, 1, 1) + datetime.timedelta(microseconds=tod + amount)
    assert _tod_of(dt.time()) == r
    return r


def _operand_expect(o):
    """(has a day component, total in microseconds, description) of the operand o = [kind, ...], standard library only.
    Duration / AbsoluteDuration: the timedelta value they ARE (years * 365 + months * 30 days counted by Duration, ignored by AbsoluteDuration),
    day component = days of its normal form != 0, exactly as for a plain timedelta.  Interval: it presents itself in sign-magnitude form
    (Interval.days is overridden), day component = |span| >= 24 h, and a shorter span of EITHER sign shifts exactly."""
    from datetime import timedelta
    kind = o[0]
    if kind in (0, 1, 3):
        d, s, us, ms, mi, h, w, y, mo = o[1:10]
        td = timedelta(days=d + (365 * y + 30 * mo if kind == 0 else 0), seconds=s, microseconds=us, milliseconds=ms, minutes=mi, hours=h, weeks=w)
        assert (td.days * 86400 + td.seconds) * 10**6 + td.microseconds == _dur_native(kind, o[1:10])
        kw = ", ".join(f"{k}={v}" for k, v in zip(("days", "seconds", "microseconds", "milliseconds", "minutes", "hours", "weeks", "years", "months"), o[1:10]) if v)
        return td.days != 0, td.seconds * 10**6 + td.microseconds, f"{('Duration', 'AbsoluteDuration', '', 'PlainDelta(timedelta)')[kind]}({kw}) [= {td!r}]"
    delta = _ivl_delta(o[1:5])
    how = ("Interval(utc, utc)", "Interval(naive, naive)", "Interval(datetime, datetime)", "end - start", "start.diff(end)", "Interval(+05:30, utc)",
           "Interval(date, date)", "start - stdlib end")[o[1]]
    return abs(delta) >= DAY, delta, f"{how} start={o[2]} end={o[3]} absolute={o[4]} [span {delta} us = {timedelta(microseconds=delta)!r}]"


def oracle(c, backend, r):
    from datetime import timedelta
    fn, a = c["fn"], c["args"]
    if fn in ("add", "subtract"):
        amount = _total(*a[1:]) * (1 if fn == "add" else -1)
        e = _expected_shift(a[0], amount)
        exp = [1, e] if isinstance(e, str) else [0, e, 1]
        return None if r == exp else f"Time{_fields(a[0])}.{fn}{tuple(a[1:])} -> {r}, expected {exp} (time of day + amount mod 24 h)"
    if fn == "add_sub":
        amount = _total(*a[1:])
        e = _expected_shift(a[0], amount)
        if isinstance(e, str):
            return None if r == [1, e] else f"add out of range: {r}"
        back = _expected_shift(e, -amount)
        exp = [0, e, -1] if isinstance(back, str) else [0, e, a[0]]
        return None if r == exp else f"Time{_fields(a[0])}.add{tuple(a[1:])}.subtract(same) -> {r}, expected {exp}"
    if fn in ("add_timedelta", "subtract_timedelta", "op_add_td", "op_sub_td"):
        td = timedelta(days=a[1], seconds=a[2], microseconds=a[3])
        if td.days != 0:
            return None if r == [1, "TypeError"] else f"timedelta with days={td.days} was not rejected: {r}"
        amount = td.seconds * 10**6 + td.microseconds
        e = _expected_shift(a[0], amount if fn in ("add_timedelta", "op_add_td") else -amount)
        return None if r == [0, e, 1] else f"Time{_fields(a[0])} {fn} {td!r} -> {r}, expected {[0, e, 1]}"
    if fn in OPERAND_FNS:
        has_days, total, what = _operand_expect(a[1:])
        sign = -1 if fn in ("sc_subtract_timedelta", "sc_op_sub") else 1
        how = {"sc_add_timedelta": "t.add_timedelta(x)", "sc_subtract_timedelta": "t.subtract_timedelta(x)", "sc_op_add": "t + x", "sc_op_sub": "t - x", "sc_op_radd": "x + t", "sc_op_rsub": "x - t"}[fn]
        if fn == "sc_op_rsub":               # a duration minus a time of day means nothing
            return None if r == [1, "TypeError"] else f"x = {what}: x - Time{_fields(a[0])} was not rejected with TypeError: {r}"
        if fn == "sc_op_radd" and r == [1, "TypeError"]:
            return None                      # timedelta + Time is not offered at all
        if has_days:
            return None if r == [1, "TypeError"] else f"t = Time{_fields(a[0])}, x = {what} has a day component: {how} was not rejected with TypeError: {r}"
        e = _expected_shift(a[0], sign * total)
        return None if r == [0, e, 1] else f"t = Time{_fields(a[0])}, x = {what} (no day component, {total} us): {how} -> {r}, expected {[0, e, 1]} (exact shift modulo 24 h)"
    if fn == "sc_observe":
        _, _, what = _operand_expect(a)
        tot = _dur_native(0 if a[0] == 0 else 1, a[1:10]) if a[0] != 2 else _ivl_delta(a[1:5])
        td = timedelta(microseconds=tot)
        if r[0] != 0:
            return f"{what} could not be built: {r}"
        if r[4:7] != [td.days, td.seconds, td.microseconds] or r[7] != 1:
            return f"{what}: the native timedelta fields are {r[4:7]} (class ok: {r[7]}), the value is {tot} us = {[td.days, td.seconds, td.microseconds]}"
        return None
    if fn == "td_spec":
        return None
    if fn == "diff":
        d = a[1] - a[0]
        if a[2]:
            d = abs(d)
        if r[0] != 0:
            return f"diff raised {r}"
        if r[1] != d or r[3] != abs(d) // 10**6 * (1 if d >= 0 else -1):
            return f"Time{_fields(a[0])}.diff(Time{_fields(a[1])}, abs={bool(a[2])}) totals {r[1]} us (in_seconds {r[3]}), expected {d} us"
        if a[2] and r[1] < 0:
            return "abs=True returned a negative total"
        return None if r[4] == 1 else "wrong Duration class"
    if fn == "diff_fields":
        d = a[1] - a[0]
        if a[2] == 1:
            d = abs(d)
        if r[0] != 0:
            return f"diff raised {r}"
        sg = -1 if d < 0 else 1
        m = abs(d)
        exp = [0, 0, 0, 0, 0, sg * (m // 3600000000), sg * (m // 60000000 % 60), sg * (m // 1000000 % 60), sg * (m % 1000000)]
        if r != exp:
            return (f"variant {a[2]}: Time{_fields(a[0])} vs Time{_fields(a[1])}: the Duration reports [years, months, weeks, remaining_days, hours, "
                    f"minutes, remaining_seconds, microseconds] = {r[1:]}, the signed difference {d} us is {exp[1:]}")
        return None
    if fn == "op_sub_time":
        d = (a[0] - a[1]) if a[2] != 2 else (a[1] - a[0])
        if r[0] != 0:
            return f"time - time raised {r}"
        return None if r == [0, d, 1] else f"variant {a[2]}: {_fields(a[0])} / {_fields(a[1])} -> {r[1:]} us, expected {d} us"
    if fn in ("closest", "farthest"):
        da, db = abs(a[1] - a[0]), abs(a[2] - a[0])
        if r[0] != 0 or r[2] != 1:
            return f"{fn} -> {r}"
        if da == db:
            ok = r[1] in (a[1], a[2])
        elif fn == "closest":
            ok = r[1] == (a[1] if da < db else a[2])
        else:
            ok = r[1] == (a[1] if da > db else a[2])
        return None if ok else f"Time{_fields(a[0])}.{fn}(Time{_fields(a[1])}, Time{_fields(a[2])}) chose {_fields(r[1])}; distances are {da} us and {db} us"
    if fn == "norm":
        if r[0] != 0:
            return f"add_duration raised {r}"
        d, h, m, s, us = r[1:]
        tot_in = a[0] * 24 * 3600 * 10**6 + _total(*a[1:])
        tot_out = d * 24 * 3600 * 10**6 + _total(h, m, s, us)
        if tot_in != tot_out:
            return f"add_duration normalisation changed the total: {a} -> {r[1:]}"
        if abs(us) > 999999 or abs(s) > 59 or abs(m) > 59 or abs(h) > 23:
            return f"add_duration normalisation left a unit out of range: {a} -> {r[1:]}"
        return None
    if fn == "guard":
        return None if r == [0, 1] else f"guard variant {a[0]}: {r}"
    return None


def known(c, backend, r):
    fn, a = c["fn"], c["args"]
    trunc = lambda t: t // 10**6 * 10**6
    if fn in ("diff", "op_sub_time") and r and r[0] == 0 and a[0] % 10**6 != a[1] % 10**6:
        # Time.diff drops the microsecond fields: what comes back is exactly the difference of the whole-second parts
        if fn == "diff":
            d = trunc(a[1]) - trunc(a[0])
            if r[1] == (abs(d) if a[2] else d):
                return "diff-drops-microseconds"
        else:
            d = (trunc(a[0]) - trunc(a[1])) if a[2] != 2 else (trunc(a[1]) - trunc(a[0]))
            if r[1] == d:
                return "diff-drops-microseconds"
    if fn in ("closest", "farthest") and r and r[0] == 0 and not (a[0] % 10**6 == a[1] % 10**6 == a[2] % 10**6):
        # closest/farthest compare whole seconds of the (truncated) differences; ties go to the second argument
        sa, sb = abs(trunc(a[1]) - trunc(a[0])) // 10**6, abs(trunc(a[2]) - trunc(a[0])) // 10**6
        pick = a[1] if (sa < sb if fn == "closest" else sa > sb) else a[2]
        if r[1] == pick:
            return "closest-compares-whole-seconds"
    return None


LEVEL_TEXT = ("Machine-checked Coq theorems, for all integers: helpers.add_duration's sign-aware carry normalisation (translated from /repo on every run) "
              "preserves the total and bounds every unit; Time.add/subtract equal (time of day + total) mod 24 h exactly whenever 1970-01-01 + time + total "
              "lies in 0001..9999 and raise OverflowError otherwise; subtract undoes add; a timedelta whose normal form has days != 0 (incl. every negative "
              "sub-day delta) is rejected with TypeError, days = 0 shifts modulo 24 h; diff / t2 - t1 is the signed microsecond difference of the times of day "
              "(magnitude with abs), closest/farthest choose by that distance (both proved in full after the two fix: commits in /repo). Three-way correspondence (implementation in both backends / extracted "
              "model / integer+stdlib oracle) on a boundary-heavy seeded stream.")
DESIGN_REF = "DESIGN.md section 4 C20"
LEVEL_NOTE = ("Trusted: Coq kernel+VM, the Python->Gallina translator and the statement selection in g70_time.py, the hand-written glue of Model/TimeOfDay.v "
              "(UTC datetime + timedelta as integer wall-clock arithmetic with the 0001..9999 range check; timedelta normal form), extraction+driver (cross-checked "
              "with vm_compute). Two genuine defects were repaired by fix: commits (Time.diff dropped the microsecond fields; closest/farthest compared whole seconds); "
              "they are listed as fixed and are reported again as violations if they return.")
TECHNIQUE = "Coq proof (lia with Euclidean division) over translated code + differential correspondence for the hand-written glue"


# timedelta subclass operands
TRUSTED = list(TRUSTED) + [
    "coq/Model/TimeOperand.v: which accessors of a Duration / AbsoluteDuration / Interval the Time methods see (days: native slot, overridden by Interval; seconds / microseconds: the "
    "class's own components) over C09's / C10's object models (Model/Duration.v = translated duration.py, Model/DurationOps.interval_new) — tied by correspondence on the "
    "subclass-operand / interval-operand / subclass-operand-accessors streams; the span of an Interval (end - start, magnitude when absolute) is computed by the harness (C05's subject)",
    "Flocq correctness theorems and the standard-library real-number axioms reported by Print Assumptions for duration_operand_spec / absolute_duration_operand_spec / interval_operand_spec only "
    "(ClassicalDedekindReals.sig_not_dec, ClassicalDedekindReals.sig_forall_dec, FunctionalExtensionality.functional_extensionality_dep, Classical_Prop.classic: exactness of Duration.__new__'s float "
    "normalisation, Proofs/FloatRoundTripC09.v); every other C20 theorem is closed under the global context",
]
LEVEL_NOTE = LEVEL_NOTE + (" timedelta SUBCLASS operands are inside the Coq model (Model/TimeOperand.v, dispatch 14-16, theorems subclass_operand_days_rejected, duration_operand_spec, "
                           "absolute_duration_operand_spec, interval_operand_spec) and in the correspondence run; the reflected forms x + t / x - t are oracle-only (model_calls returns None). "
                           "Observed, not classified as a defect: Time + Interval(negative span shorter than a day) succeeds with the exact backward shift whereas the equal plain "
                           "timedelta / Duration (normal form days = -1) raises TypeError.")

# the remaining method bodies of Time are translated whole from /repo on every run and the hand model is PROVED equal to them
TRUSTED = list(TRUSTED) + [
    "tools/vlib/pyfloat2gallina.py + tools/vlib/gens/g56_time_methods.py (Time.add / subtract / add_timedelta / subtract_timedelta / diff / __add__ / __sub__ / __rsub__ translated whole, "
    "one translation of each operator per class of `other`; reading rules in the generator's docstring: DateTime.EPOCH.at(h, m, s, us).add/subtract(..).time() = the model's primitive "
    "dt_add_time (hand: helpers.add_duration's translated normalisation, native datetime + timedelta with its range check), klass(microseconds=d) = what the Duration reports (d, |d| for "
    "AbsoluteDuration), NotImplemented = E_NotImplemented; fails closed otherwise): model_is_code_time_add / _subtract / _add_timedelta / _subtract_timedelta / _diff / _operators replace the "
    "former trust in the hand assembly of Model/TimeOfDay.v (closed under the global context)",
]
LEVEL_NOTE = LEVEL_NOTE + (" Model = code: coq/Gen/TimeMethods.v is translated from src/pendulum/time.py on every run (Time.add, subtract, add_timedelta, subtract_timedelta, diff, __add__, __sub__, "
                           "__rsub__) and Proofs/TimeMethodsFacts.v proves each equal to Model/TimeOfDay.v for all arguments, so a semantic edit of a method body breaks a proof or fails closed "
                           "(self-tested by mutation). Still a model primitive: the chain DateTime.EPOCH.at(..).add(..).time() = dt_add_time (composing it from the translated glue_DateTime_at / "
                           "glue_DateTime_add of Gen/TzGlue.v is not done).")
