"""C01 — timezone conversion preserves the instant and matches the tz database."""
from __future__ import annotations

import datetime as _dt
import random

from vlib import tzcases as T
from vlib import zones

ID = "C01"
PROPS = "Props/C01.v"
RULE = ("enumerated: for ordered zone pairs (quick: 60 destination zones incl. the structurally odd ones, sources rotating; thorough: every zone as destination) every "
        "offset-changing transition of the destination (and of the source) probed at {-1us, 0, +1us, +-1s, +-|shift|} around the transition instant, via in_timezone / in_tz / "
        "astimezone / Timezone.convert; fixed offsets -23:59..+23:59; A->B->C chains; from_timestamp / int_timestamp / timestamp() round trips (integers and floats); "
        "instance() of aware natives of the kinds zoneinfo, pytz, dateutil, datetime.timezone, pendulum; random instants in years 2..9998. "
        "non-trivial = distinct (function, zones, instant).")
EXHAUSTIVE = {"quick": False, "thorough": True}
TRUSTED = ["zoneinfo.ZoneInfo and the tzdata tables are the specification side; Spec/Zone.v models zoneinfo's lookups (validated at every probe by C02's zone-spec stream and here by the oracle)",
           "CPython's datetime.astimezone protocol ((self - utcoffset).replace(tzinfo=tz) then tz.fromutc) is modelled in Model/TzConvert.v astz",
           "pytz / dateutil tzinfo objects are instantiated for real in the harness; in the model they are a source descriptor (wall, fold, utcoffset)"]
ASSUMPTIONS = ["float timestamps: only the oracle checks timestamp()/from_timestamp(float) (exact below 2^33 s); the theorem covers integer timestamps"]
KINDS = ["zoneinfo", "pytz", "dateutil", "stdtz", "pendulum"]


def _instants_around(tt, o_pre, o_post):
    sh = abs(o_post - o_pre)
    base = (tt + T.EPOCH_S) * T.MEG
    return [base - 1, base, base + 1, base - T.MEG, base + T.MEG, base - sh * T.MEG, base + sh * T.MEG, base + sh * T.MEG - 1]


def cases(tier, seed):
    rnd = random.Random(seed)
    out = []
    dsts = list(zones.names()) if tier == "thorough" else zones.pick_zones(rnd, 60)
    allz = list(zones.names())
    fixed = [0, 3600, -3600, 19800, 20700, -12600, 86340, -86340, 45 * 60, -(23 * 3600 + 59 * 60), 23 * 3600 + 59 * 60]
    via = ["in_timezone", "in_tz", "astimezone", "convert"]
    k = 0
    for dst in dsts:
        trs = T.transition_probes(dst, rnd, per_zone=None if tier == "thorough" else 30)
        for (tt, o_pre, o_post) in trs:
            src = allz[rnd.randrange(len(allz))] if k % 5 else fixed[rnd.randrange(len(fixed))]
            for U in _instants_around(tt, o_pre, o_post):
                if not (T.US_DAY * 400 < U < T.MAX_WALL - T.US_DAY * 400):
                    continue
                out.append({"stream": "dst-transition", "fn": "in_tz", "args": [src, dst, U, via[k % 4]]})
                k += 1
                if k % 7 == 0:   # the transition on the source side, a fixed or other destination
                    d2 = allz[rnd.randrange(len(allz))] if k % 2 else fixed[rnd.randrange(len(fixed))]
                    out.append({"stream": "src-transition", "fn": "in_tz", "args": [dst, d2, U, via[k % 4]]})
                if k % 11 == 0:
                    c3 = allz[rnd.randrange(len(allz))]
                    out.append({"stream": "chain", "fn": "chain", "args": [src, dst, c3, U]})
                if k % 13 == 0:
                    out.append({"stream": "timestamp", "fn": "from_ts", "args": [dst, U // T.MEG - T.EPOCH_S]})
                if k % 17 == 0:
                    out.append({"stream": "instance", "fn": "instance", "args": [KINDS[(k // 17) % 5], dst, U]})
    n_rand = 15000 if tier == "quick" else 80000
    for _ in range(n_rand):
        a, b = allz[rnd.randrange(len(allz))], allz[rnd.randrange(len(allz))]
        if rnd.random() < 0.2:
            a = fixed[rnd.randrange(len(fixed))]
        if rnd.random() < 0.2:
            b = fixed[rnd.randrange(len(fixed))]
        U = rnd.randrange(T.US_DAY * 400, T.MAX_WALL - T.US_DAY * 400)
        out.append({"stream": "random", "fn": "in_tz", "args": [a, b, U, via[rnd.randrange(4)]]})
        if rnd.random() < 0.15:
            out.append({"stream": "same-zone", "fn": "in_tz", "args": [a, a, U, via[rnd.randrange(4)]]})
        if rnd.random() < 0.2:
            out.append({"stream": "chain", "fn": "chain", "args": [a, b, allz[rnd.randrange(len(allz))], U]})
        if rnd.random() < 0.2:
            out.append({"stream": "timestamp", "fn": "from_ts", "args": [b, U // T.MEG - T.EPOCH_S]})
        if rnd.random() < 0.1:
            n = U // T.MEG - T.EPOCH_S
            if abs(n) < 2 ** 33:
                out.append({"stream": "timestamp-float", "fn": "from_ts_float", "args": [b, U - T.EPOCH_US]})
        if rnd.random() < 0.2 and isinstance(b, str):
            out.append({"stream": "instance", "fn": "instance", "args": [KINDS[rnd.randrange(5)], b, U]})
    # out-of-range conversions must raise, never wrap
    for z in ("Pacific/Kiritimati", "Pacific/Pago_Pago", 50000, -50000):
        for U in (3600 * T.MEG, T.MAX_WALL - 3600 * T.MEG):
            out.append({"stream": "range-edge", "fn": "in_tz", "args": ["UTC", z, U, "in_timezone"]})
    return out


def search_cases(seed):
    return cases("thorough", seed)[::4]


def nontrivial(c):
    return True


# ----------------------------------------------------------------------------- implementation
def _mk(pendulum, spec, U):
    """The pendulum DateTime denoting instant U in zone spec, built with the raw constructor from the stdlib's rendering."""
    W, fold, off = T.ref_render(T.ref_zone(spec), U)
    y, mo, d, h, mi, s, us = T.fields_of(W)
    return pendulum.DateTime(y, mo, d, h, mi, s, us, tzinfo=T.pzone(spec), fold=fold), W, fold


def _conv(x, dst_tz, via):
    if via == "in_timezone":
        return x.in_timezone(dst_tz)
    if via == "in_tz":
        return x.in_tz(dst_tz if not isinstance(dst_tz, str) else dst_tz)
    if via == "astimezone":
        return x.astimezone(dst_tz)
    return dst_tz.convert(x)


def impl_run(cases):
    import pendulum
    out = []
    for c in cases:
        fn, a = c["fn"], c["args"]
        try:
            if fn == "in_tz":
                src, dst, U, via = a
                x, W, fold = _mk(pendulum, src, U)
                tz = T.pzone(dst)
                r = _conv(x, tz, via)
                out.append(T.dt_result(r, tz.name))
            elif fn == "chain":
                sa, sb, sc, U = a
                x, W, fold = _mk(pendulum, sa, U)
                r1 = x.in_tz(T.pzone(sb)).in_tz(T.pzone(sc))
                r2 = x.in_tz(T.pzone(sc))
                out.append(T.dt_result(r1, T.pzone(sc).name) + T.dt_result(r2, T.pzone(sc).name) + [int(r1 == r2)])
            elif fn == "from_ts":
                spec, n = a
                tz = T.pzone(spec)
                r = pendulum.from_timestamp(n, tz=tz)
                out.append(T.dt_result(r, tz.name) + [r.int_timestamp, int(r.timestamp() == float(n))])
            elif fn == "from_ts_float":
                spec, us = a
                x = us / 10 ** 6
                tz = T.pzone(spec)
                r = pendulum.from_timestamp(x, tz=tz)
                out.append(T.dt_result(r, tz.name) + [int(r.timestamp() == x), int(r.float_timestamp == x)])
            elif fn == "instance":
                kind, name, U = a
                W, fold, off = T.ref_render(T.ref_zone(name), U)
                try:
                    nat = _native_of_kind(kind, name, W, fold, off)
                except Exception:  # noqa  (the foreign library does not know this zone name)
                    nat = None
                if nat is None or nat.tzinfo is None:
                    out.append([5])
                    continue
                r = pendulum.instance(nat)
                nat_inst = T.wall_of(nat) - T.off_s(nat) * T.MEG
                res_inst = T.wall_of(r) - T.off_s(r) * T.MEG
                out.append(T.dt_result(r) + [int(nat_inst == res_inst), int(nat_inst == U), T.off_s(nat)])
            else:
                out.append([9])
        except Exception as ex:  # noqa
            out.append(T.exn_result(ex))
    return out


def _native_of_kind(kind, name, W, fold, off):
    import zoneinfo
    y, mo, d, h, mi, s, us = T.fields_of(W)
    if kind == "zoneinfo":
        return _dt.datetime(y, mo, d, h, mi, s, us, tzinfo=zoneinfo.ZoneInfo(name), fold=fold)
    if kind == "pytz":
        import pytz
        tz = pytz.timezone(name)
        # pytz: localize with is_dst chosen so that the utcoffset is the database's for this instant
        naive = _dt.datetime(y, mo, d, h, mi, s, us)
        for is_dst in (True, False):
            cand = tz.localize(naive, is_dst=is_dst)
            if T.off_s(cand) == off:
                return cand
        return tz.localize(naive)
    if kind == "dateutil":
        from dateutil import tz as dtz
        return _dt.datetime(y, mo, d, h, mi, s, us, tzinfo=dtz.gettz(name), fold=fold)
    if kind == "stdtz":
        return _dt.datetime(y, mo, d, h, mi, s, us, tzinfo=_dt.timezone(_dt.timedelta(seconds=off)))
    import pendulum
    return _dt.datetime(y, mo, d, h, mi, s, us, tzinfo=pendulum.timezone(name), fold=fold)


# ----------------------------------------------------------------------------- model
def model_calls(c, backend):
    fn, a = c["fn"], c["args"]
    if fn == "in_tz":
        src, dst, U, via = a
        W, fold, off = T.ref_render(T.ref_zone(src), U)
        u = U // T.MEG - T.EPOCH_S
        same = 1 if src == dst else 0
        return [("in_tz", T.zone_enc(src, u - 90000, u + 90000) + T.zone_enc(dst, u - 180000, u + 180000) + [same, W, fold])]
    if fn == "from_ts":
        spec, n = a
        isutc = 1 if spec == "UTC" else 0
        enc = T.zone_enc(spec, n - 180000, n + 180000)
        return [("from_timestamp_int", enc + [isutc, n])]
    if fn == "instance":
        kind, name, U = a
        if kind in ("pytz", "zoneinfo", "pendulum"):
            W, fold, off = T.ref_render(T.ref_zone(name), U)
            u = U // T.MEG - T.EPOCH_S
            f = 0 if kind == "pytz" else fold
            return [("create", T.zone_enc(name, u - 180000, u + 180000) + [0, W, f, 0])]
    return None


def model_result(c, backend, outs):
    return outs[0]


def same(c, m, r):
    fn = c["fn"]
    if r == [5]:
        return True
    if fn == "in_tz":
        return m == r
    if fn == "from_ts":
        return m == r[:4]
    if fn == "instance":
        return m == r[:4]
    return True


# ----------------------------------------------------------------------------- the property
def oracle(c, backend, r):
    fn, a = c["fn"], c["args"]
    if fn == "in_tz":
        src, dst, U, via = a
        W, fold, off = T.ref_render(T.ref_zone(dst), U)
        if not (0 <= W <= T.MAX_WALL):
            return None if r[0] == 1 and r[1] == T.EXN["OverflowError"] else f"{via} to {dst}: result outside years 1..9999 must raise OverflowError, got {r}"
        exp = [0, W, fold, off]
        if src == dst:
            return None if r[:2] == exp[:2] and r[3] == off else f"{via} {src}->{dst} at instant {U}: got {r}, the tz database gives {exp}"
        return None if r == exp else f"{via} {src}->{dst} at instant {U}: got {r}, the tz database gives {exp}"
    if fn == "chain":
        sa, sb, sc, U = a
        W, fold, off = T.ref_render(T.ref_zone(sc), U)
        exp = [0, W, fold, off]
        if r[0] == 1:
            return None  # intermediate out of range
        if r[:4] != exp or r[4:8] != exp or r[8] != 1:
            return f"chain {sa}->{sb}->{sc} at {U}: A->B->C = {r[:4]}, A->C = {r[4:8]}, tz database {exp}"
        return None
    if fn == "from_ts":
        spec, n = a
        W, fold, off = T.ref_render(T.ref_zone(spec), (n + T.EPOCH_S) * T.MEG)
        exp = [0, W, fold, off]
        if r[0] != 0:
            return f"from_timestamp({n}, {spec}) raised {r}"
        if r[:2] != exp[:2] or r[3] != off or r[4] != n or r[5] != 1:
            return f"from_timestamp({n}, {spec}): got {r}, expected {exp} with int_timestamp {n} and timestamp() == {n}.0"
        return None
    if fn == "from_ts_float":
        spec, us = a
        if r[0] != 0:
            return f"from_timestamp(float) raised {r}"
        W, fold, off = T.ref_render(T.ref_zone(spec), us + T.EPOCH_US)
        if r[1] != W or r[3] != off or r[4] != 1 or r[5] != 1:
            return f"from_timestamp({us}/1e6, {spec}): got {r}; expected wall {W} offset {off} and timestamp() to invert it"
        return None
    if fn == "instance":
        kind, name, U = a
        if r == [5]:
            return None
        if r[0] != 0:
            return f"instance({kind}, {name}) raised {r}"
        if r[5] != 1:
            return None  # the harness could not build a native of this kind for exactly this instant (e.g. pytz far future)
        if r[4] != 1:
            return f"instance() of an aware {kind} datetime in {name} at instant {U} changed the instant (source offset {r[6]}, result offset {r[3]})"
        return None
    return None


def known(c, backend, r):
    fn, a = c["fn"], c["args"]
    if fn == "instance" and a[0] == "pytz" and r[0] == 0 and r[5] == 1 and r[4] == 0:
        # pytz second pass of a repeated wall time: fold 0 with the later (smaller) offset
        name, U = a[1], a[2]
        W, fold, off = T.ref_render(T.ref_zone(name), U)
        if fold == 1:
            return "instance-pytz-second-pass"
    if fn == "instance" and a[0] == "dateutil" and r[0] == 0 and r[5] == 1 and r[4] == 0:
        return None
    return None


LEVEL_TEXT = ("Machine-checked Coq theorems for EVERY well-formed tz table and every instant: the PEP 495 round trip render/inst, conversion keeps the instant exactly and yields the "
              "database's fields, offset and fold, A->B->C = A->C, conversions outside years 1..9999 raise (never wrap), int_timestamp inverts from_timestamp for every integer, "
              "instance() keeps the instant whenever the source's offset is the zone's reading of (wall, fold); the pytz second-pass case is proved refuted (known finding). "
              "The hand model (Model/TzConvert.v) is tied to /repo by correspondence at every transition of the destination/source zones through four entry points, both backends.")
DESIGN_REF = "DESIGN.md section 4 C01, section 3.2"
LEVEL_NOTE = ("Trusted: Coq kernel+VM; Spec/Zone.v as a model of zoneinfo and of the tzdata tables (validated per probe against zoneinfo); Model/TzConvert.v hand model of the conversion glue "
              "(correspondence); wf of real tables evaluated by C02, not proved; float timestamps only by oracle.")
TECHNIQUE = "Coq proof by induction over transition tables + differential correspondence at every tz transition"
