"""C01 — timezone conversion preserves the instant and matches the tz database."""
from __future__ import annotations

import datetime as _dt
import math
import random
from fractions import Fraction

from vlib import tzcases as T
from vlib import zones

ID = "C01"
PROPS = "Props/C01.v"
RULE = ("enumerated: for ordered zone pairs (quick: 60 destination zones incl. the structurally odd ones, sources rotating; thorough: every zone as destination) every "
        "offset-changing transition of the destination (and of the source) probed at {-1us, 0, +1us, +-1s, +-|shift|} around the transition instant, via in_timezone / in_tz / "
        "astimezone / Timezone.convert; fixed offsets -23:59..+23:59; A->B->C chains; from_timestamp / int_timestamp / timestamp() round trips (integers and floats); "
        "FLOAT timestamps (floats as float.hex(), results as exact integers): tsf-boundary = float timestamps of +-(2^k s +- j us), k <= 33, in every zone kind; tsf-transition = every probed tz transition +-{0, 1 us, 0.5 s, 1 s}; "
        "tsf-random; tsf-beyond-2-33 = 2^33 s .. year 9999 and year 1 .. -2^33 s; tsf-arbitrary-double = neighbours of microsecond values, exact halves n + j/128, carries 0.9999995.., -0.0, subnormals; tsf-range-edge = nan, inf, year 0 / 10000; "
        "instance() of aware natives of the kinds zoneinfo, pytz, dateutil, datetime.timezone, pendulum; random instants in years 2..9998. "
        "non-trivial = distinct (function, zones, instant).")
EXHAUSTIVE = {"quick": False, "thorough": True}
TRUSTED = ["zoneinfo.ZoneInfo and the tzdata tables are the specification side; Spec/Zone.v models zoneinfo's lookups (validated at every probe by C02's zone-spec stream and here by the oracle)",
           "CPython's datetime.astimezone protocol ((self - utcoffset).replace(tzinfo=tz) then tz.fromutc) is modelled in Model/TzConvert.v astz",
           "pytz / dateutil tzinfo objects are instantiated for real in the harness; in the model they are a source descriptor (wall, fold, utcoffset)",
           "Model/FloatRoutes.v from_timestamp_float / timestamp_float over Coq's SpecFloat binary64 (Spec/TdFloat.v), tied to /repo by the tsf-* correspondence streams (floats travel as exact (mantissa, exponent), both backends)",
           "the float theorems (utcfromtimestamp_float_exact, timestamp_inverts_from_timestamp_float*, from_timestamp_float_*) are proved with Flocq and depend on the axioms of Coq's classical real numbers as printed by "
           "Print Assumptions: ClassicalDedekindReals.sig_forall_dec, ClassicalDedekindReals.sig_not_dec, FunctionalExtensionality.functional_extensionality_dep, Classical_Prop.classic (no axiom of our own)"]
ASSUMPTIONS = ["float timestamps: from_timestamp(<float>) / timestamp() are modelled over SpecFloat (Model/FloatRoutes.v: CPython's pytime_double_to_denominator with ROUND_HALF_EVEN and "
               "datetime.timestamp() = (self - EPOCH).total_seconds()); the theorems cover |instant| < 2^33 s, the region up to year 9999 is covered by kernel evaluation on a family and by the tsf-beyond-2-33 stream"]
KINDS = ["zoneinfo", "pytz", "dateutil", "stdtz", "pendulum"]
B33 = 2 ** 33 * 10 ** 6      # microseconds in 2^33 s: below it total_seconds() / from_timestamp(float) are exact to the microsecond (theorem)
TS_MIN_US = -T.EPOCH_US       # 0001-01-01T00:00:00Z as a Unix timestamp in microseconds
TS_MAX_US = T.MAX_WALL - T.EPOCH_US


# ----------------------------------------------------------------------------- floats on the wire: (tag, mantissa, exponent) = TdFloat.sf_code
def fcode(x):
    x = float(x)
    if x != x:
        return [6, 0, 0]
    if x == math.inf:
        return [4, 0, 0]
    if x == -math.inf:
        return [5, 0, 0]
    if x == 0:
        return [1, 0, 0] if math.copysign(1.0, x) < 0 else [0, 0, 0]
    m, e = math.frexp(abs(x))
    m = int(m * 2 ** 53)
    e -= 53
    if e < -1074:
        m >>= (-1074 - e)
        e = -1074
    return [3 if x < 0 else 2, m, e]


def _ts_boundary_us():
    """Instants (integer microseconds since the Unix epoch) whose float timestamps are boundary cases: +-(2^k s +- j us), k <= 33."""
    out = set()
    for k in range(0, 34):
        for j in (0, 1, -1, 2, 499999, 500000, 500001, -500000, 999999, -999999):
            out.add(2 ** k * T.MEG + j)
    for u in (1, 2, 3, 499999, 500000, 500001, 999998, 999999, 1000000, 1000001, 1500000, 59999999, 60000000):
        out.add(u)
    out = {n for n in out if 0 < n < B33}
    return sorted(out | {-n for n in out} | {0})


def _ts_floats(rnd, n_rand):
    """Arbitrary doubles as float.hex(): exact halves of a microsecond (n + j/128), neighbours of microsecond values, carries 0.9999995.., tiny values."""
    xs = []
    for N in _ts_boundary_us()[::5]:
        x = N / T.MEG
        xs += [math.nextafter(x, math.inf), math.nextafter(x, -math.inf)]
    for base in (0, 1, 59, 2 ** 20, 2 ** 31 - 1, 2 ** 31, 2 ** 32, 2 ** 33 - 1, 2 ** 33, 2 ** 34, 10 ** 10, 2 ** 37):
        for j in (1, 3, 63, 64, 65, 127):
            xs += [base + j / 128.0, -(base + j / 128.0)]
    xs += [0.0, -0.0, 1e-7, -1e-7, 4.9e-7, 5e-7, -5e-7, 5.1e-7, 1.5e-6, -1.5e-6, 2.5e-6, 0.9999994, 0.9999995, 0.9999996, 0.99999951, -0.9999996, -0.9999995,
           -0.0000004, 5e-324, -5e-324, 1.9999995, 1.99999951, 2 ** 31 - 0.0000004, 0.1, 0.3, 1 / 3.0, -2 / 3.0, 1e9 + 0.1, 1e10 + 0.7, 253402300799.999, 253402300799.9999,
           -62135596800.0, -62135596799.5, -62135596800.000001]
    for _ in range(n_rand):
        k = rnd.randrange(5)
        if k == 0:
            xs.append(rnd.uniform(-100, 100))
        elif k == 1:
            xs.append(rnd.uniform(-6e10, 2.5e11))
        elif k == 2:
            xs.append(rnd.choice([1, -1]) * math.ldexp(rnd.random() + 0.5, rnd.randrange(-30, 36)))
        elif k == 3:
            xs.append(rnd.randrange(-2 ** 35, 2 ** 37) + rnd.randrange(0, 128) / 128.0)
        else:
            xs.append(rnd.randrange(-6 * 10 ** 16, 25 * 10 ** 16) / 10 ** 6)
    return [float(x).hex() for x in xs]


def _instants_around(tt, o_pre, o_post):
    sh = abs(o_post - o_pre)
    base = (tt + T.EPOCH_S) * T.MEG
    return [base - 1, base, base + 1, base - T.MEG, base + T.MEG, base - sh * T.MEG, base + sh * T.MEG, base + sh * T.MEG - 1]


def cases(tier, seed):
    rnd = random.Random(seed)
    out = []
    dsts = list(zones.names()) if tier == "thorough" else zones.pick_zones(rnd, 60)
    allz = list(zones.names())
    fixed = [0, 3600, -3600, 19800, 20700, -12600, 86340, -86340, 45 * 60, -(23 * 3600 + 59 * 60), 23 * 3600 + 59 * 60]
    via = ["in_timezone", "in_tz", "astimezone", "convert"]
    k = 0
    for dst in dsts:
        trs = T.transition_probes(dst, rnd, per_zone=None if tier == "thorough" else 30)
        for (tt, o_pre, o_post) in trs:
            src = allz[rnd.randrange(len(allz))] if k % 5 else fixed[rnd.randrange(len(fixed))]
            for U in _instants_around(tt, o_pre, o_post):
                if not (T.US_DAY * 400 < U < T.MAX_WALL - T.US_DAY * 400):
                    continue
                out.append({"stream": "dst-transition", "fn": "in_tz", "args": [src, dst, U, via[k % 4]]})
                k += 1
                if k % 7 == 0:   # the transition on the source side, a fixed or other destination
                    d2 = allz[rnd.randrange(len(allz))] if k % 2 else fixed[rnd.randrange(len(fixed))]
                    out.append({"stream": "src-transition", "fn": "in_tz", "args": [dst, d2, U, via[k % 4]]})
                if k % 11 == 0:
                    c3 = allz[rnd.randrange(len(allz))]
                    out.append({"stream": "chain", "fn": "chain", "args": [src, dst, c3, U]})
                if k % 13 == 0:
                    out.append({"stream": "timestamp", "fn": "from_ts", "args": [dst, U // T.MEG - T.EPOCH_S]})
                if k % 17 == 0:
                    out.append({"stream": "instance", "fn": "instance", "args": [KINDS[(k // 17) % 5], dst, U]})
    n_rand = 15000 if tier == "quick" else 80000
    for _ in range(n_rand):
        a, b = allz[rnd.randrange(len(allz))], allz[rnd.randrange(len(allz))]
        if rnd.random() < 0.2:
            a = fixed[rnd.randrange(len(fixed))]
        if rnd.random() < 0.2:
            b = fixed[rnd.randrange(len(fixed))]
        U = rnd.randrange(T.US_DAY * 400, T.MAX_WALL - T.US_DAY * 400)
        out.append({"stream": "random", "fn": "in_tz", "args": [a, b, U, via[rnd.randrange(4)]]})
        if rnd.random() < 0.15:
            out.append({"stream": "same-zone", "fn": "in_tz", "args": [a, a, U, via[rnd.randrange(4)]]})
        if rnd.random() < 0.2:
            out.append({"stream": "chain", "fn": "chain", "args": [a, b, allz[rnd.randrange(len(allz))], U]})
        if rnd.random() < 0.2:
            out.append({"stream": "timestamp", "fn": "from_ts", "args": [b, U // T.MEG - T.EPOCH_S]})
        if rnd.random() < 0.1:
            n = U // T.MEG - T.EPOCH_S
            if abs(n) < 2 ** 33:
                out.append({"stream": "timestamp-float", "fn": "ts_float", "args": [b, ((U - T.EPOCH_US) / T.MEG).hex()]})
        if rnd.random() < 0.2 and isinstance(b, str):
            out.append({"stream": "instance", "fn": "instance", "args": [KINDS[rnd.randrange(5)], b, U]})
    # out-of-range conversions must raise, never wrap
    for z in ("Pacific/Kiritimati", "Pacific/Pago_Pago", 50000, -50000):
        for U in (3600 * T.MEG, T.MAX_WALL - 3600 * T.MEG):
            out.append({"stream": "range-edge", "fn": "in_tz", "args": ["UTC", z, U, "in_timezone"]})
    out += _ts_float_cases(tier, rnd, dsts, fixed)
    return out


def _ts_float_cases(tier, rnd, dsts, fixed):
    """from_timestamp(<float>) and timestamp() / float_timestamp (model: FloatRoutes.from_timestamp_float / timestamp_float)."""
    out = []
    specs = ["UTC"] + list(dsts[:20] if tier == "quick" else dsts) + fixed

    def spec_at(i):
        return specs[i % len(specs)]
    i = 0
    # float timestamps of boundary instants, every zone kind
    for N in _ts_boundary_us():
        for rep in range(2 if tier == "quick" else 5):
            out.append({"stream": "tsf-boundary", "fn": "ts_float", "args": [spec_at(i), (N / T.MEG).hex()]})
            i += 1
    # around tz transitions: the transition instant +- {0, 1 us, 1 s, 0.5 s} as a float timestamp
    for name in (dsts if tier == "thorough" else dsts[:25]):
        for (tt, o_pre, o_post) in T.transition_probes(name, rnd, per_zone=None if tier == "thorough" else 5):
            for d in (0, 1, -1, T.MEG, -T.MEG, 500000, -500000):
                N = tt * T.MEG + d
                if TS_MIN_US + T.US_DAY * 400 < N < TS_MAX_US - T.US_DAY * 400:
                    out.append({"stream": "tsf-transition", "fn": "ts_float", "args": [name, (N / T.MEG).hex()]})
    # random instants below 2^33 s
    for _ in range(2500 if tier == "quick" else 40000):
        N = rnd.choice([1, -1]) * (int(math.ldexp(rnd.random() + 0.5, rnd.randrange(0, 53))) % B33)
        out.append({"stream": "tsf-random", "fn": "ts_float", "args": [spec_at(rnd.randrange(10 ** 6)), (N / T.MEG).hex()]})
    # 2^33 s .. year 9999 and year 1 .. -2^33 s: the doubles are more than 1 us apart
    for _ in range(1200 if tier == "quick" else 20000):
        if rnd.random() < 0.7:
            N = rnd.randrange(B33, TS_MAX_US - T.US_DAY * 400)
        else:
            N = rnd.randrange(TS_MIN_US + T.US_DAY * 400, -B33)
        out.append({"stream": "tsf-beyond-2-33", "fn": "ts_float", "args": [spec_at(rnd.randrange(10 ** 6)), (N / T.MEG).hex()]})
    for k in range(33, 38):
        for j in (0, 1, 3, 7, 500001, -1, -3):
            N = 2 ** k * T.MEG + j
            if B33 <= N < TS_MAX_US:
                out.append({"stream": "tsf-beyond-2-33", "fn": "ts_float", "args": [spec_at(i), (N / T.MEG).hex()]})
                i += 1
    # arbitrary doubles
    for hx in _ts_floats(rnd, 600 if tier == "quick" else 10000):
        out.append({"stream": "tsf-arbitrary-double", "fn": "ts_float", "args": [spec_at(i), hx]})
        i += 1
    # outside years 1..9999 / not a number: must raise
    for hx in ("nan", "inf", "-inf", (253402300800.0).hex(), (253402300799.9999996).hex(), (-62135596801.0).hex(), (1e16).hex(), (-1e16).hex(), (1e300).hex(), (-1e300).hex()):
        for spec in ("UTC", "Europe/Paris", 3600):
            out.append({"stream": "tsf-range-edge", "fn": "ts_float", "args": [spec, hx]})
    return out


def search_cases(seed):
    return cases("thorough", seed)[::4]


def nontrivial(c):
    return True


# ----------------------------------------------------------------------------- implementation
def _mk(pendulum, spec, U):
    """The pendulum DateTime denoting instant U in zone spec, built with the raw constructor from the stdlib's rendering."""
    W, fold, off = T.ref_render(T.ref_zone(spec), U)
    y, mo, d, h, mi, s, us = T.fields_of(W)
    return pendulum.DateTime(y, mo, d, h, mi, s, us, tzinfo=T.pzone(spec), fold=fold), W, fold


def _conv(x, dst_tz, via):
    if via == "in_timezone":
        return x.in_timezone(dst_tz)
    if via == "in_tz":
        return x.in_tz(dst_tz if not isinstance(dst_tz, str) else dst_tz)
    if via == "astimezone":
        return x.astimezone(dst_tz)
    return dst_tz.convert(x)


def impl_run(cases):
    import pendulum
    out = []
    for c in cases:
        fn, a = c["fn"], c["args"]
        try:
            if fn == "in_tz":
                src, dst, U, via = a
                x, W, fold = _mk(pendulum, src, U)
                tz = T.pzone(dst)
                r = _conv(x, tz, via)
                out.append(T.dt_result(r, tz.name))
            elif fn == "chain":
                sa, sb, sc, U = a
                x, W, fold = _mk(pendulum, sa, U)
                r1 = x.in_tz(T.pzone(sb)).in_tz(T.pzone(sc))
                r2 = x.in_tz(T.pzone(sc))
                out.append(T.dt_result(r1, T.pzone(sc).name) + T.dt_result(r2, T.pzone(sc).name) + [int(r1 == r2)])
            elif fn == "from_ts":
                spec, n = a
                tz = T.pzone(spec)
                r = pendulum.from_timestamp(n, tz=tz)
                out.append(T.dt_result(r, tz.name) + [r.int_timestamp, int(r.timestamp() == float(n))])
            elif fn == "from_ts_float":
                spec, us = a
                x = us / 10 ** 6
                tz = T.pzone(spec)
                r = pendulum.from_timestamp(x, tz=tz)
                out.append(T.dt_result(r, tz.name) + [int(r.timestamp() == x), int(r.float_timestamp == x)])
            elif fn == "ts_float":
                spec, hx = a
                t = float.fromhex(hx)
                tz = T.pzone(spec)
                r = pendulum.from_timestamp(t, tz=tz)
                ts = r.timestamp()
                out.append(T.dt_result(r, tz.name) + fcode(ts) + [int(r.float_timestamp.hex() == ts.hex()), r.int_timestamp])
            elif fn == "instance":
                kind, name, U = a
                W, fold, off = T.ref_render(T.ref_zone(name), U)
                try:
                    nat = _native_of_kind(kind, name, W, fold, off)
                except Exception:  # noqa  (the foreign library does not know this zone name)
                    nat = None
                if nat is None or nat.tzinfo is None:
                    out.append([5])
                    continue
                r = pendulum.instance(nat)
                nat_inst = T.wall_of(nat) - T.off_s(nat) * T.MEG
                res_inst = T.wall_of(r) - T.off_s(r) * T.MEG
                out.append(T.dt_result(r) + [int(nat_inst == res_inst), int(nat_inst == U), T.off_s(nat)])
            else:
                out.append([9])
        except Exception as ex:  # noqa
            out.append(T.exn_result(ex))
    return out


def _native_of_kind(kind, name, W, fold, off):
    import zoneinfo
    y, mo, d, h, mi, s, us = T.fields_of(W)
    if kind == "zoneinfo":
        return _dt.datetime(y, mo, d, h, mi, s, us, tzinfo=zoneinfo.ZoneInfo(name), fold=fold)
    if kind == "pytz":
        import pytz
        tz = pytz.timezone(name)
        # pytz: localize with is_dst chosen so that the utcoffset is the database's for this instant
        naive = _dt.datetime(y, mo, d, h, mi, s, us)
        for is_dst in (True, False):
            cand = tz.localize(naive, is_dst=is_dst)
            if T.off_s(cand) == off:
                return cand
        return tz.localize(naive)
    if kind == "dateutil":
        from dateutil import tz as dtz
        return _dt.datetime(y, mo, d, h, mi, s, us, tzinfo=dtz.gettz(name), fold=fold)
    if kind == "stdtz":
        return _dt.datetime(y, mo, d, h, mi, s, us, tzinfo=_dt.timezone(_dt.timedelta(seconds=off)))
    import pendulum
    return _dt.datetime(y, mo, d, h, mi, s, us, tzinfo=pendulum.timezone(name), fold=fold)


# ----------------------------------------------------------------------------- model
def model_calls(c, backend):
    fn, a = c["fn"], c["args"]
    if fn == "in_tz":
        src, dst, U, via = a
        W, fold, off = T.ref_render(T.ref_zone(src), U)
        u = U // T.MEG - T.EPOCH_S
        same = 1 if src == dst else 0
        return [("in_tz", T.zone_enc(src, u - 90000, u + 90000) + T.zone_enc(dst, u - 180000, u + 180000) + [same, W, fold])]
    if fn == "from_ts":
        spec, n = a
        isutc = 1 if spec == "UTC" else 0
        enc = T.zone_enc(spec, n - 180000, n + 180000)
        return [("from_timestamp_int", enc + [isutc, n])]
    if fn == "ts_float":
        spec, hx = a
        t = float.fromhex(hx)
        n = int(min(max(t, T.zones.MIN_T), T.zones.MAX_T)) if t == t else 0
        isutc = 1 if spec == "UTC" else 0
        return [("from_timestamp_float", T.zone_enc(spec, n - 180000, n + 180000) + [isutc] + fcode(t))]
    if fn == "instance":
        kind, name, U = a
        if kind in ("pytz", "zoneinfo", "pendulum"):
            W, fold, off = T.ref_render(T.ref_zone(name), U)
            u = U // T.MEG - T.EPOCH_S
            f = 0 if kind == "pytz" else fold
            return [("create", T.zone_enc(name, u - 180000, u + 180000) + [0, W, f, 0])]
    return None


def model_result(c, backend, outs):
    return outs[0]


def same(c, m, r):
    fn = c["fn"]
    if r == [5]:
        return True
    if fn == "in_tz":
        return m == r
    if fn == "from_ts":
        return m == r[:4]
    if fn == "instance":
        return m == r[:4]
    if fn == "ts_float":
        if r[0] == 1 or m[0] == 1:
            return m[:2] == r[:2]
        return m == r[:7]       # wall, fold, offset and the bits of timestamp()
    return True


# ----------------------------------------------------------------------------- the property
def oracle(c, backend, r):
    fn, a = c["fn"], c["args"]
    if fn == "in_tz":
        src, dst, U, via = a
        W, fold, off = T.ref_render(T.ref_zone(dst), U)
        if not (0 <= W <= T.MAX_WALL):
            return None if r[0] == 1 and r[1] == T.EXN["OverflowError"] else f"{via} to {dst}: result outside years 1..9999 must raise OverflowError, got {r}"
        exp = [0, W, fold, off]
        if src == dst:
            return None if r[:2] == exp[:2] and r[3] == off else f"{via} {src}->{dst} at instant {U}: got {r}, the tz database gives {exp}"
        return None if r == exp else f"{via} {src}->{dst} at instant {U}: got {r}, the tz database gives {exp}"
    if fn == "chain":
        sa, sb, sc, U = a
        W, fold, off = T.ref_render(T.ref_zone(sc), U)
        exp = [0, W, fold, off]
        if r[0] == 1:
            return None  # intermediate out of range
        if r[:4] != exp or r[4:8] != exp or r[8] != 1:
            return f"chain {sa}->{sb}->{sc} at {U}: A->B->C = {r[:4]}, A->C = {r[4:8]}, tz database {exp}"
        return None
    if fn == "from_ts":
        spec, n = a
        W, fold, off = T.ref_render(T.ref_zone(spec), (n + T.EPOCH_S) * T.MEG)
        exp = [0, W, fold, off]
        if r[0] != 0:
            return f"from_timestamp({n}, {spec}) raised {r}"
        if r[:2] != exp[:2] or r[3] != off or r[4] != n or r[5] != 1:
            return f"from_timestamp({n}, {spec}): got {r}, expected {exp} with int_timestamp {n} and timestamp() == {n}.0"
        return None
    if fn == "from_ts_float":
        spec, us = a
        if r[0] != 0:
            return f"from_timestamp(float) raised {r}"
        W, fold, off = T.ref_render(T.ref_zone(spec), us + T.EPOCH_US)
        if r[1] != W or r[3] != off or r[4] != 1 or r[5] != 1:
            return f"from_timestamp({us}/1e6, {spec}): got {r}; expected wall {W} offset {off} and timestamp() to invert it"
        return None
    if fn == "ts_float":
        return _ts_float_oracle(a[0], a[1], r)
    if fn == "instance":
        kind, name, U = a
        if r == [5]:
            return None
        if r[0] != 0:
            return f"instance({kind}, {name}) raised {r}"
        if r[5] != 1:
            return None  # the harness could not build a native of this kind for exactly this instant (e.g. pytz far future)
        if r[4] != 1:
            return f"instance() of an aware {kind} datetime in {name} at instant {U} changed the instant (source offset {r[6]}, result offset {r[3]})"
        return None
    return None


def _ts_float_oracle(spec, hx, r):
    """from_timestamp(t) denotes the instant of the double t to the microsecond (t read EXACTLY, rounded half-even), rendered by the tz database;
    timestamp() / float_timestamp return the double nearest to that instant and give back t whenever t is the timestamp of a whole microsecond."""
    t = float.fromhex(hx)
    if t != t or t in (math.inf, -math.inf):
        return None if r[0] == 1 else f"from_timestamp({hx}) must raise, got {r}"
    F = Fraction(t) * T.MEG
    M = round(F)                                  # Fraction.__round__ is half-even
    if not (TS_MIN_US + 2 <= M <= TS_MAX_US - 2):
        if M < TS_MIN_US - 2 or M > TS_MAX_US + 2:
            return None if r[0] == 1 else f"from_timestamp({hx}) is outside years 1..9999 and must raise, got {r}"
        return None
    W, fold, off = T.ref_render(T.ref_zone(spec), M + T.EPOCH_US)
    if not (0 <= W <= T.MAX_WALL):
        return None if r[0] == 1 else f"from_timestamp({hx}, {spec}): local result outside years 1..9999 must raise, got {r}"
    if r[0] != 0:
        return f"from_timestamp({hx}, {spec}) raised {r}, expected instant {M} us"
    got = r[1] - r[3] * T.MEG - T.EPOCH_US      # instant of the result, microseconds since the Unix epoch
    us_valued = (M / T.MEG == t)                # t is the float timestamp of the whole microsecond M
    near_half = abs(abs(F - M) - Fraction(1, 2)) < Fraction(1, 2 ** 20) and abs(F - M) != Fraction(1, 2)
    if got != M and not (near_half and abs(got - M) == 1):
        return (f"from_timestamp({hx} = {t!r}, {spec}): instant {got} us, but the double denotes {M} us to the microsecond (off by {got - M}); "
                f"result wall {T.fields_of(r[1])} offset {r[3]}")
    if got == M and (r[1] != W or r[3] != off or (spec != "UTC" and r[2] != fold)):
        return f"from_timestamp({hx}, {spec}): fields {r[1:4]} are not the tz database's rendering {[W, fold, off]} of instant {M} us"
    if r[4:7] != fcode(got / T.MEG):
        return f"timestamp() of the result of from_timestamp({hx}, {spec}) is not (instant - epoch).total_seconds(): got {r[4:7]}, expected {fcode(got / T.MEG)}"
    if us_valued and r[4:7] != fcode(t if t != 0 else 0.0):     # -0.0 == 0.0: timestamp() returns +0.0
        return f"timestamp() does not invert from_timestamp({hx} = {t!r}, {spec}): got {r[4:7]} expected {fcode(t)}"
    if r[7] != 1:
        return f"float_timestamp differs from timestamp() for from_timestamp({hx}, {spec})"
    if us_valued and abs(M) < B33 and M % T.MEG == 0 and r[8] != M // T.MEG:
        return f"int_timestamp {r[8]} does not invert from_timestamp({hx}, {spec})"
    return None


def known(c, backend, r):
    fn, a = c["fn"], c["args"]
    if fn == "instance" and a[0] == "pytz" and r[0] == 0 and r[5] == 1 and r[4] == 0:
        # pytz second pass of a repeated wall time: fold 0 with the later (smaller) offset
        name, U = a[1], a[2]
        W, fold, off = T.ref_render(T.ref_zone(name), U)
        if fold == 1:
            return "instance-pytz-second-pass"
    if fn == "instance" and a[0] == "dateutil" and r[0] == 0 and r[5] == 1 and r[4] == 0:
        return None
    return None


LEVEL_TEXT = ("Machine-checked Coq theorems for EVERY well-formed tz table and every instant, integer AND float timestamps. Float: for every instant N (microseconds, |N| < 2^33 s) utcfromtimestamp(N / 10**6) is exactly N "
              "(proved with Flocq), from_timestamp(N / 10**6, tz) is the database rendering of EPOCH + N (same result and exceptions as the integer route on whole seconds) and timestamp() returns N / 10**6 again; beyond 2^33 s the "
              "double no longer determines N (from_timestamp_float_beyond_2_33_refuted: the DateTime is the microsecond nearest to the double, timestamp() still inverts; kernel-evaluated family up to year 9999; not a failure of the property). "
              "The PEP 495 round trip render/inst, conversion keeps the instant exactly and yields the "
              "database's fields, offset and fold, A->B->C = A->C, conversions outside years 1..9999 raise (never wrap), int_timestamp inverts from_timestamp for every integer, "
              "instance() keeps the instant whenever the source's offset is the zone's reading of (wall, fold); the pytz second-pass case is proved refuted (known finding). "
              "The hand model (Model/TzConvert.v) is tied to /repo by correspondence at every transition of the destination/source zones through four entry points, both backends.")
DESIGN_REF = "DESIGN.md section 4 C01, section 3.2"
LEVEL_NOTE = ("Trusted: Coq kernel+VM; Spec/Zone.v as a model of zoneinfo and of the tzdata tables (validated per probe against zoneinfo); Model/TzConvert.v hand model of the conversion glue "
              "(correspondence) and Model/FloatRoutes.v (float timestamps over SpecFloat, correspondence incl. arbitrary doubles); wf2 of every shipped table is a kernel-checked fact (Gen/ZoneTables.v regenerated from the staged zoneinfo on every run, Props/C02.v shipped_zones_wellformed; POSIX rules expanded to 2100), and shipped_zone_* restate the conversion theorems for the concrete zones; "
              "the float theorems additionally depend on the standard-library axioms of the classical reals (ClassicalDedekindReals.sig_forall_dec, sig_not_dec, functional_extensionality_dep, Classical_Prop.classic) through Flocq.")
TECHNIQUE = "Coq proof by induction over transition tables, Flocq real-number semantics of SpecFloat for float timestamps + differential correspondence at every tz transition"


# ---- model side tied to /repo by translation + proof (appended) ----
_GLUE_NEW = ("the hand-written model coq/Model/TzConvert.v is PROVED equal (model_is_code_* theorems) to the machine translation of pendulum's own code, coq/Gen/TzGlue.v, translated from /repo's src/pendulum/tz/timezone.py and src/pendulum/datetime.py on every run (tools/vlib/gens/g15_tz_glue.py; VERIF_REPO honoured): Timezone.convert (naive and aware branch), Timezone.datetime, FixedTimezone.convert / utcoffset / fromutc / datetime, DateTime.create, in_timezone, in_tz, astimezone, add (fixed-unit, naive and calendar branches), int_timestamp. A semantic change of one of these functions changes the generated definition and breaks a proof (not only a source pin). By hand in that translation: the object model and native primitives of coq/Model/TzGlueObj.v (a datetime object = wall value + fold + tzinfo, its CLASS is not modelled; ZoneInfo.utcoffset / fromutc, datetime + timedelta, the datetime constructor, replace(fold=/tzinfo=), utcfromtimestamp - each tied to CPython's source by a spec_is_stdlib_* theorem of C02 / C11), the dispatch of tz.utcoffset / fromutc / convert on the class of tz, native astimezone = tz.fromutc((self - utcoffset).replace(tzinfo=tz)); recognised rewrites: cast(T, e) -> e, pendulum._safe_timezone(x) -> x for an x that already is a Timezone/FixedTimezone (strings, numbers, foreign tzinfo objects, 'local' are out of scope of the translation), cls(...)/datetime.datetime(...) -> the native constructor, any([..]) -> bool(.. or ..). Assumption: `dt + timedelta` inside Timezone.convert is the native addition (dt a native datetime, as in DateTime.create; a naive pendulum DateTime in a gap would run DateTime.__add__ instead). STILL hand-written + pinned only: pendulum.from_timestamp (from_timestamp_int), DateTime.instance, set / on / at / replace, _safe_timezone itself, DateTime.__add__/__sub__/_add_timedelta_, the naive / local-time paths; the add theorems for the naive and calendar branches carry the hypothesis that add_duration's result lies in years 1..9999 (proved for the fixed-unit branch)")
TRUSTED = [t for t in TRUSTED] + [_GLUE_NEW]
LEVEL_NOTE = (LEVEL_NOTE + " Model/TzConvert.v is no longer tied to /repo by pins and correspondence only: Gen/TzGlue.v is the translation of "
              "pendulum's timezone glue from /repo on every run and the model_is_code_* theorems prove the hand model equal to it "
              "(native operations as primitives tied to CPython by the spec_is_stdlib_* theorems; from_timestamp, instance, set/on/at/replace "
              "remain hand-written + pinned).")


# ---- second batch of model = code theorems (appended) ----
TRUSTED = [t for t in TRUSTED] + ['model_is_code_from_timestamp / _instance: pendulum.from_timestamp (integer timestamp, timezone object; pendulum.datetime translated too) = from_timestamp_int, DateTime.instance (tzinfo of the native value and the tz argument None or pendulum timezone objects) = create with the native fold; _safe_timezone for foreign tzinfo kinds (zoneinfo key, utcoffset-derived fixed offset, tzname) remains hand-written + pinned']
LEVEL_NOTE = LEVEL_NOTE + " " + 'model_is_code_from_timestamp / _instance: pendulum.from_timestamp (integer timestamp, timezone object; pendulum.datetime translated too) = from_timestamp_int, DateTime.instance (tzinfo of the native value and the tz argument None or pendulum timezone objects) = create with the native fold; _safe_timezone for foreign tzinfo kinds (zoneinfo key, utcoffset-derived fixed offset, tzname) remains hand-written + pinned' + "."


TRUSTED = list(TRUSTED) + [
    "tools/vlib/gens/g55_float_glue.py + coq/Model/FloatGlue.v: the float entry points of DateTime (from_timestamp(<float>), float_timestamp, subtract(seconds=<float>), the plain-timedelta "
    "branch of _add_timedelta_ / _subtract_timedelta) translated from /repo on every run and proved equal to Model/FloatRoutes.v (model_is_code_from_timestamp_float, model_is_code_timestamp, "
    "model_is_code_add_plain_timedelta / _sub_plain_timedelta); named primitives (trusted, tied by correspondence): datetime.utcfromtimestamp(<float>) = utcfromtimestamp_float_us + year range, "
    "datetime.timestamp() = timestamp_float, DateTime.add(seconds=<float>) = add_seconds_float (its core helpers.add_duration is proved equal to its translation)",
]
LEVEL_NOTE = LEVEL_NOTE + (" Float entry points: coq/Gen/FloatGlueGen.v is translated on every run (from_timestamp under a float timestamp, float_timestamp, subtract(seconds=<float>), the plain branch of "
                           "_add_timedelta_ / _subtract_timedelta) and Proofs/FloatGlueFacts.v proves it equal to Model/FloatRoutes.v; DateTime.add under a float `seconds` stays a named primitive.")


# ---- last batch of model = code theorems (appended) ----
TRUSTED = [t for t in TRUSTED] + ["model_is_code_safe_timezone / _instance_foreign: pendulum._safe_timezone is translated from /repo for every kind of argument it distinguishes except None / 'local' (a pendulum timezone object, a number of hours, a name, a FOREIGN tzinfo asked in this order for .key, .localize/.zone, tzname(None) == 'UTC', utcoffset(dt) truncated to whole seconds) and proved equal to the table safe_tz_table; DateTime.instance with _safe_timezone NOT assumed to be the identity = create (convert_naive with the native fold, raise False) in the zone of the object _safe_timezone assigns - the premises of instance_keeps_instant. By hand: the argument record gtzarg (what the code asks of a foreign tzinfo: hasattr / key / zone / tzname / utcoffset answers), pendulum.timezone(name | int) = the cached object (g_timezone)"]
LEVEL_NOTE = LEVEL_NOTE + " " + "model_is_code_safe_timezone / _instance_foreign: pendulum._safe_timezone is translated from /repo for every kind of argument it distinguishes except None / 'local' (a pendulum timezone object, a number of hours, a name, a FOREIGN tzinfo asked in this order for .key, .localize/.zone, tzname(None) == 'UTC', utcoffset(dt) truncated to whole seconds) and proved equal to the table safe_tz_table; DateTime.instance with _safe_timezone NOT assumed to be the identity = create (convert_naive with the native fold, raise False) in the zone of the object _safe_timezone assigns - the premises of instance_keeps_instant. By hand: the argument record gtzarg (what the code asks of a foreign tzinfo: hasattr / key / zone / tzname / utcoffset answers), pendulum.timezone(name | int) = the cached object (g_timezone)" + "."
