#!/usr/bin/env python3
"""Regenerate MANIFEST.json from the property modules present in tools/props."""
import importlib
import json
import os
import sys

HERE = os.path.dirname(os.path.abspath(__file__))
VERIF = os.path.dirname(HERE)
sys.path.insert(0, HERE)
ALL = [f"C{i:02d}" for i in range(1, 21)]
checks, na = [], []
for pid in ALL:
    if os.path.exists(os.path.join(HERE, "props", pid + ".py")):
        m = importlib.import_module("props." + pid)
        checks.append({
            "property_id": pid,
            "quick_cmd": f"./check {pid} --tier quick",
            "thorough_cmd": f"./check {pid} --tier thorough",
            "evidence_file": f"/verif/evidence/{pid}.json",
            "replay_cmd_template": f"./check {pid} --replay {{path}}",
            "engine": "coq-proof+correspondence",
            "level_claimed": {"category": "proof", "text": m.LEVEL_TEXT, "design_ref": m.DESIGN_REF},
            "level_note": m.LEVEL_NOTE,
            "technique": m.TECHNIQUE,
        })
    else:
        na.append({"property_id": pid, "reason": "no check registered yet: the Coq model/theorems for this property are still being built (see DESIGN.md section 4); not a claim that the technique cannot apply"})
man = {
    "version": 1,
    "setup_cmd": "./setup.sh",
    "hooks": {"guard": "PENDULUM_VERIF", "enable": "no hooks are needed: checks observe the public API and pendulum._helpers / pendulum._pendulum directly on a staged copy of /repo/src with a freshly built extension",
              "baseline_off_cmd": "cd /repo && /venv/bin/python -m pytest -q -p no:cacheprovider --timeout=900", "source_commits": [], "add_only": True},
    "engines": [{"name": "coq-proof+correspondence", "path": "/verif/check", "serves_properties": [c["property_id"] for c in checks],
                 "kind_free_text": "Coq 8.16.1 theorems over models regenerated from /repo (translator) or hand-written (tied by model-vs-implementation correspondence through the extracted OCaml model and vm_compute), plus stdlib oracles to find replays"}],
    "checks": checks,
    "not_applicable": na,
    "notes": "All checks share ./check (tools/vlib/runner.py). Exit 1 + VIOLATION line on a property-violating input or on a broken proof/translator/correspondence tie (then suffixed no-failing-input-found when no concrete input was found).",
}
json.dump(man, open(os.path.join(VERIF, "MANIFEST.json"), "w"), indent=1)
print("checks:", [c["property_id"] for c in checks])
