"""Translate rust/src/constants.rs (pub const items with integer expressions) to Coq. Fail closed."""
import os
import re

from . import py2gallina as P
from .gen import HEADER, REPO, zlit

ITEM = re.compile(r"pub const (\w+)\s*:\s*([^=]+?)\s*=\s*(.*?);", re.S)


def _eval(expr, env):
    e = re.sub(r"//[^\n]*", "", expr)
    e = re.sub(r"\bas\s+(u64|u32|i32|i64|usize|isize|u8)\b", "", e)
    e = re.sub(r",\s*\]", "]", e)
    e = e.replace("[", "(").replace("]", ",)")
    e = re.sub(r"(\d)_(\d)", r"\1\2", e)
    if not re.fullmatch(r"[\w\s+\-*(),]*", e):
        raise P.Unsupported(f"constants.rs: expression not in the constant subset: {expr[:60]}")
    try:
        return eval(e, {"__builtins__": {}}, dict(env))
    except Exception as ex:  # noqa
        raise P.Unsupported(f"constants.rs: cannot evaluate {expr[:60]}: {ex}")


def gen_rust_constants(ctx=None):
    path = os.path.join(REPO, "rust", "src", "constants.rs")
    text = open(path).read()
    text_nc = re.sub(r"//[^\n]*", "", text)
    text_nc = re.sub(r"#\[[^\]]*\]", "", text_nc)
    env = {}
    lines = [HEADER % "rust/src/constants.rs"]
    consumed = 0
    for m in ITEM.finditer(text_nc):
        name, ty, expr = m.group(1), m.group(2), m.group(3)
        v = _eval(expr, env)
        env[name] = v
        if isinstance(v, int):
            lines.append(f"Definition RS_{name} : Z := {zlit(v)}.")
        elif isinstance(v, tuple) and all(isinstance(x, int) for x in v):
            lines.append(f"Definition RS_{name} : list Z := [" + "; ".join(zlit(x) for x in v) + "].")
        elif isinstance(v, tuple) and all(isinstance(x, tuple) for x in v):
            rows = "; ".join("[" + "; ".join(zlit(y) for y in x) + "]" for x in v)
            lines.append(f"Definition RS_{name} : list (list Z) := [{rows}].")
        else:
            raise P.Unsupported(f"constants.rs: {name} unsupported")
        consumed += 1
    rest = ITEM.sub("", text_nc).strip()
    if rest:
        raise P.Unsupported(f"constants.rs: unrecognised content: {rest[:60]!r}")
    return "\n".join(lines) + "\n"
