"""Build the Coq development, run the extracted model (OCaml) and the in-kernel vm_compute cross-check."""
from __future__ import annotations

import fcntl
import os
import re
import subprocess
import time

VERIF = os.path.dirname(os.path.dirname(os.path.dirname(os.path.abspath(__file__))))
COQ = os.environ.get("VERIF_COQ_DIR") or os.path.join(VERIF, "coq")
FORBIDDEN = re.compile(r"\b(Admitted|admit|Axiom|Axioms|Parameter|Parameters|Conjecture|Admit Obligations|bypass_check|Unset Guard Checking|Unset Positivity Checking|Unset Universe Checking|type-in-type|impredicative-set)\b")


class Lock:
    def __enter__(self):
        self.f = open(os.path.join(COQ, ".lock"), "w")
        fcntl.flock(self.f, fcntl.LOCK_EX)
        return self

    def __exit__(self, *a):
        fcntl.flock(self.f, fcntl.LOCK_UN)
        self.f.close()


def hand_written_files():
    out = []
    for d in ("Lib", "Spec", "Model", "Proofs", "Props", "Extract"):
        p = os.path.join(COQ, d)
        if os.path.isdir(p):
            out += [os.path.join(p, f) for f in sorted(os.listdir(p)) if f.endswith(".v")]
    return out


def forbidden_scan():
    """Fail closed on axioms / admits / disabled checks anywhere in the development (comments stripped)."""
    bad = []
    files = hand_written_files() + [os.path.join(COQ, "Gen", f) for f in sorted(os.listdir(os.path.join(COQ, "Gen"))) if f.endswith(".v")]
    for f in files:
        text = open(f).read()
        text = re.sub(r"\(\*.*?\*\)", "", text, flags=re.S)
        for m in FORBIDDEN.finditer(text):
            bad.append(f"{os.path.relpath(f, COQ)}: {m.group(0)}")
        if re.search(r"^\s*(Variable|Variables|Hypothesis|Hypotheses|Context)\b", text, re.M) and not re.search(r"^\s*Section\b", text, re.M):
            bad.append(f"{os.path.relpath(f, COQ)}: Variable/Hypothesis outside a section")
    return bad


def ensure_makefile():
    from . import gen
    gen.write_coqproject()
    mk = os.path.join(COQ, "Makefile")
    cp = os.path.join(COQ, "_CoqProject")
    if not os.path.exists(mk) or os.path.getmtime(mk) < os.path.getmtime(cp):
        subprocess.run(["coq_makefile", "-f", "_CoqProject", "-o", "Makefile"], cwd=COQ, check=True, capture_output=True)


def make(targets, timeout=3000, jobs=16):
    """Returns (ok, output, seconds)."""
    t0 = time.time()
    with Lock():
        ensure_makefile()
        try:
            p = subprocess.run(["timeout", str(timeout), "make", f"-j{jobs}", "-k"] + list(targets), cwd=COQ, capture_output=True, text=True)
            out, rc = p.stdout + p.stderr, p.returncode
        except Exception as e:  # noqa
            out, rc = str(e), 1
    return rc == 0, out, time.time() - t0


def build_driver(pid):
    """Extraction + OCaml driver of one property (coq/Extract/Extract<pid>.v -> coq/Extract/<pid>/driver). Returns (ok, output)."""
    ex = os.path.join(COQ, "Extract", pid)
    os.makedirs(ex, exist_ok=True)
    ok, out, _ = make([f"Extract/Extract{pid}.vo"])
    if not ok:
        return False, out
    with Lock():
        drv = os.path.join(ex, "driver")
        srcs = [os.path.join(ex, "model.mli"), os.path.join(ex, "model.ml"), os.path.join(COQ, "Extract", "driver.ml")]
        if not all(os.path.exists(s) for s in srcs[:2]):
            # Extract<pid>.vo up to date but outputs removed: force re-extraction
            os.remove(os.path.join(COQ, "Extract", f"Extract{pid}.vo"))
            ok2 = subprocess.run(["make", f"Extract/Extract{pid}.vo"], cwd=COQ, capture_output=True, text=True)
            if ok2.returncode != 0:
                return False, ok2.stdout + ok2.stderr
        if (not os.path.exists(drv)) or any(os.path.getmtime(s) > os.path.getmtime(drv) for s in srcs):
            p = subprocess.run(["ocamlfind", "ocamlopt", "-O3", "-w", "-a", "-I", ".", "model.mli", "model.ml", "../driver.ml", "-o", "driver"],
                               cwd=ex, capture_output=True, text=True)
            if p.returncode != 0:
                return False, p.stdout + p.stderr
    return True, ""


_FN = {}


def fn_table(pid):
    if pid not in _FN:
        text = open(os.path.join(COQ, "Model", f"Dispatch{pid}.v")).read()
        inc = re.search(r"fn-table:\s*(\w+)", text)
        if inc:
            text = open(os.path.join(COQ, "Model", inc.group(1) + ".v")).read()
        _FN[pid] = {m.group(2): int(m.group(1)) for m in re.finditer(r"\|\s*(\d+)\s*\(\*\s*(\w+)\s*\*\)", text)}
    return _FN[pid]


def run_driver(pid, calls, shards=1):
    """calls: list of (name, [ints]) -> list of [ints]"""
    tbl = fn_table(pid)
    lines = []
    for name, args in calls:
        lines.append(str(tbl[name]) + " " + " ".join(map(str, args)))
    p = subprocess.run([os.path.join(COQ, "Extract", pid, "driver")], input="\n".join(lines) + "\n", capture_output=True, text=True)
    if p.returncode != 0:
        raise RuntimeError("model driver failed: " + p.stderr[-2000:])
    outs = p.stdout.split("\n")
    if outs and outs[-1] == "":
        outs.pop()
    if len(outs) != len(lines):
        raise RuntimeError(f"model driver returned {len(outs)} lines for {len(lines)} calls")
    return [list(map(int, o.split())) for o in outs]


def run_vm(pid, calls):
    """Evaluate the same calls inside Coq with vm_compute; returns list of [ints]."""
    tbl = fn_table(pid)
    d = os.path.join(COQ, "Cases")
    os.makedirs(d, exist_ok=True)
    path = os.path.join(d, f"cases_{pid}_{os.getpid()}.v")

    def z(v):
        return f"({v})" if v < 0 else str(v)
    items = ";\n ".join(f"({tbl[n]}, [" + "; ".join(z(a) for a in args) + "])" for n, args in calls)
    with open(path, "w") as f:
        f.write(f"From Coq Require Import ZArith List.\nFrom PV Require Import Model.Dispatch{pid}.\nImport ListNotations.\nOpen Scope Z_scope.\n"
                "Definition cases : list (Z * list Z) := [\n " + items + "].\n"
                f"Definition outs := Eval vm_compute in map (fun c => Dispatch{pid}.dispatch (fst c) (snd c)) cases.\n"
                "Set Printing Depth 1000000. Set Printing Width 1000000.\nPrint outs.\n")
    try:
        p = subprocess.run(["timeout", "600", "coqc", "-R", ".", "PV", path], cwd=COQ, capture_output=True, text=True)
        if p.returncode != 0:
            raise RuntimeError("vm_compute cross-check failed to run: " + (p.stdout + p.stderr)[-2000:])
        m = re.search(r"outs\s*=\s*(\[.*\])\s*:", p.stdout, re.S)
        body = m.group(1)
        res = []
        for inner in re.findall(r"\[([^\[\]]*)\]", body[1:-1]):
            res.append([int(x) for x in re.findall(r"-?\d+", inner)])
        return res
    finally:
        for ext in (".v", ".vo", ".vok", ".vos", ".glob"):
            try:
                os.remove(path[:-2] + ext)
            except OSError:
                pass
        try:
            os.remove(os.path.join(d, "." + os.path.basename(path)[:-2] + ".aux"))
        except OSError:
            pass


def theorems_of(props_file):
    """Names of the Theorem statements in coq/Props/<file>."""
    text = open(os.path.join(COQ, props_file)).read()
    text = re.sub(r"\(\*.*?\*\)", "", text, flags=re.S)
    return re.findall(r"^\s*Theorem\s+(\w+)", text, re.M)


def parse_assumptions(make_output_or_log):
    """Map theorem name -> assumptions text from the output of `Print Assumptions`."""
    return make_output_or_log
