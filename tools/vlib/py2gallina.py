"""py2gallina — fail-closed translator from a small integer subset of Python to Gallina.

Every construct that is not explicitly supported raises Unsupported, which the caller reports as a
broken translator tie (never silently skipped).  Semantics:
  int  -> Z (unbounded), // -> Z.div, % -> Z.modulo (floor semantics = Python's for every sign)
  bool -> bool
  tuple constants -> list Z, indexed with tidx (Python negative-index rule, OOB sentinel outside)
  while -> Fixpoint on explicit nat fuel returning option (None = out of fuel)
  raise -> the enclosing function returns `result` (Ok v | Raise kind)
Opt-in per Ctx (used for CPython's _pydatetime.py, gens/g11_stdlib_cal.py; off by default so older translations are unchanged):
  assert c[, msg] -> `if c then <rest> else Raise <ctx.assert_exn>` (the function is then in the result monad)
  a call of a function/method whose translation is in the result monad, inside an expression -> bound in evaluation order
     in front of the statement (`hoist`); refused in conditionally evaluated operands, except in an `assert` test, which is
     unfolded into nested conditionals in Python's order (`branch`)
  a >> b -> Z.shiftr;  int `or`/`and` int -> value semantics (ctx.int_boolop)
"""
from __future__ import annotations

import ast
import os


class Unsupported(Exception):
    pass


Z, B = "Z", "bool"


class Ctx:
    """Translation context shared by the functions of one generated file."""

    def __init__(self):
        self.consts = {}      # python name -> (coq expr, type) ; type in {Z,B,'list','list2','str'}
        self.funcs = {}       # python callable name -> (coq name, [argtypes] or None, rettype, monad) monad in {None,'option','result'}
        self.attrs = {}       # attribute name -> (coq projection, type)   (x.attr -> proj x)
        self.methods = {}     # method name -> (coq name, rettype, monad)   (x.m(a) -> name x a)
        self.out = []         # emitted vernacular
        self.opaque = {}      # unparsed python expression -> (coq expr template using {self}, type): named model primitives
        self.loop_fuel = {}   # (func, loop index) -> fuel
        self.rename = {}      # python function name -> coq definition name
        self.none_for = {}    # variable name -> (coq expr, type): representation of `name = None` (typed optional locals)
        # --- opt-in extensions (stdlib calendar, g11_stdlib_cal.py); the defaults keep every older translation unchanged ---
        self.assert_exn = None    # e.g. "E_Exception": `assert c[, msg]` becomes `if c then <rest> else Raise <assert_exn>`
                                  # (AssertionError is raised exactly when c is false; python -O is not modelled); None: unsupported
        self.int_boolop = False   # True: `a or b` / `a and b` on two integers has Python's VALUE semantics (a if a != 0 else b)
        self.obj_fragment = False   # True: values of named record types and `T | None` (type ("opt", T) = option T):
                                    # None, `x is None`, narrowing `if x is None [or y is None]: <leaves>` / `if x is None: x = e`,
                                    # operators on non-integers through the tables below, keyword calls of kwfuncs, a call statement of a
                                    # raising function, declared optional return types
        self.binops = {}      # (ast op class name, left type, right type) -> (template with {l} {r}, result type, monad)
        self.unops = {}       # (ast op class name, operand type) -> (template with {x}, result type, monad)
        self.cmpops = {}      # (ast op class name, left type, right type) -> template with {l} {r} (a bool)
        self.truth = {}       # type -> template with {x}: truthiness of a value of that type
        self.kwmethods = {}   # (method name, type of the receiver) -> (coq name, [parameter names], {name: default}, [types], result type, monad)
                              #   x.m(a, k=b) -> coq x a b (positional and keyword arguments, defaults filled in)
        self.kwtemplates = {} # (method name, receiver type, sorted keyword names) -> (template with {self} and {<keyword>}, {keyword: type},
                              #   result type, monad): keyword-only calls such as dt.replace(fold=1) named as a model primitive
        self.conservative_exit = False   # True: every `if` whose branches contain a call or an operator is translated with the
                                         # continuation duplicated into both branches (always valid; needed when operators may raise)
        self.kwfuncs = {}     # callable name -> (coq name, [parameter names], {name: default coq expr}, [types], result type, monad)
        self.list_fragment = False  # True: lists of ints (Lib/PyList.v): list displays, len, list(x), l[a:b], truthiness of a list,
                                    # `a, b = <list>` (ValueError unless 2 long), in-place `l[i] op= e` / `l[i][j] op= e` on a FRESH local
                                    # list (functional update, IndexError outside), `for i in range(a, b)`; bool/int joins coerce to int


def is_opt(t):
    return isinstance(t, tuple) and len(t) == 2 and t[0] == "opt"


def _tname(t):
    if is_opt(t):
        inner = _tname(t[1])
        if " " in inner and not inner.startswith("("):
            inner = f"({inner})"
        return f"(option {inner})"
    if isinstance(t, tuple):
        return "(" + " * ".join(_tname(x) for x in t) + ")"
    if t == "list":      # a row of a constant table held in a local variable (C07: months_offsets = MONTHS_OFFSETS[leap])
        return "list Z"
    if t == "list2":
        return "list (list Z)"
    return t


class FunTr:
    def __init__(self, ctx: Ctx, fn: ast.FunctionDef, coq_name: str, argtypes=None, self_type=None, fuel_default=64, ret_decl=None, force_result=False):
        self.ctx = ctx
        self.fn = fn
        self.name = coq_name
        self.env = {}       # var -> type
        self.loops = []     # emitted loop fixpoints
        self.nloop = 0
        self.uses_raise = (any(isinstance(n, ast.Raise) for n in ast.walk(fn))
                           or (ctx.assert_exn is not None and any(isinstance(n, ast.Assert) for n in ast.walk(fn)))
                           or any(self.raising_call(n) for n in ast.walk(fn)))
        self.pending = []   # calls to raising (result) callees hoisted out of the expression being translated: [(temp, coq call)]
        self.ntmp = 0
        self.lazy = 0       # > 0 while translating an operand that Python evaluates only conditionally
        self.in_loop = 0
        self.fresh = set()  # local names bound to a list object created in this function (display / list(...)): no alias exists
        if ctx.list_fragment and any(
                (isinstance(n, ast.Subscript) and isinstance(n.ctx, ast.Store))
                or (isinstance(n, ast.Assign) and isinstance(n.targets[0], ast.Tuple) and isinstance(n.value, ast.Subscript)
                    and isinstance(n.value.slice, ast.Slice)) for n in ast.walk(fn)):
            self.uses_raise = True
        self.uses_loop = any(isinstance(n, ast.While) for n in ast.walk(fn))
        self.local_funs = {}
        self.fuel_default = fuel_default
        self.argtypes = argtypes or {}
        self.self_type = self_type
        self.rettype = None
        self.ret_decl = ret_decl      # declared return type (needed when a function returns None or a value: ("opt", T))
        # does the body call something monadic?
        if force_result:      # (operators of the object fragment may raise: the caller knows)
            self.uses_raise = True
        self.monad = "result" if self.uses_raise else ("option" if self.uses_loop else None)

    # ---------- calls to callees that can raise (monad "result") ----------
    def raising_call(self, n):
        """n is a call of a registered function/method whose translation returns `result`."""
        if not isinstance(n, ast.Call):
            return False
        f = n.func
        if isinstance(f, ast.Name):
            if self.ctx.obj_fragment and f.id in self.ctx.kwfuncs:
                return self.ctx.kwfuncs[f.id][5] == "result"
            return f.id in self.ctx.funcs and self.ctx.funcs[f.id][3] == "result"
        if isinstance(f, ast.Attribute):
            path = ast.unparse(f)
            if path in self.ctx.funcs:
                return self.ctx.funcs[path][3] == "result"
            return f.attr in self.ctx.methods and self.ctx.methods[f.attr][2] == "result"
        return False

    def has_raising_call(self, node):
        return any(self.raising_call(n) for n in ast.walk(node))

    def hoist(self, code, rett, node):
        """A raising callee in an expression: Python evaluates operands left to right, and every other operand form
        supported here is pure, so the call is bound (in order of appearance) in front of the statement that contains it.
        Not allowed where Python evaluates the operand only conditionally, nor inside loops."""
        if self.lazy:
            self.fail(node, "raising callee in a conditionally evaluated position")
        if self.in_loop or self.monad != "result":
            self.fail(node, "raising callee inside a loop / in a function that is not in the result monad")
        self.ntmp += 1
        tmp = f"m_{self.ntmp}"
        self.pending.append((tmp, code))
        return (tmp, rett)

    def take(self):
        p, self.pending = self.pending, []
        return p

    @staticmethod
    def wrap(pend, code):
        for tmp, call in reversed(pend):
            code = f"match {call} with\n  | Raise exn_ => Raise exn_\n  | Ok {tmp} =>\n  {code}\n  end"
        return code

    def no_pending(self, node):
        if self.pending:
            self.fail(node, "raising callee in an unsupported position")

    def lazily(self, f, on=True):
        if on:
            self.lazy += 1
        try:
            return f()
        finally:
            if on:
                self.lazy -= 1

    # ---------- expressions ----------
    def fail(self, node, why=""):
        raise Unsupported(f"{self.fn.name}: line {getattr(node, 'lineno', '?')}: {why or type(node).__name__}: {ast.unparse(node)[:80]}")

    def expr(self, e) -> tuple[str, object]:
        c = self.ctx
        if not isinstance(e, (ast.Constant, ast.Name)):
            key = ast.unparse(e)
            if key in c.opaque:
                tmpl, t = c.opaque[key]
                class _V(dict):
                    def __missing__(d, k):
                        if k not in self.env:
                            self.fail(e, f"opaque expression reads undefined variable {k}")
                        return self.v(k)
                return ("(" + tmpl.format_map(_V()) + ")", t)
        if isinstance(e, ast.Constant):
            if isinstance(e.value, bool):
                return ("true" if e.value else "false", B)
            if isinstance(e.value, int):
                return (f"({e.value})" if e.value < 0 else str(e.value), Z)
            if e.value is None and c.obj_fragment:
                return ("None", "none")
            self.fail(e, "constant")
        if isinstance(e, ast.Name):
            if e.id in self.env:
                return (self.v(e.id), self.env[e.id])
            if e.id in c.consts:
                return c.consts[e.id]
            self.fail(e, "unknown name")
        if isinstance(e, ast.UnaryOp):
            if isinstance(e.op, ast.USub):
                s, t = self.expr(e.operand)
                if c.obj_fragment and ("USub", t) in c.unops:
                    tmpl, rett, monad = c.unops[("USub", t)]
                    code = "(" + tmpl.format(x=s) + ")"
                    return self.hoist(code, rett, e) if monad == "result" else (code, rett)
                self.need(t, Z, e)
                return (f"(- {s})", Z)
            if isinstance(e.op, ast.Not):
                return (f"(negb {self.cond(e.operand)})", B)
            self.fail(e)
        if isinstance(e, ast.BinOp):
            l, lt = self.expr(e.left)
            r, rt = self.expr(e.right)
            if c.obj_fragment and (lt not in (Z, B) or rt not in (Z, B)):
                key = (type(e.op).__name__, lt, rt)
                if key not in c.binops:
                    self.fail(e, f"operator {key} on non-integers")
                tmpl, rett, monad = c.binops[key]
                code = "(" + tmpl.format(l=l, r=r) + ")"
                return self.hoist(code, rett, e) if monad == "result" else (code, rett)
            l, r = self.toZ(l, lt, e), self.toZ(r, rt, e)
            ops = {ast.Add: "+", ast.Sub: "-", ast.Mult: "*", ast.FloorDiv: "/", ast.Mod: "mod"}
            for k, o in ops.items():
                if isinstance(e.op, k):
                    return (f"({l} {o} {r})", Z)
            if isinstance(e.op, ast.RShift):     # Python's >> on ints is floor division by 2^r (r >= 0) = Z.shiftr
                return (f"(Z.shiftr {l} {r})", Z)
            self.fail(e, "operator")
        if isinstance(e, ast.BoolOp):
            if c.int_boolop:
                vals = [self.lazily(lambda x=x: self.expr(x), i > 0) for i, x in enumerate(e.values)]
                if all(t == Z for _, t in vals):
                    acc = vals[-1][0]
                    for s_, _ in reversed(vals[:-1]):
                        if isinstance(e.op, ast.Or):
                            acc = f"(let o_ := {s_} in if (o_ =? 0) then {acc} else o_)"
                        else:
                            acc = f"(let o_ := {s_} in if (o_ =? 0) then o_ else {acc})"
                    return (acc, Z)
                if not all(t == B for _, t in vals):
                    self.fail(e, "and/or on operands of mixed types")
                return ("(" + (" && " if isinstance(e.op, ast.And) else " || ").join(s_ for s_, _ in vals) + ")", B)
            parts = [self.lazily(lambda x=x: self.cond(x), i > 0) for i, x in enumerate(e.values)]
            op = " && " if isinstance(e.op, ast.And) else " || "
            # Python and/or are right/left short-circuit; on booleans without effects this is && / ||
            return ("(" + op.join(parts) + ")", B)
        if isinstance(e, ast.Compare):
            if len(e.ops) != 1:
                # chained: a < b < c
                parts = []
                left = e.left
                for i, (op, right) in enumerate(zip(e.ops, e.comparators)):
                    if self.has_raising_call(right) or (i > 0 and self.has_raising_call(left)):
                        self.fail(e, "raising callee inside a chained comparison")
                    parts.append(self.cmp(left, op, right, e))
                    left = right
                return ("(" + " && ".join(parts) + ")", B)
            return (self.cmp(e.left, e.ops[0], e.comparators[0], e), B)
        if isinstance(e, ast.IfExp):
            a, at = self.lazily(lambda: self.expr(e.body))
            b, bt = self.lazily(lambda: self.expr(e.orelse))
            if at != bt:
                self.fail(e, "if-expression branch types differ")
            if self.has_raising_call(e.test):
                self.fail(e, "raising callee in the test of an if-expression")
            return (f"(if {self.cond(e.test)} then {a} else {b})", at)
        if isinstance(e, ast.Tuple):
            parts = [self.expr(x) for x in e.elts]
            return ("(" + ", ".join(p[0] for p in parts) + ")", tuple(p[1] for p in parts))
        if isinstance(e, ast.List) and c.list_fragment:
            parts = [self.expr(x) for x in e.elts]
            if all(t == Z for _, t in parts):
                return ("[" + "; ".join(s_ for s_, _ in parts) + "]", "list")
            if parts and all(t == "list" for _, t in parts):
                return ("[" + "; ".join(s_ for s_, _ in parts) + "]", "list2")
            self.fail(e, "list display of mixed element types")
        if isinstance(e, ast.Subscript) and isinstance(e.slice, ast.Slice) and c.list_fragment:
            base, bt = self.expr(e.value)
            if bt not in ("list", "list2") or e.slice.step is not None:
                self.fail(e, "slice of a non-list / with a step")
            def bound(b):
                if b is None:
                    return "None"
                s_, t_ = self.expr(b)
                return f"(Some {self.toZ(s_, t_, e)})"
            return (f"(pslice {base} {bound(e.slice.lower)} {bound(e.slice.upper)})", bt)
        if isinstance(e, ast.Subscript):
            base, bt = self.expr(e.value)
            idx, it = self.expr(e.slice)
            idx = self.toZ(idx, it, e)
            if bt == "list":
                return (f"(tidx {base} {idx})", Z)
            if bt == "list2":
                return (f"(tidx2 {base} {idx})", "list")
            self.fail(e, "subscript of non-table")
        if isinstance(e, ast.Attribute):
            if e.attr in c.attrs:
                base, bt = self.expr(e.value)
                proj, t = c.attrs[e.attr]
                return (f"({proj} {base})", t)
            self.fail(e, "attribute")
        if isinstance(e, ast.Call):
            return self.call(e)
        self.fail(e)

    def cmp(self, left, op, right, node):
        if (self.ctx.obj_fragment and isinstance(op, (ast.In, ast.NotIn)) and isinstance(right, ast.Tuple) and right.elts
                and all(isinstance(x, ast.Constant) and isinstance(x.value, int) and not isinstance(x.value, bool) for x in right.elts)):
            l, lt = self.expr(left)          # x in (c1, c2, ...): equality with one of the integer constants
            l = self.toZ(l, lt, node)
            code = "(" + " || ".join(f"({l} =? {x.value})" for x in right.elts) + ")"
            return f"(negb {code})" if isinstance(op, ast.NotIn) else code
        l, lt = self.expr(left)
        r, rt = self.expr(right)
        if self.ctx.obj_fragment and (lt not in (Z, B) or rt not in (Z, B) or isinstance(op, (ast.Is, ast.IsNot))):
            opn = type(op).__name__
            neg = opn in ("IsNot", "NotEq")
            base = {"IsNot": "Is", "NotEq": "Eq"}.get(opn, opn)
            code = None
            if base == "Is" and "none" in (lt, rt):
                other, ot = (r, rt) if lt == "none" else (l, lt)
                if ot == "none":
                    code = "true"
                elif is_opt(ot):
                    code = f"(match {other} with None => true | Some _ => false end)"
            elif (base, lt, rt) in self.ctx.cmpops:
                val = self.ctx.cmpops[(base, lt, rt)]
                if isinstance(val, tuple):        # (template, "result"): a comparison that can raise (bound like a raising call)
                    code = "(" + val[0].format(l=l, r=r) + ")"
                    if val[1] == "result":
                        code = self.hoist(code, B, node)[0]
                else:
                    code = "(" + val.format(l=l, r=r) + ")"
            if code is None:
                self.fail(node, f"comparison {(opn, lt, rt)} on non-integers")
            return f"(negb {code})" if neg else code
        if lt == B and rt == B and isinstance(op, (ast.Eq, ast.NotEq)):
            s = f"(Bool.eqb {l} {r})"
            return s if isinstance(op, ast.Eq) else f"(negb {s})"
        l, r = self.toZ(l, lt, node), self.toZ(r, rt, node)
        table = {ast.Eq: "=?", ast.Lt: "<?", ast.LtE: "<=?", ast.Gt: ">?", ast.GtE: ">=?"}
        for k, o in table.items():
            if isinstance(op, k):
                return f"({l} {o} {r})"
        if isinstance(op, ast.NotEq):
            return f"(negb ({l} =? {r}))"
        self.fail(node, "comparison")

    def cond(self, e) -> str:
        if isinstance(e, ast.BoolOp) and self.ctx.int_boolop:
            # in a truth context only the truthiness of each operand matters (operands may mix ints, bools, lists)
            parts = [self.lazily(lambda x=x: self.cond(x), i > 0) for i, x in enumerate(e.values)]
            return "(" + (" && " if isinstance(e.op, ast.And) else " || ").join(parts) + ")"
        s, t = self.expr(e)
        if t == B:
            return s
        if t == Z:   # truthiness of an int
            return f"(negb ({s} =? 0))"
        if t in ("list", "list2") and self.ctx.list_fragment:
            return f"(negb (plen {s} =? 0))"
        if self.ctx.obj_fragment and t in self.ctx.truth:
            return "(" + self.ctx.truth[t].format(x=s) + ")"
        self.fail(e, "truthiness of non-scalar")

    def toZ(self, s, t, node):
        if t == Z:
            return s
        if t == B:
            return f"(Z.b2z {s})"
        self.fail(node, f"expected integer, got {t}")

    def coerce(self, s, t, want, node):
        """s : t as a value of type want (ints/bools, T -> T | None, None -> T | None)"""
        if want == Z:
            return self.toZ(s, t, node)
        if t == want:
            return s
        if is_opt(want) and t == want[1]:
            return f"(Some {s})"
        if is_opt(want) and t == "none":
            return "None"
        if is_opt(want) and want[1] == Z and t == B:
            return f"(Some (Z.b2z {s}))"
        self.fail(node, f"argument of type {t}, want {want}")

    def need(self, t, want, node):
        if t != want:
            self.fail(node, f"expected {want}, got {t}")

    def call(self, e: ast.Call):
        c = self.ctx
        f = e.func
        if c.obj_fragment and isinstance(f, ast.Name) and f.id in c.kwfuncs:
            coq, params, defaults, types, rett, monad = c.kwfuncs[f.id]
            given = {}
            if len(e.args) > len(params):
                self.fail(e, "too many positional arguments")
            for p_, a_ in zip(params, e.args):        # Python evaluates positional arguments, then keywords, left to right
                given[p_] = self.expr(a_)
            for kw in e.keywords:
                if kw.arg is None or kw.arg not in params or kw.arg in given:
                    self.fail(e, "keyword argument")
                given[kw.arg] = self.expr(kw.value)
            conv = []
            for p_, ty in zip(params, types):
                if p_ in given:
                    s_, t_ = given[p_]
                    conv.append(self.coerce(s_, t_, ty, e))
                elif p_ in defaults:
                    conv.append(defaults[p_])
                else:
                    self.fail(e, f"missing argument {p_}")
            code = f"({coq} " + " ".join(conv) + ")"
            return self.hoist(code, rett, e) if monad == "result" else (code, rett)
        if c.obj_fragment and isinstance(f, ast.Attribute) and (c.kwmethods or c.kwtemplates) \
                and any(k[0] == f.attr for k in list(c.kwmethods) + list(c.kwtemplates)):
            base, bt = self.expr(f.value)
            tkey = (f.attr, bt, tuple(sorted(k.arg or "" for k in e.keywords)))
            if not e.args and tkey in c.kwtemplates:
                tmpl, ktypes, rett, monad = c.kwtemplates[tkey]
                vals = {"self": base}
                for kw in e.keywords:
                    s_, t_ = self.expr(kw.value)
                    vals[kw.arg] = self.coerce(s_, t_, ktypes[kw.arg], e)
                code = "(" + tmpl.format(**vals) + ")"
                return self.hoist(code, rett, e) if monad == "result" else (code, rett)
            if (f.attr, bt) in c.kwmethods:
                coq, params, defaults, types, rett, monad = c.kwmethods[(f.attr, bt)]
                given = {}
                if len(e.args) > len(params):
                    self.fail(e, "too many positional arguments")
                for p_, a_ in zip(params, e.args):
                    given[p_] = self.expr(a_)
                for kw in e.keywords:
                    if kw.arg is None or kw.arg not in params or kw.arg in given:
                        self.fail(e, "keyword argument")
                    given[kw.arg] = self.expr(kw.value)
                conv = [base]
                for p_, ty in zip(params, types):
                    if p_ in given:
                        conv.append(self.coerce(given[p_][0], given[p_][1], ty, e))
                    elif p_ in defaults:
                        conv.append(defaults[p_])
                    else:
                        self.fail(e, f"missing argument {p_}")
                code = f"({coq} " + " ".join(conv) + ")"
                return self.hoist(code, rett, e) if monad == "result" else (code, rett)
            self.fail(e, f"method {f.attr} on a receiver of type {bt} with these arguments")
        if e.keywords:
            self.fail(e, "keyword arguments")
        if isinstance(f, ast.Name):
            n = f.id
            args = [self.expr(a) for a in e.args]
            if n == "int" and len(args) == 1:
                return (self.toZ(args[0][0], args[0][1], e), Z)
            if n == "bool" and len(args) == 1:
                return (self.cond(e.args[0]), B)
            if n == "abs" and len(args) == 1:
                return (f"(Z.abs {self.toZ(*args[0], e)})", Z)
            if n in ("min", "max") and len(args) == 2:
                return (f"(Z.{n} {self.toZ(*args[0], e)} {self.toZ(*args[1], e)})", Z)
            if c.list_fragment and n == "len" and len(args) == 1 and args[0][1] in ("list", "list2"):
                return (f"(plen {args[0][0]})", Z)
            if c.list_fragment and n == "list" and len(args) == 1 and args[0][1] == "list":
                return (args[0][0], "list")     # a copy: equal value (aliasing is excluded by the freshness rule for updates)
            if n == "divmod" and len(args) == 2:
                a, b = self.toZ(*args[0], e), self.toZ(*args[1], e)
                return (f"({a} / {b}, {a} mod {b})", (Z, Z))
            if n in self.local_funs:
                return (f"({self.local_funs[n]} " + " ".join(a[0] for a in args) + ")", Z)
            if n in c.funcs:
                coq, argt, rett, monad = c.funcs[n]
                if monad is not None and not (monad == "result" and rett is not None):
                    self.fail(e, "monadic callee in expression position")
                conv = []
                for i, (s, t) in enumerate(args):
                    want = argt[i] if argt else t
                    if want == Z:
                        s = self.toZ(s, t, e)
                    elif want != t:
                        self.fail(e, f"argument {i} type {t}, want {want}")
                    conv.append(s)
                if monad == "result":
                    return self.hoist(f"({coq} " + " ".join(conv) + ")", rett, e)
                return (f"({coq} " + " ".join(conv) + ")", rett)
            self.fail(e, "call to unknown function")
        if isinstance(f, ast.Attribute):
            path = ast.unparse(f)
            if path == "math.ceil" and len(e.args) == 1 and isinstance(e.args[0], ast.BinOp) and isinstance(e.args[0].op, ast.Div):
                # ceil of a float quotient of two small integers: modelled as exact ceiling division
                # (rule validated by the harness over the finite domains where it is used)
                a, at = self.expr(e.args[0].left)
                b, bt = self.expr(e.args[0].right)
                return (f"(cdiv {self.toZ(a, at, e)} {self.toZ(b, bt, e)})", Z)
            if path in c.funcs:
                coq, argt, rett, monad = c.funcs[path]
                if monad is not None and not (monad == "result" and rett is not None):
                    self.fail(e, "monadic callee in expression position")
                args = [self.expr(a) for a in e.args]
                code_ = (f"({coq} " + " ".join(self.toZ(s_, t_, e) if t_ in (Z, B) and (not argt or argt[i] == Z) else s_ for i, (s_, t_) in enumerate(args)) + ")")
                if monad == "result":
                    return self.hoist(code_, rett, e)
                return (code_, rett)
            # math.floor on an int is the identity
            if isinstance(f.value, ast.Name) and f.value.id == "math" and f.attr == "floor" and len(e.args) == 1:
                s, t = self.expr(e.args[0])
                self.need(t, Z, e)
                return (s, Z)
            if f.attr in c.methods:
                coq, rett, monad = c.methods[f.attr]
                if monad is not None and not (monad == "result" and rett is not None):
                    self.fail(e, "monadic method in expression position")
                base, _ = self.expr(f.value)
                args = [self.expr(a)[0] for a in e.args]
                if monad == "result":
                    return self.hoist((f"({coq} {base} " + " ".join(args)).rstrip() + ")", rett, e)
                return (f"({coq} {base} " + " ".join(args) + ")", rett)
        self.fail(e, "call")

    # ---------- statements ----------
    def v(self, name):
        return "v_" + name

    def assigned(self, stmts):
        out = []
        for s in stmts:
            for n in ast.walk(s):
                if isinstance(n, (ast.Assign, ast.AugAssign, ast.AnnAssign)):
                    tgts = n.targets if isinstance(n, ast.Assign) else [n.target]
                    for t in tgts:
                        if isinstance(t, ast.Subscript) and self.ctx.list_fragment:
                            r = self.sub_root(t)
                            if r is not None and r not in out:
                                out.append(r)
                            continue
                        for x in ast.walk(t):
                            if isinstance(x, ast.Name) and x.id not in out:
                                out.append(x.id)
        return out

    @staticmethod
    def sub_root(t):
        while isinstance(t, ast.Subscript):
            t = t.value
        return t.id if isinstance(t, ast.Name) else None

    def is_fresh_list(self, val):
        """val creates a new list object none of whose (list) elements is shared with anything else"""
        if isinstance(val, ast.List):
            return all(self.is_fresh_list(x) or self.expr_type(x) == Z for x in val.elts)
        return isinstance(val, ast.Call) and isinstance(val.func, ast.Name) and val.func.id == "list" and len(val.args) == 1

    def expr_type(self, e):
        saved = (list(self.pending), self.ntmp)
        try:
            return self.expr(e)[1]
        finally:
            self.pending, self.ntmp = saved

    def store_sub(self, tgt, val, node):
        """code of the functional update for the target l[i] / l[i][j] := val -> (root name, option-valued coq expression)"""
        root = self.sub_root(tgt)
        if root is None or root not in self.env or root not in self.fresh:
            self.fail(node, "in-place update of a list that is not a fresh local (it could be aliased)")
        if isinstance(tgt.value, ast.Name) and self.env[root] == "list":
            i, it = self.expr(tgt.slice)
            return root, f"(pset {self.v(root)} {self.toZ(i, it, node)} {val})"
        if isinstance(tgt.value, ast.Subscript) and isinstance(tgt.value.value, ast.Name) and self.env[root] == "list2":
            i, it = self.expr(tgt.value.slice)
            j, jt = self.expr(tgt.slice)
            return root, f"(pset2 {self.v(root)} {self.toZ(i, it, node)} {self.toZ(j, jt, node)} {val})"
        self.fail(node, "subscript assignment target")

    def read_names(self, stmts):
        out = []
        for s in stmts:
            for n in ast.walk(s):
                if isinstance(n, ast.Name) and n.id not in out:
                    out.append(n.id)
        return out

    def terminates(self, stmts):
        """True when every path through stmts ends in return/raise."""
        if not stmts:
            return False
        last = stmts[-1]
        if isinstance(last, (ast.Return, ast.Raise)):
            return True
        if isinstance(last, ast.If):
            return self.terminates(last.body) and self.terminates(last.orelse)
        return False

    def has_exit(self, stmts):
        if self.ctx.conservative_exit and any(isinstance(n, (ast.Call, ast.BinOp, ast.UnaryOp, ast.AugAssign, ast.Compare))
                                              for s in stmts for n in ast.walk(s)):
            return True
        return any(isinstance(n, (ast.Return, ast.Raise, ast.Break, ast.Assert)) or self.raising_call(n) or self.list_leaves(n)
                   for s in stmts for n in ast.walk(s))

    def none_tests(self, test):
        """[x, y, ...] when test is `x is None` or `x is None or y is None ...` on local names of optional type"""
        parts = test.values if isinstance(test, ast.BoolOp) and isinstance(test.op, ast.Or) else [test]
        out = []
        for p in parts:
            if (isinstance(p, ast.Compare) and len(p.ops) == 1 and isinstance(p.ops[0], ast.Is) and isinstance(p.left, ast.Name)
                    and isinstance(p.comparators[0], ast.Constant) and p.comparators[0].value is None
                    and is_opt(self.env.get(p.left.id)) and p.left.id not in out):
                out.append(p.left.id)
            else:
                return []
        return out

    def list_leaves(self, n):
        """list-fragment statements that can raise (IndexError / ValueError) or are translated as a recursive function"""
        if not self.ctx.list_fragment:
            return False
        return (isinstance(n, ast.For) or (isinstance(n, ast.Subscript) and isinstance(n.ctx, ast.Store))
                or (isinstance(n, ast.Assign) and isinstance(n.targets[0], ast.Tuple) and isinstance(n.value, ast.Subscript)
                    and isinstance(n.value.slice, ast.Slice)))

    def branch(self, test, kt, kf):
        """`if test then kt() else kf()` where test may call raising callees in positions Python evaluates conditionally:
        not / and / or / chained comparisons are unfolded into nested conditionals in Python's evaluation order
        (kt/kf may be emitted more than once)."""
        if self.has_raising_call(test):
            if isinstance(test, ast.UnaryOp) and isinstance(test.op, ast.Not):
                return self.branch(test.operand, kf, kt)
            if isinstance(test, ast.BoolOp):
                first, others = test.values[0], test.values[1:]
                rest_e = others[0] if len(others) == 1 else ast.copy_location(ast.BoolOp(op=test.op, values=others), test)
                if isinstance(test.op, ast.And):
                    return self.branch(first, lambda: self.branch(rest_e, kt, kf), kf)
                return self.branch(first, kt, lambda: self.branch(rest_e, kt, kf))
            if isinstance(test, ast.Compare) and len(test.ops) > 1:
                # a op1 b op2 c  ==  (a op1 b) and (b op2 c) when the shared operands are names or constants
                if not all(isinstance(x, (ast.Name, ast.Constant)) for x in test.comparators[:-1]):
                    self.fail(test, "chained comparison whose middle operand is not a name/constant")
                pairs, left = [], test.left
                for op, right in zip(test.ops, test.comparators):
                    pairs.append(ast.copy_location(ast.Compare(left=left, ops=[op], comparators=[right]), test))
                    left = right
                return self.branch(ast.copy_location(ast.BoolOp(op=ast.And(), values=pairs), test), kt, kf)
        c = self.cond(test)
        pend = self.take()
        env0 = dict(self.env)
        a = kt()
        env_a = self.env
        self.env = dict(env0)
        b = kf()
        self.env = env_a
        return self.wrap(pend, f"if {c} then (\n  {a})\n  else (\n  {b})")

    def wrap_ok(self, s):
        if self.monad == "result":
            return f"Ok {s}"
        if self.monad == "option":
            return f"Some {s}"
        return s

    def block(self, stmts, k):
        """Translate stmts then continuation k() -> str (an expression of the function's return type).
        k is None when falling off the end is an error."""
        if not stmts:
            if k is None:
                raise Unsupported(f"{self.fn.name}: a path falls off the end without return")
            return k()
        s, rest = stmts[0], stmts[1:]
        if isinstance(s, ast.Expr) and isinstance(s.value, ast.Constant) and isinstance(s.value.value, str):
            return self.block(rest, k)
        if isinstance(s, ast.Pass):
            return self.block(rest, k)
        if isinstance(s, ast.Assert) and self.ctx.assert_exn is not None:
            if self.in_loop or self.monad != "result":
                self.fail(s, "assert inside a loop")
            m = s.msg     # evaluated only when the assertion fails, and only to build the message: must be effect-free
            if not (m is None or isinstance(m, (ast.Name, ast.Constant))
                    or (isinstance(m, ast.BinOp) and isinstance(m.op, ast.Mod) and isinstance(m.left, ast.Constant)
                        and isinstance(m.left.value, str) and isinstance(m.right, ast.Name))):
                self.fail(s, "assert message")
            return self.branch(s.test, lambda: self.block(rest, k), lambda: f"Raise {self.ctx.assert_exn}")
        if isinstance(s, ast.FunctionDef):
            # local pure helper with a single return
            if len(s.body) == 1 and isinstance(s.body[0], ast.Return):
                saved = dict(self.env)
                params = [a.arg for a in s.args.args]
                for p in params:
                    self.env[p] = Z
                body, t = self.expr(s.body[0].value)
                self.no_pending(s)
                self.need(t, Z, s)
                self.env = saved
                lname = "lf_" + s.name
                self.local_funs[s.name] = lname
                ps = " ".join(f"({self.v(p)} : Z)" for p in params)
                return f"let {lname} := fun {ps} => {body} in\n  " + self.block(rest, k)
            self.fail(s, "nested function")
        if isinstance(s, ast.Return):
            if s.value is None:
                self.fail(s, "bare return")
            e, t = self.expr(s.value)
            pend = self.take()
            if self.ret_decl is not None:
                d = self.ret_decl
                if is_opt(d) and t == "none":
                    e, t = "None", d
                elif is_opt(d) and t == d[1]:
                    e, t = f"(Some {e})", d
                elif t != d:
                    self.fail(s, f"returns {t}, declared {d}")
            if isinstance(t, tuple) and len(t) == 2 and t[0] == "result":
                # a model primitive that can raise: its result is the function's result
                if self.monad != "result":
                    self.fail(s, "raising primitive in a function without raise")
                self.note_ret(t[1], s)
                return self.wrap(pend, e)
            self.note_ret(t, s)
            return self.wrap(pend, self.wrap_ok(e))
        if isinstance(s, ast.Raise):
            kind = "Exception"
            if isinstance(s.exc, ast.Call) and isinstance(s.exc.func, ast.Name):
                kind = s.exc.func.id
            elif isinstance(s.exc, ast.Name):
                kind = s.exc.id
            return f"Raise E_{kind}"
        if isinstance(s, (ast.Assign, ast.AnnAssign)):
            if isinstance(s, ast.Assign) and len(s.targets) > 1 and (self.ctx.list_fragment or self.ctx.obj_fragment) \
                    and all(isinstance(t_, ast.Name) for t_ in s.targets):
                # a = b = e: e is evaluated once, then bound to the targets from left to right
                first = ast.copy_location(ast.Assign(targets=[s.targets[0]], value=s.value), s)
                others = [ast.copy_location(ast.Assign(targets=[t_], value=ast.Name(id=s.targets[0].id, ctx=ast.Load())), s)
                          for t_ in s.targets[1:]]
                if self.is_fresh_list(s.value):
                    self.fail(s, "several names bound to one new list")
                return self.block([first] + others + rest, k)
            if isinstance(s, ast.Assign):
                if len(s.targets) != 1:
                    self.fail(s, "multiple targets")
                tgt, val = s.targets[0], s.value
            else:
                tgt, val = s.target, s.value
            if (isinstance(val, ast.Constant) and val.value is None and isinstance(tgt, ast.Name)
                    and tgt.id in self.ctx.none_for):
                e, t = self.ctx.none_for[tgt.id]     # `name = None` for a declared optional local (C06)
            else:
                e, t = self.expr(val)
            pend = self.take()
            if self.ctx.list_fragment and isinstance(tgt, ast.Name):
                if self.is_fresh_list(val):
                    self.fresh.add(tgt.id)
                else:
                    self.fresh.discard(tgt.id)
            if self.ctx.list_fragment and isinstance(tgt, ast.Subscript):
                # l[i] = e / l[i][j] = e on a fresh local list: functional update, IndexError outside the list
                if self.monad != "result":
                    self.fail(s, "subscript assignment in a function that is not in the result monad")
                root, upd = self.store_sub(tgt, self.toZ(e, t, s), s)
                return self.wrap(pend, f"match {upd} with\n  | None => Raise E_IndexError\n  | Some {self.v(root)} =>\n  "
                                 + self.block(rest, k) + "\n  end")
            if self.ctx.list_fragment and isinstance(tgt, ast.Tuple) and t == "list" and all(isinstance(x, ast.Name) for x in tgt.elts):
                # a, b = <list>: ValueError unless the list has exactly that many elements
                if self.monad != "result":
                    self.fail(s, "sequence unpacking in a function that is not in the result monad")
                names = [x.id for x in tgt.elts]
                for n_ in names:
                    self.env[n_] = Z
                    self.fresh.discard(n_)
                pat = "; ".join(f"t_{n_}" for n_ in names)
                binds = "".join(f"let {self.v(n_)} := t_{n_} in " for n_ in names)
                return self.wrap(pend, f"match {e} with\n  | [{pat}] => {binds}\n  " + self.block(rest, k)
                                 + "\n  | _ => Raise E_ValueError\n  end")
            if isinstance(t, tuple) and len(t) == 2 and t[0] == "result" and isinstance(tgt, ast.Name):
                if self.monad != "result":
                    self.fail(s, "raising primitive in a function without raise")
                self.env[tgt.id] = t[1]
                return self.wrap(pend, f"match {e} with\n  | Raise exn_ => Raise exn_\n  | Ok {self.v(tgt.id)} =>\n  " + self.block(rest, k) + "\n  end")
            if isinstance(tgt, ast.Name):
                self.env[tgt.id] = t
                return self.wrap(pend, f"let {self.v(tgt.id)} := {e} in\n  " + self.block(rest, k))
            if isinstance(tgt, ast.Tuple) and isinstance(t, tuple) and len(t) == len(tgt.elts) and all(isinstance(x, ast.Name) for x in tgt.elts):
                # simultaneous assignment: evaluate the right-hand side first
                names = [x.id for x in tgt.elts]
                tmp = [f"t_{n}" for n in names]
                for n_, ty in zip(names, t):
                    self.env[n_] = ty
                pat = ", ".join(tmp)
                binds = "".join(f"let {self.v(n_)} := {tm} in " for n_, tm in zip(names, tmp))
                return self.wrap(pend, f"let '({pat}) := {e} in {binds}\n  " + self.block(rest, k))
            self.fail(s, "assignment target")
        if isinstance(s, ast.AugAssign) and isinstance(s.target, ast.Subscript) and self.ctx.list_fragment:
            # l[i] op= e: read l[i] (IndexError outside), combine, store back
            if self.monad != "result":
                self.fail(s, "subscript assignment in a function that is not in the result monad")
            load = ast.Subscript(value=s.target.value, slice=s.target.slice, ctx=ast.Load())
            fake = ast.copy_location(ast.BinOp(left=ast.copy_location(load, s), op=s.op, right=s.value), s)
            e, t = self.expr(fake)
            pend = self.take()
            root, upd = self.store_sub(s.target, self.toZ(e, t, s), s)
            return self.wrap(pend, f"match {upd} with\n  | None => Raise E_IndexError\n  | Some {self.v(root)} =>\n  "
                             + self.block(rest, k) + "\n  end")
        if isinstance(s, ast.For) and self.ctx.list_fragment:
            return self.for_range(s, rest, k)
        if isinstance(s, ast.AugAssign):
            if not isinstance(s.target, ast.Name):
                self.fail(s, "augmented target")
            fake = ast.BinOp(left=ast.Name(id=s.target.id, ctx=ast.Load()), op=s.op, right=s.value)
            ast.copy_location(fake, s)
            e, t = self.expr(fake)
            pend = self.take()
            self.env[s.target.id] = t
            return self.wrap(pend, f"let {self.v(s.target.id)} := {e} in\n  " + self.block(rest, k))
        if isinstance(s, ast.Expr) and self.ctx.obj_fragment and self.raising_call(s.value):
            # a call made for its checks only: the result is dropped, an exception propagates
            self.expr(s.value)
            pend = self.take()
            return self.wrap(pend, self.block(rest, k))
        if isinstance(s, ast.If) and self.ctx.obj_fragment and not s.orelse and isinstance(s.test, ast.Compare) \
                and len(s.test.ops) == 1 and isinstance(s.test.ops[0], ast.IsNot) and isinstance(s.test.left, ast.Name) \
                and isinstance(s.test.comparators[0], ast.Constant) and s.test.comparators[0].value is None \
                and is_opt(self.env.get(s.test.left.id)) and s.test.left.id not in self.assigned(s.body):
            # if x is not None: <body>   -> inside the body (and in the continuation of that branch) x is known not to be None
            x = s.test.left.id
            env0 = dict(self.env)
            kk = (lambda: self.block(rest, k)) if (rest or k) else None
            none_branch = kk() if kk else None
            if none_branch is None:
                self.fail(s, "a path falls off the end")
            self.env = dict(env0)
            self.env[x] = env0[x][1]
            some_branch = self.block(s.body, kk if not self.terminates(s.body) else None)
            return f"match {self.v(x)} with\n  | None => (\n  {none_branch})\n  | Some {self.v(x)} => (\n  {some_branch})\n  end"
        if isinstance(s, ast.If) and self.ctx.obj_fragment and not s.orelse:
            names = self.none_tests(s.test)
            if names and len(s.body) == 1 and isinstance(s.body[0], ast.Assign) and len(names) == 1 \
                    and len(s.body[0].targets) == 1 and isinstance(s.body[0].targets[0], ast.Name) and s.body[0].targets[0].id == names[0]:
                # if x is None: x = e      (default of an optional value)
                x = names[0]
                e, t = self.expr(s.body[0].value)
                pend = self.take()
                inner = self.env[x][1]
                if t == Z and inner == B or t == B and inner == Z:
                    self.fail(s, "default of another type")
                if t == self.env[x]:      # the default is itself optional: the variable stays optional
                    return self.wrap(pend, f"let {self.v(x)} := match {self.v(x)} with None => {e} | Some w_ => Some w_ end in\n  "
                                     + self.block(rest, k))
                if t != inner:
                    self.fail(s, f"default of type {t} for an optional {inner}")
                self.env[x] = inner
                return self.wrap(pend, f"let {self.v(x)} := match {self.v(x)} with None => {e} | Some w_ => w_ end in\n  " + self.block(rest, k))
            if names and self.terminates(s.body):
                # if x is None [or y is None]: <leaves>     -> afterwards x (and y) are known not to be None
                env0 = dict(self.env)
                code = "\u0001"
                for x in names:
                    body = self.block(s.body, None)
                    self.env = dict(env0)
                    code = code.replace("\u0001", f"match {self.v(x)} with\n  | None => (\n  {body})\n  | Some {self.v(x)} =>\n  \u0001\n  end")
                    env0[x] = env0[x][1]
                    self.env = dict(env0)
                return code.replace("\u0001", self.block(rest, k))
        if isinstance(s, ast.If):
            c = self.cond(s.test)
            pend = self.take()
            if self.has_exit(s.body) or self.has_exit(s.orelse):
                # at least one branch may leave: duplicate the continuation into both branches
                env0 = dict(self.env)
                kk = (lambda: self.block(rest, k)) if (rest or k) else None
                a = self.block(s.body, kk if not self.terminates(s.body) else None) if s.body else kk()
                env_a = self.env
                self.env = dict(env0)
                b = self.block(s.orelse, kk if not self.terminates(s.orelse) else None) if s.orelse else kk()
                # variable typing after the if: union (types must agree)
                for n_, ty in env_a.items():
                    if n_ in self.env and self.env[n_] != ty:
                        # (list fragment: the continuation was translated separately inside each branch with that branch's own
                        #  typing, e.g. `fold = 0` / `fold = a > b`; nothing is translated after this point with the joined typing)
                        if not ((self.ctx.list_fragment and {self.env[n_], ty} == {Z, B})
                                or (self.ctx.obj_fragment and (self.env[n_] == ("opt", ty) or ty == ("opt", self.env[n_])))):
                            self.fail(s, f"variable {n_} has different types in branches")
                    self.env.setdefault(n_, ty)
                return self.wrap(pend, f"if {c} then (\n  {a})\n  else (\n  {b})")
            # pure join: both branches only assign
            vars_ = self.assigned(s.body + s.orelse)
            env0 = dict(self.env)
            # a variable assigned in one branch only and not defined before the `if` is a branch-local temporary:
            # it is not joined, and it is undefined afterwards (a later read fails closed as an unknown name)
            local_tmp = [n_ for n_ in vars_ if n_ not in env0
                         and not (n_ in self.assigned(s.body) and n_ in self.assigned(s.orelse))]
            vars_ = [n_ for n_ in vars_ if n_ not in local_tmp]
            tup = lambda: "(" + ", ".join(self.v(n_) for n_ in vars_) + ")" if len(vars_) > 1 else (self.v(vars_[0]) if vars_ else "tt")
            a = self.block(s.body, tup) if s.body else tup()
            env_a = dict(self.env)
            self.env = dict(env0)
            b = self.block(s.orelse, tup) if s.orelse else tup()
            for n_ in vars_:
                ta, tb = env_a.get(n_), self.env.get(n_)
                if ta != tb:
                    self.fail(s, f"variable {n_} has different types in branches ({ta}/{tb})")
            for n_ in local_tmp:
                self.env.pop(n_, None)
            if not vars_:
                return self.wrap(pend, self.block(rest, k))
            pat = "'(" + ", ".join(self.v(n_) for n_ in vars_) + ")" if len(vars_) > 1 else self.v(vars_[0])
            return self.wrap(pend, f"let {pat} := (if {c} then (\n  {a}) else (\n  {b})) in\n  " + self.block(rest, k))
        if isinstance(s, ast.While):
            return self.loop(s, rest, k)
        self.fail(s, "statement")

    def for_range(self, s: ast.For, rest, k):
        """for i in range([a,] b): body  ->  a function recursive on the iteration count max(0, b - a) (range is evaluated once);
        body: assignments / ifs / in-place list updates only (no return, break, continue, nested loop; i is not assigned)."""
        it = s.iter
        if s.orelse or not isinstance(s.target, ast.Name) or not (isinstance(it, ast.Call) and isinstance(it.func, ast.Name)
                                                                   and it.func.id == "range" and not it.keywords
                                                                   and len(it.args) in (1, 2)):
            self.fail(s, "for loop that is not `for <name> in range(a, b)`")
        if self.monad != "result":
            self.fail(s, "for loop in a function that is not in the result monad")
        if any(isinstance(n, (ast.Return, ast.Break, ast.Continue, ast.While, ast.For, ast.FunctionDef))
               for x in s.body for n in ast.walk(x)):
            self.fail(s, "return/break/continue/nested loop inside a for loop")
        ivar = s.target.id
        if ivar in self.env or ivar in self.assigned(s.body):
            self.fail(s, "the loop variable is assigned elsewhere")
        if len(it.args) == 1:
            lo = "0"
        else:
            lo_s, lo_t = self.expr(it.args[0])
            lo = self.toZ(lo_s, lo_t, s)
        hi_s, hi_t = self.expr(it.args[-1])
        hi = self.toZ(hi_s, hi_t, s)
        pend = self.take()
        self.nloop += 1
        lname = f"{self.name}_for{self.nloop}"
        carried = [n for n in self.assigned(s.body) if n in self.env]
        if not carried:
            self.fail(s, "loop carries no variable")
        reads = [n for n in self.read_names(s.body) if n in self.env and n not in carried]
        env0 = dict(self.env)
        fresh0 = set(self.fresh)
        self.env[ivar] = Z
        args = " ".join(self.v(n_) for n_ in reads + carried)
        tup = "(" + ", ".join(self.v(n_) for n_ in carried) + ")" if len(carried) > 1 else self.v(carried[0])
        body = self.block(s.body, lambda: f"{lname} fuel' ({self.v(ivar)} + 1) {args}")
        for n_ in carried:
            if self.env.get(n_) != env0[n_]:
                self.fail(s, f"loop changes the type of {n_}")
        self.env = env0
        self.fresh = fresh0
        sig = " ".join(f"({self.v(n_)} : {_tname(env0[n_])})" for n_ in reads + carried)
        rty = " * ".join(_tname(env0[n_]) for n_ in carried)
        self.loops.append(
            f"Fixpoint {lname} (fuel : nat) ({self.v(ivar)} : Z) {sig} {{struct fuel}} : result ({rty}) :=\n"
            f"  match fuel with\n  | O => Ok {tup}\n  | S fuel' =>\n  {body}\n  end.\n")
        return self.wrap(pend, f"match {lname} (Z.to_nat ({hi} - {lo})) {lo} {args} with\n  | Raise exn_ => Raise exn_\n"
                               f"  | Ok {tup} =>\n  " + self.block(rest, k) + "\n  end")

    def note_ret(self, t, node):
        if self.rettype is None:
            self.rettype = t
        elif self.rettype != t:
            self.fail(node, f"return types differ: {self.rettype} vs {t}")

    def loop(self, s: ast.While, rest, k):
        if s.orelse:
            self.fail(s, "while-else")
        self.nloop += 1
        idx = self.nloop
        lname = f"{self.name}_loop{idx}"
        # variables assigned in the body and defined before the loop are carried; variables first
        # assigned inside the body are iteration-local temporaries (reading them after the loop or
        # before their assignment fails closed as an unknown name, because env is restored)
        carried = [n for n in self.assigned(s.body) if n in self.env]
        if not carried:
            self.fail(s, "loop carries no variable")
        reads = [n for n in self.read_names([s]) if n in self.env and n not in carried]
        params = reads + carried
        sig = " ".join(f"({self.v(n_)} : {_tname(self.env[n_])})" for n_ in params)
        rty = " * ".join(_tname(self.env[n_]) for n_ in carried)
        tup = "(" + ", ".join(self.v(n_) for n_ in carried) + ")"
        env0 = dict(self.env)
        cond = self.cond(s.test)
        self.no_pending(s)
        rec = lambda: f"{lname} fuel' " + " ".join(self.v(n_) for n_ in params)
        self.in_loop += 1
        try:
            body = self.loop_body(s.body, rec, tup)
        finally:
            self.in_loop -= 1
        self.env = env0   # types are loop-invariant by the check in loop_body
        fx = (f"Fixpoint {lname} (fuel : nat) {sig} {{struct fuel}} : option ({rty}) :=\n"
              f"  match fuel with\n  | O => None\n  | S fuel' =>\n"
              f"    if {cond} then (\n  {body})\n    else Some {tup}\n  end.\n")
        self.loops.append(fx)
        fuel = self.ctx.loop_fuel.get((self.fn.name, idx), self.fuel_default)
        call = f"{lname} {fuel}%nat " + " ".join(self.v(n_) for n_ in params)
        if self.monad == "result":
            none = "Raise E_OutOfFuel"
        else:
            none = "None"
        return (f"match {call} with\n  | None => {none}\n  | Some {tup} =>\n  " + self.block(rest, k) + "\n  end")

    def loop_body(self, stmts, rec, tup):
        """Body of a while: assignments; `if c: ...; break` allowed; no return/raise."""
        if not stmts:
            return rec()
        s, rest = stmts[0], stmts[1:]
        if isinstance(s, ast.Break):
            return f"Some {tup}"
        if isinstance(s, ast.If) and self.has_exit(s.body + s.orelse):
            if any(isinstance(n, (ast.Return, ast.Raise)) for x in s.body + s.orelse for n in ast.walk(x)):
                self.fail(s, "return/raise inside a loop")
            c = self.cond(s.test)
            self.no_pending(s)
            env0 = dict(self.env)
            a = self.loop_body(s.body + ([] if self._ends_break(s.body) else rest), rec, tup)
            self.env = dict(env0)
            b = self.loop_body(s.orelse + ([] if self._ends_break(s.orelse) else rest), rec, tup)
            self.env = env0
            return f"if {c} then (\n  {a}) else (\n  {b})"
        if isinstance(s, (ast.Return, ast.Raise, ast.While)):
            self.fail(s, "unsupported statement inside a loop")
        # reuse block() for a single non-exiting statement
        before = dict(self.env)
        out = self.block([s], lambda: "\u0000")
        for n_, ty in self.env.items():
            if n_ in before and before[n_] != ty:
                self.fail(s, f"loop changes the type of {n_}")
        return out.replace("\u0000", self.loop_body(rest, rec, tup))

    @staticmethod
    def _ends_break(stmts):
        return bool(stmts) and isinstance(stmts[-1], ast.Break)

    # ---------- whole function ----------
    def translate(self):
        fn = self.fn
        params = []
        for a in fn.args.args:
            if a.arg == "self":
                if self.self_type is None:
                    raise Unsupported(f"{fn.name}: method without a self model")
                self.env["self"] = self.self_type
                params.append(("self", self.self_type))
                continue
            t = self.argtypes.get(a.arg)
            if t is None:
                ann = ast.unparse(a.annotation) if a.annotation else ""
                t = {"int": Z, "bool": B, "float": Z}.get(ann)
                if t is None:
                    raise Unsupported(f"{fn.name}: parameter {a.arg} has no integer/bool annotation ({ann})")
            self.env[a.arg] = t
            params.append((a.arg, t))
        if fn.args.vararg or fn.args.kwarg or fn.args.kwonlyargs:
            raise Unsupported(f"{fn.name}: varargs")
        body = self.block(fn.body, None)
        rt = _tname(self.rettype) if self.rettype else "unit"
        if " " in rt and not rt.startswith("("):     # "list Z", "list (list Z)" as the argument of result/option
            rt = f"({rt})" if self.monad else rt
        if self.monad == "result":
            rts = f"result {rt}"
        elif self.monad == "option":
            rts = f"option {rt}"
        else:
            rts = rt
        sig = " ".join(f"({self.v(n_)} : {_tname(t)})" for n_, t in params)
        text = "".join(self.loops) + f"Definition {self.name} {sig} : {rts} :=\n  {body}.\n"
        return text, [t for _, t in params], self.rettype, self.monad


def find_function(tree: ast.Module, qualname: str) -> ast.FunctionDef:
    parts = qualname.split(".")
    body = tree.body
    node = None
    for p in parts:
        node = next((n for n in body if isinstance(n, (ast.FunctionDef, ast.ClassDef)) and n.name == p and not _is_overload(n)), None)
        if node is None:
            raise Unsupported(f"anchor {qualname} not found")
        body = node.body
    if not isinstance(node, ast.FunctionDef):
        raise Unsupported(f"{qualname} is not a function")
    return node


def _is_overload(n):
    return isinstance(n, ast.FunctionDef) and any(
        (isinstance(d, ast.Name) and d.id == "overload") for d in n.decorator_list)


def translate_function(ctx: Ctx, path: str, qualname: str, coq_name: str | None = None, register_as: str | None = None, **kw):
    tree = ast.parse(open(path).read())
    fn = find_function(tree, qualname)
    coq_name = coq_name or ("py_" + qualname.replace(".", "_").lstrip("_"))
    tr = FunTr(ctx, fn, coq_name, **kw)
    text, argt, rett, monad = tr.translate()
    _repo = os.path.abspath(os.environ.get("VERIF_REPO", "/repo"))
    _rel = os.path.relpath(path, _repo) if os.path.abspath(path).startswith(_repo + os.sep) else path.split('/repo/')[-1]
    ctx.out.append(f"(* translated from {_rel} :: {qualname} *)\n" + text)
    ctx.funcs[register_as or fn.name] = (coq_name, argt, rett, monad)
    return coq_name
