"""Shared helpers of the timezone properties (C01 C02 C03 C04 C05 C12 C19): canonical encodings, probes, zoneinfo oracles.
Top level imports the stdlib only; pendulum is imported lazily by the impl-side helpers."""
from __future__ import annotations

import datetime as _dt
import zoneinfo

from . import zones

MEG = 10 ** 6
US_DAY = 86400 * MEG
EPOCH_S = zones.EPOCH_S
EPOCH_US = EPOCH_S * MEG
MAX_WALL = 3652059 * US_DAY - 1

EXN = {"ValueError": 1, "TypeError": 2, "OverflowError": 3, "IndexError": 4, "RuntimeError": 5, "AttributeError": 6, "KeyError": 7,
       "ZeroDivisionError": 8, "ParserError": 9, "NonExistingTime": 10, "AmbiguousTime": 11, "PendulumException": 12}


def exn_result(e):
    return [1, EXN.get(type(e).__name__, 14)]


def wall_of(dt) -> int:
    """Wall-clock microseconds since 0001-01-01T00:00:00 of any datetime/date."""
    n = dt.toordinal()
    if isinstance(dt, _dt.datetime):
        return (n - 1) * US_DAY + ((dt.hour * 60 + dt.minute) * 60 + dt.second) * MEG + dt.microsecond
    return (n - 1) * US_DAY


def fields_of(W: int):
    d = _dt.date.fromordinal(W // US_DAY + 1)
    t = W % US_DAY
    s = t // MEG
    return d.year, d.month, d.day, s // 3600, s // 60 % 60, s % 60, t % MEG


def native(W, fold=0, tz=None):
    y, mo, d, h, mi, s, us = fields_of(W)
    return _dt.datetime(y, mo, d, h, mi, s, us, tzinfo=tz, fold=fold)


def off_s(dt):
    o = dt.utcoffset()
    return None if o is None else o.days * 86400 + o.seconds


def dt_result(dt, want_tz_name=None):
    """Canonical result for a pendulum DateTime: [0, wall, fold, utcoffset] (+ [7, ...] markers for type / zone mismatches)."""
    import pendulum
    if not isinstance(dt, pendulum.DateTime):
        return [7, 1]
    if want_tz_name is not None and dt.timezone_name != want_tz_name:
        return [7, 2]
    o = off_s(dt)
    return [0, wall_of(dt), dt.fold, o if o is not None else 0]


def pzone(spec):
    """Zone spec -> pendulum timezone.  spec: IANA name (str) or fixed offset in seconds (int)."""
    import pendulum
    if isinstance(spec, int):
        return pendulum.tz.fixed_timezone(spec)
    return pendulum.timezone(spec)


def zname(spec):
    import pendulum
    return pzone(spec).name


def ref_zone(spec):
    """Zone spec -> stdlib tzinfo (the oracle side)."""
    if isinstance(spec, int):
        return _dt.timezone(_dt.timedelta(seconds=spec))
    return zoneinfo.ZoneInfo(spec)


def zone_enc(spec, lo_unix, hi_unix):
    """Integers encoding the zone window for the Coq model."""
    if isinstance(spec, int):
        return [spec, 0]
    return zones.tab(spec).encode(lo_unix, hi_unix)


def unix_of_wall(W):
    """The wall value read as if it were UTC, in unix seconds (used to centre zone windows)."""
    return W // MEG - EPOCH_S


# ----------------------------------------------------------------------------- stdlib oracles
def ref_offset_at(tz, u_unix):
    """utcoffset (seconds) that the tz database assigns to the UTC instant u (unix seconds), via stdlib fromutc."""
    d = _dt.datetime(1970, 1, 1, tzinfo=_dt.timezone.utc) + _dt.timedelta(seconds=u_unix)
    return off_s(d.astimezone(tz))


def ref_render(tz, U):
    """(wall, fold, offset) of the instant U (microseconds since 0001-01-01 UTC) in tz, by the stdlib."""
    d = _dt.datetime(1, 1, 1, tzinfo=_dt.timezone.utc) + _dt.timedelta(microseconds=U)
    try:
        l = d.astimezone(tz)
    except OverflowError:
        # the rendering falls outside years 1..9999: report the (out of range) wall value from the offset in force nearby
        near = min(max(U, 2 * US_DAY), MAX_WALL - 2 * US_DAY)
        o = off_s((_dt.datetime(1, 1, 1, tzinfo=_dt.timezone.utc) + _dt.timedelta(microseconds=near)).astimezone(tz))
        return U + o * MEG, 0, o
    return wall_of(l), l.fold, off_s(l)


def solutions(tz, w_s):
    """All UTC seconds u (since 0001-01-01) whose rendering in tz is the wall second w_s: [(u, offset)] sorted by u.
    Candidates are w - o for every offset o the zone uses within +-27 h (sampled every 30 min)."""
    offs = set()
    base = _dt.datetime(1, 1, 1, tzinfo=_dt.timezone.utc)
    for k in range(-54, 55):
        u = w_s + k * 1800
        if 86400 <= u <= MAX_WALL // MEG - 86400:
            offs.add(off_s((base + _dt.timedelta(seconds=u)).astimezone(tz)))
    out = []
    for o in offs:
        u = w_s - o
        if 0 <= u <= MAX_WALL // MEG:
            l = (base + _dt.timedelta(seconds=u)).astimezone(tz)
            if off_s(l) == o:
                out.append((u, o))
    return sorted(out)


def gap_around(tz, w_s):
    """For a skipped wall second: (T, o_pre, o_post) of the transition whose gap contains it, found by bisection on the stdlib."""
    base = _dt.datetime(1, 1, 1, tzinfo=_dt.timezone.utc)

    def off(u):
        return off_s((base + _dt.timedelta(seconds=u)).astimezone(tz))
    lo, hi = w_s - 27 * 3600, w_s + 27 * 3600
    step = 1800
    prev_u, prev_o = lo, off(lo)
    u = lo + step
    while u <= hi:
        o = off(u)
        if o != prev_o:
            a, b = prev_u, u          # off(a) = prev_o, off(b) = o ; bisect the first instant with the new offset
            while b - a > 1:
                m = (a + b) // 2
                if off(m) == prev_o:
                    a = m
                else:
                    b = m
            T = b
            o_new = off(T)
            if o_new > prev_o and T + prev_o <= w_s < T + o_new:
                return T, prev_o, o_new
            o = off(u)
        prev_u, prev_o = u, o
        u += step
    return None


# ----------------------------------------------------------------------------- probes around transitions
def transition_probes(name, rnd, per_zone=None, rule_years=(2040, 2500, 9998)):
    """[(T_unix, o_pre, o_post)] offset-changing transitions of a zone (explicit ones, plus the rule era for some years)."""
    tab = zones.tab(name)
    tr = tab.gaps_and_overlaps(rule_years=rule_years)
    tr = [t for t in tr if zones.MIN_T + 3 * 86400 < t[0] < zones.MAX_T - 3 * 86400]
    if per_zone is not None and len(tr) > per_zone:
        keep = set(rnd.sample(range(len(tr)), per_zone))
        # always keep the largest gaps/overlaps and sub-minute changes
        ranked = sorted(range(len(tr)), key=lambda i: -abs(tr[i][2] - tr[i][1]))[:3]
        odd = [i for i in range(len(tr)) if (tr[i][2] - tr[i][1]) % 60][:3]
        keep |= set(ranked) | set(odd)
        tr = [tr[i] for i in sorted(keep)]
    return tr


def wall_probes(T, o_pre, o_post):
    """Wall microsecond values (since 0001-01-01) around the gap/overlap of a transition at unix second T."""
    a = (T + EPOCH_S + min(o_pre, o_post)) * MEG     # start of the gap / overlap region on the wall clock
    b = (T + EPOCH_S + max(o_pre, o_post)) * MEG     # end (exclusive)
    mid = (a + b) // 2
    return [a - MEG, a - 1, a, a + 1, mid, mid + 500001, b - 1, b, b + 1, b + MEG]
