"""C10: the integer parts of src/pendulum/duration.py's arithmetic translated onto the record `dur` of Model/Duration.v.

Gen/DurationOps.v contains
  * `py_divide_and_round`            — the module function `_divide_and_round`, translated whole (integer arguments);
  * `py_Duration_to_microseconds`    — `Duration._to_microseconds`, translated whole;
  * `py_timedelta_to_microseconds_duration` / `py_timedelta_to_microseconds_plain` — the module function `_timedelta_to_microseconds`
    (the divisor of // / % divmod), translated once per operand class with its `isinstance(delta, Duration)` test resolved:
    for a Duration (record `dur`) and for a PLAIN datetime.timedelta, which the translated code sees as its normal form
    `ptd` = (days, seconds, microseconds) (the hand model passes `Spec.TdFloat.td_norm` of its microseconds);
  * `py_Duration_<op>_<kind>_<slot>` — for every operator method and every `isinstance(other, <kind>)` branch, each argument of the
    `self.__class__(...)` call (and each scalar result `expr` / `cast(T, expr)`, each `r = ... % ...` / `q, r = divmod(...)`) whose
    expression is pure integer arithmetic, translated with the translator.  Arguments that are float expressions must be one of the
    HAND expressions below (hand-modelled over SpecFloat in Model/DurationOps.v); anything else fails closed;
  * `py_return_table`                — (method, operand kind, result kind) obtained by abstract interpretation of the
    `isinstance` tests of every operator method: the return-type table of the statement.
Model/DurationOps.v assembles these pieces; Props/C10.v proves the theorems about the assembled functions."""
import ast

from .. import py2gallina as P
from ..gen import HEADER, src

SLOTS = ["days", "seconds", "microseconds", "milliseconds", "minutes", "hours", "weeks", "years", "months"]
OPS = ["__add__", "__sub__", "__neg__", "__mul__", "__floordiv__", "__truediv__", "__mod__", "__divmod__"]
OP_CODE = {m: i + 1 for i, m in enumerate(OPS)}
# operand kinds: what `other` is
KINDS = ["int", "float", "duration", "timedelta"]            # duration = a timedelta that has _to_microseconds; timedelta = a plain one
KIND_CODE = {k: i + 1 for i, k in enumerate(KINDS)}
RES_CODE = {"NotImplemented": 0, "Duration": 1, "int": 2, "float": 3, "int*Duration": 4, "AttributeError": 6}
PLAIN_TD_ATTRS = {"days", "seconds", "microseconds", "total_seconds"}      # what a plain datetime.timedelta offers
# float-valued constructor arguments that the hand model implements (exact source text)
HAND = {
    "self.total_seconds() + other.total_seconds()",
    "self.total_seconds() - other.total_seconds()",
    "self._total * other",
    "_divide_and_round(self._months, other)",       # float branch of __truediv__: divmod(int, float)
    "usec / _timedelta_to_microseconds(other)",     # int / int true division -> float
}
ALIASES = {"__radd__": "__add__", "__rmul__": "__mul__", "__div__": "__floordiv__"}
TD_US = "_timedelta_to_microseconds"       # module function: microseconds of either a Duration or a plain timedelta
# how the translated code sees a plain datetime.timedelta: its public attributes, nothing else
PTD_PRELUDE = ("(* a PLAIN datetime.timedelta as the translated code sees it: its normal form (days, seconds, microseconds)\n"
               "   (Model/DurationOps.v passes Spec.TdFloat.td_norm of the microseconds it holds) *)\n"
               "Definition ptd : Type := (Z * Z * Z)%type.\n"
               "Definition ptd_days (t : ptd) : Z := fst (fst t).\n"
               "Definition ptd_seconds (t : ptd) : Z := snd (fst t).\n"
               "Definition ptd_micro (t : ptd) : Z := snd t.\n")
PTD_ATTRS = {"days": ("ptd_days", P.Z), "seconds": ("ptd_seconds", P.Z), "microseconds": ("ptd_micro", P.Z)}


def _isinstance_test(test):
    """-> (negated, tuple of type names) for `isinstance(other, T)` / `not isinstance(other, (T1, T2))`, else None"""
    neg = False
    if isinstance(test, ast.UnaryOp) and isinstance(test.op, ast.Not):
        neg, test = True, test.operand
    if (isinstance(test, ast.Call) and isinstance(test.func, ast.Name) and test.func.id == "isinstance" and len(test.args) == 2
            and isinstance(test.args[0], ast.Name) and test.args[0].id == "other"):
        t = test.args[1]
        names = [x.id for x in t.elts] if isinstance(t, ast.Tuple) else [t.id] if isinstance(t, ast.Name) else None
        if names and all(n in ("int", "float", "timedelta") for n in names):
            return neg, tuple(names)
    return None


def _kind_is(kind, names):
    py = {"int": "int", "float": "float", "duration": "timedelta", "timedelta": "timedelta"}[kind]
    return py in names


class OpWalker:
    """Walks one operator method for one operand kind, following the isinstance tests."""

    def __init__(self, ctx, fn, kind, out, hand_seen):
        self.ctx, self.fn, self.kind, self.out, self.hand_seen = ctx, fn, kind, out, hand_seen
        self.tr = P.FunTr(ctx, fn, "py_Duration_" + fn.name.strip("_"), self_type="dur")
        self.tr.env = {"self": "dur"}
        if kind == "int":
            self.tr.env["other"] = P.Z
        elif kind == "duration":
            self.tr.env["other"] = "dur"
        elif kind == "timedelta":
            self.tr.env["other"] = "ptd"
        self.lets = []            # (name, coq expr) in order
        self.params = [("self", "dur")] + ([("other", self.tr.env["other"])] if "other" in self.tr.env else [])

    def fail(self, node, why):
        raise P.Unsupported(f"Duration.{self.fn.name} [{self.kind}] line {getattr(node, 'lineno', '?')}: {why}: {ast.unparse(node)[:90]}")

    def emit(self, suffix, e):
        """Translate expression e to Z and emit a definition; returns True, or False when e is a declared HAND expression."""
        key = ast.unparse(e)
        try:
            s, t = self.tr.expr(e)
            if t != P.Z:
                raise P.Unsupported("not an integer")
        except P.Unsupported as ex:
            if key in HAND:
                self.hand_seen.add(key)
                self.out.append(f"(* hand-modelled (float): Duration.{self.fn.name} [{self.kind}] {suffix} = {key} *)\n")
                return False
            self.fail(e, f"neither integer arithmetic nor a declared hand-modelled expression ({ex})")
        name = f"py_Duration_{self.fn.name.strip('_')}_{self.kind}_{suffix}"
        sig = " ".join(f"({self.tr.v(n)} : {t_})" for n, t_ in self.params)
        body = "".join(f"let {self.tr.v(n)} := {x} in " for n, x in self.lets) + s
        self.out.append(f"(* Duration.{self.fn.name}, other : {self.kind} — {suffix} = {key} *)\nDefinition {name} {sig} : Z :=\n  {body}.\n")
        return True

    def ctor(self, call, prefix=""):
        if call.args and len(call.args) > len(SLOTS):
            self.fail(call, "too many positional arguments")
        given = {}
        for i, a in enumerate(call.args):
            given[SLOTS[i]] = a
        for kw in call.keywords:
            if kw.arg not in SLOTS or kw.arg in given:
                self.fail(call, "unexpected keyword")
            given[kw.arg] = kw.value
        for slot, e in given.items():
            if isinstance(e, ast.Constant) and e.value == 0:
                continue
            self.emit(prefix + slot, e)
        return sorted(given, key=SLOTS.index)

    def ret(self, node):
        v = node.value
        if isinstance(v, ast.Name) and v.id == "NotImplemented":
            return "NotImplemented"
        if isinstance(v, ast.Call) and ast.unparse(v.func) == "self.__class__":
            self.ctor(v)
            return "Duration"
        if isinstance(v, ast.Call) and ast.unparse(v.func) == "cast" and len(v.args) == 2 and isinstance(v.args[0], ast.Name) and v.args[0].id in ("int", "float"):
            self.emit("value", v.args[1])
            return v.args[0].id
        if isinstance(v, ast.BinOp) and isinstance(v.op, (ast.FloorDiv, ast.Div)):
            # a bare scalar result: int // int is an int (must translate), int / int a float (must be a declared HAND expression)
            is_int = self.emit("value", v)
            if is_int != isinstance(v.op, ast.FloorDiv):
                self.fail(node, "scalar result: `//` must be integer arithmetic and `/` a hand-modelled float expression")
            return "int" if is_int else "float"
        if (isinstance(v, ast.Tuple) and len(v.elts) == 2 and isinstance(v.elts[1], ast.Call) and ast.unparse(v.elts[1].func) == "self.__class__"):
            self.emit("quotient", v.elts[0])
            self.ctor(v.elts[1])
            return "int*Duration"
        self.fail(node, "unrecognised return value")

    def walk(self, stmts):
        for s in stmts:
            if isinstance(s, ast.Expr) and isinstance(s.value, ast.Constant):
                continue
            if isinstance(s, ast.If):
                it = _isinstance_test(s.test)
                if it is None or s.orelse:
                    self.fail(s, "operator methods may branch only on isinstance(other, ...) without else")
                neg, names = it
                if _kind_is(self.kind, names) != neg:
                    r = self.walk(s.body)
                    if r is not None:
                        return r
                continue
            if self.kind == "timedelta" and isinstance(s, (ast.Return, ast.Assign)):
                # a plain timedelta has no Duration-private attribute: evaluating `other.<private>` raises AttributeError
                bad = [n.attr for n in ast.walk(s) if isinstance(n, ast.Attribute) and isinstance(n.value, ast.Name) and n.value.id == "other"
                       and n.attr not in PLAIN_TD_ATTRS]
                if bad:
                    self.out.append(f"(* Duration.{self.fn.name}, other : plain timedelta — `other.{bad[0]}` raises AttributeError *)\n")
                    return "AttributeError"
            if isinstance(s, ast.Return):
                return self.ret(s)
            if isinstance(s, ast.Assign) and len(s.targets) == 1:
                tgt, val = s.targets[0], s.value
                if isinstance(tgt, ast.Name):
                    e, t = self.tr.expr(val)
                    if t != P.Z:
                        self.fail(s, "non-integer local")
                    self.tr.env[tgt.id] = P.Z
                    self.lets.append((tgt.id, e))
                    continue
                if isinstance(tgt, ast.Tuple) and all(isinstance(x, ast.Name) for x in tgt.elts):
                    names = [x.id for x in tgt.elts]
                    if ast.unparse(val) == "other.as_integer_ratio()" and self.kind == "float" and len(names) == 2:
                        # (numerator, denominator) of the float operand: parameters of the generated definitions
                        for n in names:
                            self.tr.env[n] = P.Z
                            self.params.append((n, P.Z))
                        continue
                    e, t = self.tr.expr(val)          # q, r = divmod(x, y)
                    if not (isinstance(t, tuple) and len(t) == len(names) and all(x == P.Z for x in t)):
                        self.fail(s, "tuple assignment")
                    for i, n in enumerate(names):
                        self.tr.env[n] = P.Z
                        self.lets.append((n, f"(let '({', '.join('t_' + m for m in names)}) := {e} in t_{n})"))
                    continue
            self.fail(s, "unsupported statement in an operator method")
        return None


def _fork(ctx, attrs=None, methods=None):
    """A context that shares constants with ctx and has its own function / attribute / method tables."""
    c = P.Ctx()
    c.consts = ctx.consts
    c.funcs = dict(ctx.funcs)
    c.attrs = dict(ctx.attrs if attrs is None else attrs)
    c.methods = dict(ctx.methods if methods is None else methods)
    return c


def _translate_td_us(sub, tree, out):
    """`_timedelta_to_microseconds(delta)` translated once per class of `delta`, the `isinstance(delta, Duration)` tests resolved
    statically: delta : Duration sees the record `dur` and Duration's methods; a plain timedelta sees only days / seconds /
    microseconds (`ptd`), so that any other attribute or method on that path fails closed.
    Returns {operand kind: context in which a call of the function resolves to the matching translation}."""
    fn = P.find_function(tree, TD_US)
    if len(fn.args.args) != 1 or fn.args.vararg or fn.args.kwarg or fn.args.kwonlyargs or fn.args.defaults:
        raise P.Unsupported(f"{TD_US}: expected exactly one parameter")
    param = fn.args.args[0].arg

    def specialise(stmts, is_duration):
        body = []
        for s in stmts:
            if isinstance(s, ast.Expr) and isinstance(s.value, ast.Constant):
                continue
            if isinstance(s, ast.If):
                t = s.test
                ok = (isinstance(t, ast.Call) and isinstance(t.func, ast.Name) and t.func.id == "isinstance" and len(t.args) == 2
                      and not t.keywords and isinstance(t.args[0], ast.Name) and t.args[0].id == param
                      and isinstance(t.args[1], ast.Name) and t.args[1].id == "Duration")
                if not ok:
                    raise P.Unsupported(f"{TD_US} line {s.lineno}: may branch only on isinstance({param}, Duration): {ast.unparse(t)[:80]}")
                taken = specialise(s.body if is_duration else s.orelse, is_duration)
                body += taken
                if taken and isinstance(taken[-1], ast.Return):
                    return body
                continue
            body.append(s)
            if isinstance(s, ast.Return):
                return body
        return body

    ctxs = {}
    for kind, is_dur, ty, c in (("duration", True, "dur", _fork(sub)),
                                ("timedelta", False, "ptd", _fork(sub, attrs=PTD_ATTRS, methods={}))):
        f2 = ast.FunctionDef(name=fn.name, args=fn.args, body=specialise(fn.body, is_dur), decorator_list=[], returns=fn.returns, lineno=fn.lineno)
        name = f"py_timedelta_to_microseconds_{'duration' if is_dur else 'plain'}"
        text, _argt, rett, monad = P.FunTr(c, f2, name, argtypes={param: ty}).translate()
        if rett != P.Z or monad is not None:
            raise P.Unsupported(f"{TD_US} [{kind}]: not a total integer function")
        out.append(f"(* translated from src/pendulum/duration.py :: {TD_US}, {param} : {'Duration' if is_dur else 'plain timedelta'} *)\n" + text)
        user = _fork(sub)          # the operator methods: Duration's private attributes / methods on `self` (and on a Duration `other`)
        user.funcs[TD_US] = (name, [ty], P.Z, None)
        ctxs[kind] = user
    return ctxs


def _undecorated(tree, qualnames):
    """A decorator replaces the function by whatever it returns (a memo, a wrapper): the body alone is then not what runs.
    The translation is of the body, so a decorated function fails closed."""
    for q in qualnames:
        fn = P.find_function(tree, q)
        if fn.decorator_list:
            raise P.Unsupported(f"{q} is decorated ({', '.join('@' + ast.unparse(d)[:60] for d in fn.decorator_list)}): "
                                "the translated body is not the function that runs")


def gen_duration_ops(ctx: P.Ctx):
    path = src("duration.py")
    tree = ast.parse(open(path).read())
    _undecorated(tree, ["_divide_and_round", TD_US, "Duration._to_microseconds"] + ["Duration." + m for m in OPS])
    sub = P.Ctx()
    sub.consts = ctx.consts
    sub.attrs = {"_days": ("d_days", P.Z), "_seconds": ("d_seconds", P.Z), "_microseconds": ("d_micro", P.Z), "_years": ("d_years", P.Z),
                 "_months": ("d_months", P.Z), "_weeks": ("d_weeks", P.Z), "_remaining_days": ("d_rdays", P.Z)}
    P.translate_function(sub, path, "_divide_and_round", coq_name="py_divide_and_round")
    P.translate_function(sub, path, "Duration._to_microseconds", coq_name="py_Duration_to_microseconds", self_type="dur")
    sub.methods["_to_microseconds"] = ("py_Duration_to_microseconds", P.Z, None)
    out = list(sub.out)
    out.append(PTD_PRELUDE)
    kind_ctx = _translate_td_us(sub, tree, out)
    cls = next((n for n in tree.body if isinstance(n, ast.ClassDef) and n.name == "Duration"), None)
    if cls is None:
        raise P.Unsupported("class Duration not found")
    # the reflected / aliased operators must be plain aliases
    aliases = {}
    for n in cls.body:
        if isinstance(n, ast.Assign) and len(n.targets) == 1 and isinstance(n.targets[0], ast.Name) and n.targets[0].id.startswith("__") \
                and isinstance(n.value, ast.Name):
            aliases[n.targets[0].id] = n.value.id
    if aliases != ALIASES:
        raise P.Unsupported(f"operator aliases of Duration changed: {aliases}")
    defined = {n.name for n in cls.body if isinstance(n, ast.FunctionDef)}
    arith = {"__add__", "__radd__", "__sub__", "__rsub__", "__neg__", "__pos__", "__abs__", "__mul__", "__rmul__", "__floordiv__", "__rfloordiv__",
             "__truediv__", "__rtruediv__", "__mod__", "__rmod__", "__divmod__", "__rdivmod__", "__eq__", "__ne__", "__lt__", "__le__", "__gt__",
             "__ge__", "__hash__", "__bool__"}
    extra = (defined & arith) - set(OPS)
    if extra:
        raise P.Unsupported(f"Duration defines operator methods the model inherits from timedelta: {sorted(extra)}")
    table, hand_seen = [], set()
    for m in OPS:
        fn = P.find_function(tree, "Duration." + m)
        if m == "__neg__":
            w = OpWalker(sub, fn, "self", out, hand_seen)
            if w.walk(fn.body) != "Duration":
                raise P.Unsupported("__neg__ does not return self.__class__(...)")
            continue
        for kind in KINDS:
            w = OpWalker(kind_ctx.get(kind, sub), fn, kind, out, hand_seen)
            r = w.walk(fn.body)
            if r is None:
                raise P.Unsupported(f"Duration.{m} falls off the end for other : {kind}")
            table.append((OP_CODE[m], KIND_CODE[kind], RES_CODE[r]))
    missing = HAND - hand_seen
    if missing:
        raise P.Unsupported(f"hand-modelled expressions no longer present in duration.py: {sorted(missing)}")
    rows = "; ".join(f"({a}, {b}, {c})" for a, b, c in table)
    out.append("(* (method, kind of `other`, kind of result) by abstract interpretation of the isinstance tests.\n"
               "   methods: " + ", ".join(f"{OP_CODE[m]} {m}" for m in OPS) + "\n"
               "   operand: " + ", ".join(f"{KIND_CODE[k]} {k}" for k in KINDS) + "\n"
               "   result : " + ", ".join(f"{v} {k}" for k, v in RES_CODE.items()) + " *)\n"
               f"Definition py_return_table : list (Z * Z * Z) :=\n  [{rows}].\n")
    # Interval: every arithmetic method must delegate to as_duration()
    itree = ast.parse(open(src("interval.py")).read())
    deleg = []
    for m in ("__add__", "__sub__", "__mul__", "__floordiv__", "__truediv__", "__mod__", "__divmod__"):
        fn = P.find_function(itree, "Interval." + m)
        body = [s for s in fn.body if not (isinstance(s, ast.Expr) and isinstance(s.value, ast.Constant))]
        want = f"return self.as_duration().{m}(other)"
        if len(body) != 1 or ast.unparse(body[0]) != want:
            raise P.Unsupported(f"Interval.{m} is not `{want}`")
        deleg.append(OP_CODE[m])
    fn = P.find_function(itree, "Interval.as_duration")
    body = [s for s in fn.body if not (isinstance(s, ast.Expr) and isinstance(s.value, ast.Constant))]
    if len(body) != 1 or ast.unparse(body[0]) != "return Duration(seconds=self.total_seconds())":
        raise P.Unsupported("Interval.as_duration is not `return Duration(seconds=self.total_seconds())`")
    out.append("(* Interval.<op>(other) is `self.as_duration().<op>(other)` for these methods; as_duration() is Duration(seconds=self.total_seconds()) *)\n"
               "Definition py_interval_delegates : list Z := [" + "; ".join(map(str, deleg)) + "].\n")
    return (HEADER % "src/pendulum/duration.py (arithmetic) and src/pendulum/interval.py (delegation)"
            + "From PV Require Import Spec.TdFloat Gen.Constants Model.Duration.\n\n" + "\n".join(out))


def steps(ctx):
    return [("DurationOps.v", lambda: gen_duration_ops(ctx))]
