"""C11: which class answers each standard accessor/operator of DateTime / Date / Time.

Computed from the `ast` of /repo's class bodies (pendulum is NOT imported): the C3 linearisation of
DateTime(datetime.datetime, Date), Date(FormattableMixin, date), Time(FormattableMixin, time) over pendulum's own classes and the
native classes (whose own `__dict__` and `__mro__` are read from the running CPython), then for every name
  * of the property's list (STD_NAMES): the first class of the MRO that defines it  -> Gen/Classes.v `std_table`
  * defined by a pendulum class of the MRO while the native base also has it     -> Gen/Classes.v `shadow_table`
    (every override of a native attribute, also those outside the property's list; a NEW one has no model in Model/DropIn.v and
    breaks Proofs/C11Facts.v `every_override_is_modelled`: fail closed).
Also emits the bodies of the small overrides whose exact shape the hand model relies on, as pinned text (`pinned_sources`), so that
an edit of date()/time()/astimezone/__str__/replace/... changes the generated file and `pins_ok` in Proofs/C11Facts.v fails closed."""
import ast
import datetime as _dt
import hashlib

from .. import py2gallina as P
from ..gen import HEADER, src, coq_string

STD_NAMES = [
    "isoformat", "strftime", "timetuple", "utctimetuple", "toordinal", "weekday", "isoweekday", "isocalendar", "timestamp",
    "utcoffset", "tzname", "dst", "ctime", "date", "time", "timetz", "astimezone",
    "__eq__", "__ne__", "__lt__", "__le__", "__gt__", "__ge__", "__hash__", "__sub__", "__rsub__", "__add__", "__radd__",
    "replace", "__str__", "__format__", "__repr__", "fromtimestamp", "utcfromtimestamp", "fromordinal", "combine", "strptime", "today", "now", "utcnow",
    "fromisoformat", "fromisocalendar", "__reduce__", "__reduce_ex__", "__new__", "__getattribute__",
    "year", "month", "day", "hour", "minute", "second", "microsecond", "tzinfo", "fold", "min", "max", "resolution",
]

FILES = {"DateTime": "datetime.py", "Date": "date.py", "Time": "time.py", "FormattableMixin": "mixins/default.py"}
NATIVE = {"datetime.datetime": _dt.datetime, "datetime": _dt.datetime, "datetime.date": _dt.date, "date": _dt.date,
          "datetime.time": _dt.time, "time": _dt.time}
# (class, method) whose source text the hand model in Model/DropIn.v transcribes
PINNED = [("DateTime", "date"), ("DateTime", "time"), ("DateTime", "timetz"), ("DateTime", "astimezone"), ("DateTime", "__str__"), ("DateTime", "__sub__"),
          ("DateTime", "__rsub__"), ("DateTime", "__add__"), ("DateTime", "__radd__"), ("DateTime", "replace"), ("DateTime", "_cmp"),
          ("DateTime", "fromtimestamp"), ("DateTime", "utcfromtimestamp"), ("DateTime", "fromordinal"), ("DateTime", "combine"),
          ("DateTime", "strptime"), ("DateTime", "diff"), ("DateTime", "instance"), ("DateTime", "create"),
          ("Date", "__sub__"), ("Date", "__add__"), ("Date", "replace"), ("Date", "fromordinal"), ("Date", "fromtimestamp"), ("Date", "today"), ("Date", "diff"),
          ("Time", "__sub__"), ("Time", "__rsub__"), ("Time", "__add__"), ("Time", "replace"), ("Time", "diff"),
          ("FormattableMixin", "__str__"), ("FormattableMixin", "__format__"), ("FormattableMixin", "for_json")]


def _class_node(cname):
    tree = ast.parse(open(src(FILES[cname])).read())
    for n in tree.body:
        if isinstance(n, ast.ClassDef) and n.name == cname:
            return tree, n
    raise P.Unsupported(f"class {cname} not found in {FILES[cname]}")


def _own_names(cname):
    """Names bound in the class body (defs, assignments, annotated assignments with a value) + `Cls.x = ...` at module level."""
    tree, node = _class_node(cname)
    names = {}
    for st in node.body:
        if isinstance(st, (ast.FunctionDef, ast.AsyncFunctionDef)):
            # @overload stubs are re-bound by the final def; the last binding wins, as in Python
            names[st.name] = st
        elif isinstance(st, ast.Assign):
            for t in st.targets:
                if isinstance(t, ast.Name):
                    names[t.id] = st
                else:
                    raise P.Unsupported(f"{cname}: unsupported class-level assignment target {ast.unparse(t)}")
        elif isinstance(st, ast.AnnAssign):
            if st.value is not None and isinstance(st.target, ast.Name):
                names[st.target.id] = st
        elif isinstance(st, ast.Expr) and isinstance(st.value, ast.Constant):
            continue
        elif isinstance(st, ast.Pass):
            continue
        else:
            raise P.Unsupported(f"{cname}: unsupported statement in class body: {type(st).__name__}")
    for st in tree.body:
        if isinstance(st, ast.Assign):
            for t in st.targets:
                if isinstance(t, ast.Attribute) and isinstance(t.value, ast.Name) and t.value.id == cname:
                    names[t.attr] = st
        elif isinstance(st, ast.Expr) and isinstance(st.value, ast.Call) and ast.unparse(st.value.func) == "setattr":
            raise P.Unsupported(f"{FILES[cname]}: module-level setattr")
    if node.decorator_list or node.keywords:
        raise P.Unsupported(f"{cname}: class decorators / metaclass keywords are not supported")
    return names


def _bases(cname):
    _, node = _class_node(cname)
    out = []
    for b in node.bases:
        s = ast.unparse(b)
        if s in FILES:
            out.append(("p", s))
        elif s in NATIVE:
            out.append(("n", NATIVE[s]))
        else:
            raise P.Unsupported(f"{cname}: unknown base class {s}")
    return out


def _lin(key):
    """C3 linearisation; keys are ('p', name) or ('n', native type)."""
    if key[0] == "n":
        return [("n", k) for k in key[1].__mro__]
    bases = _bases(key[1])
    seqs = [_lin(b) for b in bases] + [list(bases)]
    res = [key]
    seqs = [list(s) for s in seqs]
    while any(seqs):
        for s in seqs:
            if not s:
                continue
            cand = s[0]
            if not any(cand in t[1:] for t in seqs):
                break
        else:
            raise P.Unsupported(f"inconsistent MRO for {key[1]}")
        res.append(cand)
        for t in seqs:
            if t and t[0] == cand:
                del t[0]
    return res


def _kname(k):
    return k[1] if k[0] == "p" else ("object" if k[1] is object else k[1].__name__)


def resolution_tables():
    std, shadow, mros = [], [], {}
    own = {c: _own_names(c) for c in FILES}
    for cname in ("DateTime", "Date", "Time"):
        mro = _lin(("p", cname))
        mros[cname] = [_kname(k) for k in mro]
        native_base = next(k[1] for k in mro if k[0] == "n")

        def owner(name):
            for k in mro:
                if k[0] == "p":
                    if name in own[k[1]]:
                        return ("P", k[1])
                elif name in k[1].__dict__:
                    return ("N", _kname(k))
            return ("A", "")
        for name in STD_NAMES:
            std.append((cname, name) + owner(name))
        seen = set()
        for k in mro:
            if k[0] != "p":
                continue
            for name in own[k[1]]:
                if name in seen:
                    continue
                seen.add(name)
                if hasattr(native_base, name) and owner(name) == ("P", k[1]):
                    shadow.append((cname, name, k[1]))
    return std, shadow, mros, own


def gen_classes(ctx):
    std, shadow, mros, own = resolution_tables()
    L = [HEADER % "src/pendulum/{datetime,date,time}.py, mixins/default.py (class bodies, MRO)"]
    L.append("(* owner kind: 0 = defined by a pendulum class (override), 1 = inherited from the native C class, 2 = nobody defines it *)")
    for c, m in mros.items():
        L.append(f"(* MRO {c}: {' -> '.join(m)} *)")
    L.append("Definition mro_table : list (string * list string) := [")
    L.append(";\n".join("  (" + coq_string(c) + ", [" + "; ".join(coq_string(x) for x in m) + "])" for c, m in mros.items()))
    L.append("].\n")
    kind = {"P": 0, "N": 1, "A": 2}
    L.append("Definition std_table : list (string * string * Z * string) := [")
    L.append(";\n".join(f"  ({coq_string(c)}, {coq_string(n)}, {kind[k]}, {coq_string(o)})" for c, n, k, o in std))
    L.append("].\n")
    L.append("(* every attribute bound by a pendulum class of the MRO that hides an attribute of the native base class *)")
    L.append("Definition shadow_table : list (string * string * string) := [")
    L.append(";\n".join(f"  ({coq_string(c)}, {coq_string(n)}, {coq_string(o)})" for c, n, o in sorted(shadow)))
    L.append("].\n")
    # pinned sources: sha-256 (first 15 hex digits as an integer) of the normalised (ast.unparse) text of each transcribed override
    L.append("(* digest of ast.unparse(def) of the overrides that Model/DropIn.v transcribes by hand; see Proofs/C11Facts.v pins_ok *)")
    rows = []
    for c, m in PINNED:
        node = own[c].get(m)
        if node is None:
            # the override is gone: digest 0 never equals a committed pin (pins_ok fails closed) while the table above, which now resolves the
            # name to the native class, still generates, so the run goes on and looks for a concrete failing input
            rows.append(f"  ({coq_string(c)}, {coq_string(m)}, 0)")
            continue
        if not isinstance(node, ast.FunctionDef):
            raise P.Unsupported(f"{c}.{m} is not a plain def any more")
        txt = ast.unparse(node)
        h = int(hashlib.sha256(txt.encode()).hexdigest()[:15], 16)
        rows.append(f"  ({coq_string(c)}, {coq_string(m)}, {h})")
    L.append("Definition pinned_sources : list (string * string * Z) := [")
    L.append(";\n".join(rows))
    L.append("].")
    return "\n".join(L) + "\n"


def steps(ctx):
    return [("Classes.v", lambda: gen_classes(ctx))]
