"""Gen/TzGlue.v — pendulum's OWN timezone glue translated from /repo on every run (VERIF_REPO honoured through vlib.gen.src).

coq/Model/TzConvert.v is the hand-written model of this code on which C01 C02 C03 C04 C05 C11 C12 C16 C19 rest; Proofs/TzGlueFacts.v proves
the hand model EQUAL to this translation (Props/C02.v C01.v C03.v model_is_code_*), so a semantic change of the code changes the generated
definition and breaks a proof, not only a hash pin.

TRANSLATED (py2gallina object fragment) from src/pendulum/tz/timezone.py:
  Timezone.convert (naive and aware branch), Timezone.datetime, FixedTimezone.convert / utcoffset / fromutc / datetime
and from src/pendulum/datetime.py:
  DateTime.create, in_timezone, in_tz, astimezone, add (all branches; add_duration is Gen/AddDuration.v), int_timestamp
RECOGNISED SHAPES (rewritten before translation; anything else fails closed):
  cast(T, e) -> e (typing.cast);  pendulum._safe_timezone(x) -> x  (ASSUMPTION: the tz argument is already a Timezone / FixedTimezone object
  or None; _safe_timezone is checked to start with `if isinstance(obj, (Timezone, FixedTimezone)): return obj`; strings, numbers, foreign
  tzinfo objects and "local" are OUT OF SCOPE);  cls(...) / self.__class__(...) / dt.__class__(...) / datetime.datetime(...) /
  _datetime.datetime(...) -> the native constructor nat_new (DateTime defines no __new__: checked);  self.__class__.create(...) -> the translated
  create;  _datetime.datetime.__add__(a, b) -> a + b (the native addition);  any([a, b, ...]) -> bool(a or b or ...);  super().astimezone(tz)
  -> the native astimezone.
ASSUMPTIONS: `dt + timedelta` inside Timezone.convert is the NATIVE addition, i.e. the dt handed to convert is a native datetime (as in
  DateTime.create / Timezone.datetime / the aware branches); a naive pendulum DateTime in a gap would run DateTime.__add__ instead (not
  translated; covered by the correspondence streams only); a tzinfo is None or a pendulum timezone object (DateTime.timezone / .tz = tzinfo: the property bodies are checked); the tz
  argument of DateTime.astimezone is a timezone object (None = system local time is out of scope); integer arguments.
HAND MODEL: coq/Model/TzGlueObj.v (objects and native primitives, each tied to a spec_is_stdlib theorem) and, in this file, the DISPATCH
  templates: tz.utcoffset(dt) / tz.fromutc(dt) / tz.convert(dt, r) go to the ZoneInfo primitive or to the translated FixedTimezone method
  according to the class of tz; datetime.utcoffset() delegates to tzinfo.utcoffset(self); native astimezone =
  self if tz is self.tzinfo else tz.fromutc((self - self.utcoffset()).replace(tzinfo=tz)); aware a - b = difference of the instants
  (wall difference when the tzinfo object is the same).
"""
import ast
import copy

from .. import py2gallina as P
from ..gen import HEADER, src

Z, B = P.Z, P.B
DT, TZ = "gdt", "gtz"
OTZ, OZ, ODT = ("opt", TZ), ("opt", Z), ("opt", DT)
FIELDS = ["year", "month", "day", "hour", "minute", "second", "microsecond"]


class Rw(ast.NodeTransformer):
    def __init__(self, qual, ctor="_nat_new"):
        self.qual = qual
        self.ctor = ctor

    def visit_Call(self, node):
        self.generic_visit(node)
        f = ast.unparse(node.func)
        if f == "cast" and len(node.args) == 2 and not node.keywords:
            return node.args[1]
        if f == "pendulum._safe_timezone" and len(node.args) == 1 and [k.arg for k in node.keywords] in ([], ["dt"]):
            return node.args[0]
        if f == "_datetime.datetime.utcfromtimestamp" and len(node.args) == 1 and not node.keywords:
            return ast.copy_location(ast.Call(func=ast.Name(id="_nat_utcfromtimestamp", ctx=ast.Load()), args=node.args, keywords=[]), node)
        if f == "DateTime.create" or f == "cls.create":
            return ast.copy_location(ast.Call(func=ast.Name(id="_create", ctx=ast.Load()), args=node.args, keywords=node.keywords), node)
        if f in ("cls", "self.__class__", "dt.__class__", "datetime.datetime", "_datetime.datetime"):
            return ast.copy_location(ast.Call(func=ast.Name(id=self.ctor, ctx=ast.Load()), args=node.args, keywords=node.keywords), node)
        if f == "date" and self.ctor == "_nat_date_new":
            return ast.copy_location(ast.Call(func=ast.Name(id="_nat_date_new", ctx=ast.Load()), args=node.args, keywords=node.keywords), node)
        if f == "self.add" and not node.args and len(node.keywords) == 1 and node.keywords[0].arg is None \
                and ast.unparse(node.keywords[0].value) == "delta._signature":
            return ast.copy_location(ast.Call(func=ast.Name(id="_add_signature", ctx=ast.Load()),
                                              args=[ast.Name(id="self", ctx=ast.Load()), ast.Name(id="delta", ctx=ast.Load())], keywords=[]), node)
        if f == "super().__add__" and len(node.args) == 1 and not node.keywords:
            return ast.copy_location(ast.Call(func=ast.Name(id="_native_add", ctx=ast.Load()),
                                              args=[ast.Name(id="self", ctx=ast.Load())] + node.args, keywords=[]), node)
        if f == "self.__class__.create":
            return ast.copy_location(ast.Call(func=ast.Name(id="_create", ctx=ast.Load()), args=node.args, keywords=node.keywords), node)
        if f == "_datetime.datetime.__add__" and len(node.args) == 2 and not node.keywords:
            return ast.copy_location(ast.BinOp(left=node.args[0], op=ast.Add(), right=node.args[1]), node)
        if f == "any" and len(node.args) == 1 and isinstance(node.args[0], ast.List) and node.args[0].elts and not node.keywords:
            inner = ast.BoolOp(op=ast.Or(), values=node.args[0].elts)
            return ast.copy_location(ast.Call(func=ast.Name(id="bool", ctx=ast.Load()), args=[inner], keywords=[]), node)
        if f == "super().astimezone" and len(node.args) == 1 and not node.keywords:
            return ast.copy_location(ast.Call(func=ast.Attribute(value=ast.Name(id="self", ctx=ast.Load()), attr="_native_astimezone",
                                                                  ctx=ast.Load()), args=node.args, keywords=[]), node)
        return node


def _spec_fn(tree, qual, assume, ctor="_nat_new"):
    from .g13_stdlib_zone import Specialise
    sp = Specialise(qual, assume)
    fn = sp.visit(copy.deepcopy(P.find_function(tree, qual)))
    if sp.used != set(assume):
        raise P.Unsupported(f"{qual}: assumptions used {sorted(sp.used)} differ from the expected {sorted(assume)}")
    fn = Rw(qual, ctor).visit(fn)
    ast.fix_missing_locations(fn)
    if "isinstance" in ast.unparse(fn):
        raise P.Unsupported(f"{qual}: `isinstance` is left after specialisation")
    return fn


def _fn(tree, qual, drop_first=None):
    fn = copy.deepcopy(P.find_function(tree, qual))
    if drop_first:
        if not fn.args.args or fn.args.args[0].arg != drop_first:
            raise P.Unsupported(f"{qual}: first parameter is not {drop_first}")
        fn.args.args = fn.args.args[1:]
    fn = Rw(qual).visit(fn)
    ast.fix_missing_locations(fn)
    return fn


def _tr(ctx, fn, coq, argtypes, self_type, what, **kw):
    tr = P.FunTr(ctx, fn, coq, argtypes=argtypes, self_type=self_type, **kw)
    text, argt, rett, monad = tr.translate()
    body = [s for s in fn.body if not (isinstance(s, ast.Expr) and isinstance(s.value, ast.Constant))]
    shown = "\n".join(ast.unparse(s) for s in body).replace("(*", "( *").replace("*)", "* )").replace("\n", "\n     ")
    return f"(* {what}\n   What is translated (after the recognised rewrites):\n     {shown} *)\n" + text, rett, monad


def _base_ctx():
    c = P.Ctx()
    c.int_boolop = True
    c.obj_fragment = True
    c.conservative_exit = True
    c.attrs.update({"tzinfo": ("g_tz", OTZ), "fold": ("g_fold", Z), "timezone": ("g_tz", OTZ), "tz": ("g_tz", OTZ)})
    c.attrs.update({f: ("g_" + f, Z) for f in FIELDS})
    c.kwtemplates[("replace", DT, ("fold",))] = ("g_set_fold {self} {fold}", {"fold": Z}, DT, None)
    c.kwtemplates[("replace", DT, ("tzinfo",))] = ("g_set_tz {self} {tzinfo}", {"tzinfo": OTZ}, DT, None)
    c.kwfuncs["_nat_new"] = ("nat_new", FIELDS + ["tzinfo", "fold"],
                             {"hour": "0", "minute": "0", "second": "0", "microsecond": "0", "tzinfo": "None", "fold": "0"},
                             [Z] * 7 + [OTZ, Z], DT, "result")
    c.binops[("Add", DT, Z)] = ("nat_add {l} {r}", DT, "result")
    c.truth[OTZ] = "opt_tz_truth {x}"
    c.truth[OZ] = "opt_td_truth {x}"
    c.consts["UTC"] = ("g_UTC", TZ)
    return c


def _check_shapes(tz_tree, dt_tree, init_tree):
    def cls(tree, name):
        c = next((n for n in tree.body if isinstance(n, ast.ClassDef) and n.name == name), None)
        if c is None:
            raise P.Unsupported(f"class {name} not found")
        return c
    tzc, fxc, dtc = cls(tz_tree, "Timezone"), cls(tz_tree, "FixedTimezone"), cls(dt_tree, "DateTime")
    if [ast.unparse(b) for b in tzc.bases] != ["zoneinfo.ZoneInfo", "PendulumTimezone"]:
        raise P.Unsupported("Timezone is not a zoneinfo.ZoneInfo subclass")
    names = {n.name for n in tzc.body if isinstance(n, ast.FunctionDef)}
    if names & {"utcoffset", "fromutc", "dst", "tzname"}:
        raise P.Unsupported("Timezone overrides a ZoneInfo lookup method")
    if [ast.unparse(b) for b in fxc.bases] != ["_datetime.tzinfo", "PendulumTimezone"]:
        raise P.Unsupported("FixedTimezone is not a tzinfo subclass")
    init = next((n for n in fxc.body if isinstance(n, ast.FunctionDef) and n.name == "__init__"), None)
    if init is None or "self._utcoffset = _datetime.timedelta(seconds=offset)" not in [ast.unparse(s) for s in init.body] \
            or "self._offset = offset" not in [ast.unparse(s) for s in init.body]:
        raise P.Unsupported("FixedTimezone.__init__ does not store _utcoffset = timedelta(seconds=offset)")
    if [ast.unparse(b) for b in dtc.bases] != ["datetime.datetime", "Date"]:
        raise P.Unsupported("DateTime is not a datetime.datetime subclass")
    if any(isinstance(n, ast.FunctionDef) and n.name in ("__new__", "__init__", "utcoffset") for n in dtc.body):
        raise P.Unsupported("DateTime defines __new__/__init__/utcoffset")
    def prop(name, body):
        f = [n for n in dtc.body if isinstance(n, ast.FunctionDef) and n.name == name]
        got = [ast.unparse(s) for s in (f[0].body if len(f) == 1 else [])]
        if got != body or [ast.unparse(d) for d in f[0].decorator_list] != ["property"]:
            raise P.Unsupported(f"DateTime.{name} is not the recognised property: {got}")
    prop("tz", ["return self.timezone"])
    prop("timezone", ["if not isinstance(self.tzinfo, (Timezone, FixedTimezone)):\n    return None", "return self.tzinfo"])
    ep = [ast.unparse(n) for n in dtc.body if isinstance(n, ast.AnnAssign) and ast.unparse(n.target) == "_EPOCH"]
    if ep != ["_EPOCH: datetime.datetime = datetime.datetime(1970, 1, 1, tzinfo=UTC)"]:
        raise P.Unsupported("DateTime._EPOCH is not datetime.datetime(1970, 1, 1, tzinfo=UTC)")
    sf = P.find_function(init_tree, "_safe_timezone")
    body = [s for s in sf.body if not (isinstance(s, ast.Expr) and isinstance(s.value, ast.Constant))]
    if ast.unparse(body[0]) != "if isinstance(obj, (Timezone, FixedTimezone)):\n    return obj":
        raise P.Unsupported("_safe_timezone does not return a Timezone/FixedTimezone argument unchanged first")
    for tree, want in ((tz_tree, "from typing import cast"), (dt_tree, "from pendulum.helpers import add_duration"),
                       (dt_tree, "from pendulum.tz import UTC"), (dt_tree, "from pendulum.constants import SECONDS_PER_DAY")):
        if want not in [ast.unparse(n) for n in tree.body if isinstance(n, ast.ImportFrom)]:
            raise P.Unsupported(f"missing `{want}`")
    utc = [ast.unparse(n) for n in tz_tree.body if isinstance(n, ast.Assign) and ast.unparse(n.targets[0]) == "UTC"]
    if utc != ["UTC = Timezone('UTC')"]:
        raise P.Unsupported("UTC is not Timezone('UTC')")


DISPATCH = """
(* ---- BY HAND: dispatch on the class of the tzinfo object, and the native operations that call tzinfo methods ---- *)
Definition tz_utcoffset (tz : gtz) (d : gdt) : Z :=
  if gz_fixed tz then glue_FixedTimezone_utcoffset tz (Some d) else zi_utcoffset tz d.
Definition tz_fromutc (tz : gtz) (d : gdt) : result gdt :=
  if gz_fixed tz then glue_FixedTimezone_fromutc tz d else zi_fromutc tz d.
(* datetime.utcoffset(): None for a naive value, else tzinfo.utcoffset(self)   (C11 spec_is_stdlib_datetime_utcoffset) *)
Definition nat_utcoffset (d : gdt) : option Z :=
  match g_tz d with None => None | Some tz => Some (tz_utcoffset tz d) end.
(* datetime.astimezone(tz) on an aware value (naive: system local time, out of scope) *)
Definition nat_astimezone (d : gdt) (tz : gtz) : result gdt :=
  match g_tz d with
  | None => Raise E_NotImplemented
  | Some mytz =>
    if gtz_is mytz tz then Ok d
    else match nat_add d (- tz_utcoffset mytz d) with
         | Raise e => Raise e
         | Ok utc => tz_fromutc tz (g_set_tz utc (Some tz))
         end
  end.
(* aware a - b in microseconds (C11 spec_is_stdlib_datetime_sub): same tzinfo object => wall difference, else difference of the instants *)
Definition nat_sub (a b : gdt) : result Z :=
  match g_tz a, g_tz b with
  | None, None => Ok (g_wall a - g_wall b)
  | Some ta, Some tb => if gtz_is ta tb then Ok (g_wall a - g_wall b)
                        else Ok ((g_wall a - tz_utcoffset ta a) - (g_wall b - tz_utcoffset tb b))
  | _, _ => Raise E_TypeError
  end.
"""

CONVERT_DISPATCH = """
(* ---- BY HAND: tz.convert(dt, raise_on_unknown_times) dispatches on the class of tz; None.convert -> AttributeError ---- *)
Definition g_convert (tz : gtz) (d : gdt) (r : bool) : result gdt :=
  if gz_fixed tz then glue_FixedTimezone_convert tz d r else glue_Timezone_convert tz d r.
Definition g_convert_opt (tz : option gtz) (d : gdt) (r : bool) : result gdt :=
  match tz with Some t => g_convert t d r | None => Raise E_AttributeError end.
"""


def gen(_shared):
    tz_path, dt_path, init_path = src("tz/timezone.py"), src("datetime.py"), src("__init__.py")
    tz_tree, dt_tree, init_tree = (ast.parse(open(p).read()) for p in (tz_path, dt_path, init_path))
    _check_shapes(tz_tree, dt_tree, init_tree)
    out = [HEADER % "src/pendulum/tz/timezone.py, src/pendulum/datetime.py (timezone glue)"]
    out.append("From PV Require Import Spec.Cal Spec.Zone Model.TzGlueObj.\n"
               "(* See tools/vlib/gens/g15_tz_glue.py: what is translated, the recognised rewrites, the assumptions and the hand model. *)\n")

    # ---------------- FixedTimezone.utcoffset / fromutc
    cf = _base_ctx()
    cf.attrs["_utcoffset"] = ("gz_utcoffset_us", Z)
    fn = _fn(tz_tree, "FixedTimezone.utcoffset")
    text, rett, monad = _tr(cf, fn, "glue_FixedTimezone_utcoffset", {"dt": ODT}, TZ, "translated from src/pendulum/tz/timezone.py :: FixedTimezone.utcoffset")
    if rett != Z or monad is not None:
        raise P.Unsupported("FixedTimezone.utcoffset: unexpected type")
    out.append(text)
    fn = _fn(tz_tree, "FixedTimezone.fromutc")
    text, rett, monad = _tr(cf, fn, "glue_FixedTimezone_fromutc", {"dt": DT}, TZ, "translated from src/pendulum/tz/timezone.py :: FixedTimezone.fromutc",
                            force_result=True)
    if rett != DT or monad != "result":
        raise P.Unsupported("FixedTimezone.fromutc: unexpected type")
    out.append(text)
    out.append(DISPATCH)

    # ---------------- Timezone.convert / FixedTimezone.convert
    for c in (cf,):
        c.kwmethods[("astimezone", DT)] = ("nat_astimezone", ["tz"], {}, [TZ], DT, "result")
    ct = _base_ctx()
    ct.kwmethods[("astimezone", DT)] = ("nat_astimezone", ["tz"], {}, [TZ], DT, "result")
    ct.kwmethods[("utcoffset", TZ)] = ("zi_utcoffset", ["dt"], {}, [DT], Z, None)     # ZoneInfo.utcoffset, inherited by Timezone
    fn = _fn(tz_tree, "Timezone.convert")
    text, rett, monad = _tr(ct, fn, "glue_Timezone_convert", {"dt": DT, "raise_on_unknown_times": B}, TZ,
                            "translated from src/pendulum/tz/timezone.py :: Timezone.convert (self.utcoffset = ZoneInfo.utcoffset)")
    if rett != DT or monad != "result":
        raise P.Unsupported("Timezone.convert: unexpected type")
    out.append(text)
    fn = _fn(tz_tree, "FixedTimezone.convert")
    text, rett, monad = _tr(cf, fn, "glue_FixedTimezone_convert", {"dt": DT, "raise_on_unknown_times": B}, TZ,
                            "translated from src/pendulum/tz/timezone.py :: FixedTimezone.convert")
    if rett != DT or monad != "result":
        raise P.Unsupported("FixedTimezone.convert: unexpected type")
    out.append(text)
    out.append(CONVERT_DISPATCH)
    conv = ("g_convert", ["dt", "raise_on_unknown_times"], {"raise_on_unknown_times": "false"}, [DT, B], DT, "result")
    for c, cname in ((ct, "Timezone"), (cf, "FixedTimezone")):
        c.kwmethods[("convert", TZ)] = (f"glue_{cname}_convert",) + conv[1:]      # self.convert inside the class itself
        fn = _fn(tz_tree, cname + ".datetime")
        text, rett, monad = _tr(c, fn, f"glue_{cname}_datetime", {p: Z for p in FIELDS}, TZ,
                                f"translated from src/pendulum/tz/timezone.py :: {cname}.datetime")
        out.append(text)

    # ---------------- DateTime
    cd = _base_ctx()
    cd.kwmethods[("convert", TZ)] = conv
    cd.kwmethods[("convert", OTZ)] = ("g_convert_opt",) + conv[1:]
    cd.kwmethods[("_native_astimezone", DT)] = ("nat_astimezone", ["tz"], {}, [TZ], DT, "result")
    cd.kwmethods[("utcoffset", DT)] = ("nat_utcoffset", [], {}, [], OZ, None)
    cd.binops[("Sub", DT, OZ)] = ("nat_sub_opt_td {l} {r}", DT, "result")
    cd.binops[("Sub", DT, DT)] = ("nat_sub {l} {r}", Z, "result")
    cd.attrs.update({"days": ("td_days_us", Z), "seconds": ("td_seconds_us", Z), "_EPOCH": ("(fun _ : gdt => g_EPOCH)", DT)})
    cd.consts["SECONDS_PER_DAY"] = ("86400", Z)
    spd = [n for n in ast.parse(open(src("constants.py")).read()).body if isinstance(n, ast.Assign) and ast.unparse(n.targets[0]) == "SECONDS_PER_DAY"]
    if len(spd) != 1:
        raise P.Unsupported("constants.py: SECONDS_PER_DAY not found")
    out.append("From PV Require Import Gen.Constants.\nExample glue_SECONDS_PER_DAY : C_SECONDS_PER_DAY = 86400. Proof. reflexivity. Qed.\n")

    fn = _fn(dt_tree, "DateTime.create", drop_first="cls")
    params = [a.arg for a in fn.args.args]
    if params != FIELDS + ["tz", "fold", "raise_on_unknown_times"] or [ast.unparse(d) for d in fn.args.defaults] != ["0", "0", "0", "0", "UTC", "1", "False"]:
        raise P.Unsupported(f"DateTime.create: unexpected signature {params}")
    types = {p: Z for p in FIELDS}
    types.update({"tz": OTZ, "fold": Z, "raise_on_unknown_times": B})
    text, rett, monad = _tr(cd, fn, "glue_DateTime_create", types, None, "translated from src/pendulum/datetime.py :: DateTime.create")
    if rett != DT or monad != "result":
        raise P.Unsupported("DateTime.create: unexpected type")
    out.append(text)
    cd.kwfuncs["_create"] = ("glue_DateTime_create", params,
                             {"hour": "0", "minute": "0", "second": "0", "microsecond": "0", "tz": "(Some g_UTC)", "fold": "1",
                              "raise_on_unknown_times": "false"}, [types[p] for p in params], DT, "result")

    fn = _fn(dt_tree, "DateTime.in_timezone")
    text, rett, monad = _tr(cd, fn, "glue_DateTime_in_timezone", {"tz": TZ}, DT, "translated from src/pendulum/datetime.py :: DateTime.in_timezone",
                            force_result=True)
    out.append(text)
    cd.kwmethods[("in_timezone", DT)] = ("glue_DateTime_in_timezone", ["tz"], {}, [TZ], DT, "result")
    fn = _fn(dt_tree, "DateTime.in_tz")
    text, rett, monad = _tr(cd, fn, "glue_DateTime_in_tz", {"tz": TZ}, DT, "translated from src/pendulum/datetime.py :: DateTime.in_tz", force_result=True)
    out.append(text)
    fn = _fn(dt_tree, "DateTime.astimezone")
    text, rett, monad = _tr(cd, fn, "glue_DateTime_astimezone", {"tz": TZ}, DT,
                            "translated from src/pendulum/datetime.py :: DateTime.astimezone (tz a timezone object)", force_result=True)
    out.append(text)

    cd.kwfuncs["add_duration"] = ("g_add_duration", ["dt", "years", "months", "weeks", "days", "hours", "minutes", "seconds", "microseconds"],
                                  {p: "0" for p in ("years", "months", "weeks", "days", "hours", "minutes", "seconds", "microseconds")},
                                  [DT] + [Z] * 8, DT, "result")
    fn = _fn(dt_tree, "DateTime.add")
    aparams = ["years", "months", "weeks", "days", "hours", "minutes", "seconds", "microseconds"]
    if [a.arg for a in fn.args.args] != ["self"] + aparams:
        raise P.Unsupported("DateTime.add: unexpected signature")
    text, rett, monad = _tr(cd, fn, "glue_DateTime_add", {p: Z for p in aparams}, DT, "translated from src/pendulum/datetime.py :: DateTime.add",
                            force_result=True)
    if rett != DT or monad != "result":
        raise P.Unsupported("DateTime.add: unexpected type")
    out.append(text)

    # ---------------- DateTime.set / on / at / replace / naive (they read self.fold: Model/WallHistory.v)
    fn = _fn(dt_tree, "DateTime.set")
    sparams = [a.arg for a in fn.args.args]
    if sparams != ["self"] + FIELDS + ["tz"] or [ast.unparse(d_) for d_ in fn.args.defaults] != ["None"] * 8:
        raise P.Unsupported(f"DateTime.set: unexpected signature {sparams}")
    stypes = {p_: OZ for p_ in FIELDS}
    stypes["tz"] = OTZ
    text, rett, monad = _tr(cd, fn, "glue_DateTime_set", stypes, DT, "translated from src/pendulum/datetime.py :: DateTime.set "
                            "(the tz argument is None or a timezone object)")
    if rett != DT or monad != "result":
        raise P.Unsupported("DateTime.set: unexpected type")
    out.append(text)
    cd.kwmethods[("set", DT)] = ("glue_DateTime_set", FIELDS + ["tz"], {p_: "None" for p_ in FIELDS + ["tz"]}, [stypes[p_] for p_ in FIELDS + ["tz"]],
                                 DT, "result")
    fn = _fn(dt_tree, "DateTime.on")
    text, rett, monad = _tr(cd, fn, "glue_DateTime_on", {"year": Z, "month": Z, "day": Z}, DT, "translated from src/pendulum/datetime.py :: DateTime.on",
                            force_result=True)
    out.append(text)
    fn = _fn(dt_tree, "DateTime.at")
    if [ast.unparse(d_) for d_ in fn.args.defaults] != ["0", "0", "0"]:
        raise P.Unsupported("DateTime.at: unexpected defaults")
    text, rett, monad = _tr(cd, fn, "glue_DateTime_at", {"hour": Z, "minute": Z, "second": Z, "microsecond": Z}, DT,
                            "translated from src/pendulum/datetime.py :: DateTime.at", force_result=True)
    out.append(text)
    fn = _fn(dt_tree, "DateTime.naive")
    text, rett, monad = _tr(cd, fn, "glue_DateTime_naive", {}, DT, "translated from src/pendulum/datetime.py :: DateTime.naive", force_result=True)
    out.append(text)
    from .g13_stdlib_zone import Specialise
    rfn = P.find_function(dt_tree, "DateTime.replace")
    rparams = [a.arg for a in rfn.args.args]
    if rparams != ["self"] + FIELDS + ["tzinfo", "fold"] or [ast.unparse(d_) for d_ in rfn.args.defaults] != ["None"] * 7 + ["True", "None"]:
        raise P.Unsupported(f"DateTime.replace: unexpected signature {rparams}")
    for variant, val in (("keep", True), ("tz", False)):
        sp = Specialise("DateTime.replace", {"tzinfo is True": val})
        fn = sp.visit(copy.deepcopy(rfn))
        if sp.used != {"tzinfo is True"}:
            raise P.Unsupported("DateTime.replace: `tzinfo is True` disappeared")
        fn = Rw("DateTime.replace").visit(fn)
        rtypes = {p_: OZ for p_ in FIELDS + ["fold"]}
        if val:
            fn.args.args = [a for a in fn.args.args if a.arg != "tzinfo"]
            fn.body.insert(0, ast.parse("tzinfo = self.tzinfo").body[0])      # the branch taken when tzinfo is the default True
            rest = [st for st in fn.body[1:] if ast.unparse(st) != "tzinfo = self.tzinfo"]
            if len(rest) != len(fn.body) - 2:
                raise P.Unsupported("DateTime.replace: the `tzinfo is True` branch is not `tzinfo = self.tzinfo`")
            fn.body = [fn.body[0]] + rest
        else:
            rtypes["tzinfo"] = OTZ
        fn.args.defaults = []
        ast.fix_missing_locations(fn)
        text, rett, monad = _tr(cd, fn, f"glue_DateTime_replace_{variant}", rtypes, DT,
                                "translated from src/pendulum/datetime.py :: DateTime.replace SPECIALISED to "
                                + ("tzinfo not passed (tzinfo is True = True)" if val else "tzinfo passed: None or a timezone object (tzinfo is True = False)"))
        if rett != DT or monad != "result":
            raise P.Unsupported("DateTime.replace: unexpected type")
        out.append(text)

    # ---------------- DateTime.instance, pendulum.datetime, pendulum.from_timestamp (integer timestamp, tz a timezone object)
    cd.opaque["dt.tzinfo or tz"] = ("opt_tz_or (g_tz {dt}) {tz}", OTZ)
    fn = _fn(dt_tree, "DateTime.instance", drop_first="cls")
    if [a.arg for a in fn.args.args] != ["dt", "tz"] or [ast.unparse(d_) for d_ in fn.args.defaults] != ["UTC"]:
        raise P.Unsupported("DateTime.instance: unexpected signature")
    text, rett, monad = _tr(cd, fn, "glue_DateTime_instance", {"dt": DT, "tz": OTZ}, None,
                            "translated from src/pendulum/datetime.py :: DateTime.instance (tzinfo of dt and tz: None or pendulum timezone objects; "
                            "`dt.tzinfo or tz` = the first that is not None)", force_result=True)
    out.append(text)
    del cd.opaque["dt.tzinfo or tz"]
    fn = _fn(init_tree, "datetime")
    pparams = [a.arg for a in fn.args.args]
    if pparams != FIELDS + ["tz", "fold", "raise_on_unknown_times"] or [ast.unparse(d_) for d_ in fn.args.defaults] != ["0", "0", "0", "0", "UTC", "1", "False"]:
        raise P.Unsupported(f"pendulum.datetime: unexpected signature {pparams}")
    text, rett, monad = _tr(cd, fn, "glue_pendulum_datetime", types, None, "translated from src/pendulum/__init__.py :: datetime", force_result=True)
    out.append(text)
    cd.kwfuncs["datetime"] = ("glue_pendulum_datetime",) + cd.kwfuncs["_create"][1:]
    cd.funcs["_nat_utcfromtimestamp"] = ("nat_utcfromtimestamp", [Z], DT, "result")
    from .g13_stdlib_zone import Specialise as _Sp
    sp = _Sp("from_timestamp", {"tz != 'UTC'": True})
    fn = sp.visit(copy.deepcopy(P.find_function(init_tree, "from_timestamp")))
    if sp.used != {"tz != 'UTC'"}:
        raise P.Unsupported("from_timestamp: the test `tz is not UTC or tz != 'UTC'` changed")
    fn = Rw("from_timestamp").visit(fn)
    ast.fix_missing_locations(fn)
    if [a.arg for a in fn.args.args] != ["timestamp", "tz"] or [ast.unparse(d_) for d_ in fn.args.defaults] != ["UTC"]:
        raise P.Unsupported("from_timestamp: unexpected signature")
    text, rett, monad = _tr(cd, fn, "glue_from_timestamp", {"timestamp": Z, "tz": TZ}, None,
                            "translated from src/pendulum/__init__.py :: from_timestamp SPECIALISED to an integer timestamp and a timezone OBJECT "
                            "(then `tz != 'UTC'` is True, so in_timezone always runs)", force_result=True)
    if rett != DT or monad != "result":
        raise P.Unsupported("from_timestamp: unexpected type")
    out.append(text)

    # ---------------- DateTime.subtract and the operator entry points (Duration / Interval operands; the plain-timedelta route passes a FLOAT
    # number of seconds to add() and is NOT translated: it stays hand-written in Model/CalendarArith.v dt_add_fsec + pinned)
    OP = "gop"
    cd.kwmethods[("add", DT)] = ("glue_DateTime_add", aparams, {p_: "0" for p_ in aparams}, [Z] * 8, DT, "result")
    fn = _fn(dt_tree, "DateTime.subtract")
    if [a.arg for a in fn.args.args] != ["self"] + aparams:
        raise P.Unsupported("DateTime.subtract: unexpected signature")
    text, rett, monad = _tr(cd, fn, "glue_DateTime_subtract", {p_: Z for p_ in aparams}, DT, "translated from src/pendulum/datetime.py :: DateTime.subtract",
                            force_result=True)
    out.append(text)
    cd.kwmethods[("subtract", DT)] = ("glue_DateTime_subtract", aparams, {p_: "0" for p_ in aparams}, [Z] * 8, DT, "result")
    co = copy.copy(cd)
    co.attrs = dict(cd.attrs)
    co.attrs.update({"years": ("op_years", Z), "months": ("op_months", Z), "weeks": ("op_weeks", Z), "remaining_days": ("op_rdays", Z),
                     "hours": ("op_hours", Z), "minutes": ("op_minutes", Z), "remaining_seconds": ("op_rsecs", Z),
                     "microseconds": ("op_micro", Z), "days": ("op_days", Z)})
    co.funcs = dict(cd.funcs)
    out.append("(* BY HAND: self.add( **delta._signature ): the eight keyword values the Duration was built with; no _signature -> AttributeError *)\n"
               "Definition g_add_signature (d : gdt) (o : gop) : result gdt :=\n"
               "  match op_sig o with\n  | [y; mo; wk; dd; h; mi; s; us] => glue_DateTime_add d y mo wk dd h mi s us\n  | _ => Raise E_AttributeError\n  end.\n"
               "(* BY HAND: datetime.__add__(self, other) for any timedelta subclass: the native addition of its microseconds *)\n"
               "Definition nat_add_op (d : gdt) (o : gop) : result gdt := nat_add d (op_us o).\n")
    co.funcs["_add_signature"] = ("g_add_signature", [DT, OP], DT, "result")
    co.funcs["_native_add"] = ("nat_add_op", [DT, OP], DT, "result")
    IV, DU = "isinstance(delta, pendulum.Interval)", "isinstance(delta, pendulum.Duration)"
    for variant, assume in (("interval", {IV: True}), ("duration", {IV: False, DU: True})):
        fn = _spec_fn(dt_tree, "DateTime._add_timedelta_", assume)
        text, rett, monad = _tr(co, fn, f"glue_DateTime_add_timedelta_{variant}", {"delta": OP}, DT,
                                f"translated from src/pendulum/datetime.py :: DateTime._add_timedelta_ SPECIALISED to {assume}", force_result=True)
        out.append(text)
    fn = _spec_fn(dt_tree, "DateTime._subtract_timedelta", {DU: True})
    text, rett, monad = _tr(co, fn, "glue_DateTime_subtract_timedelta_duration", {"delta": OP}, DT,
                            "translated from src/pendulum/datetime.py :: DateTime._subtract_timedelta SPECIALISED to a Duration / Interval operand",
                            force_result=True)
    out.append(text)
    out.append("(* BY HAND: dispatch on the class of the operand; the plain-timedelta route (float seconds) is not translated: E_NotImplemented marks it *)\n"
               "Definition g_add_timedelta (d : gdt) (o : gop) : result gdt :=\n"
               "  if op_kind o =? 2 then glue_DateTime_add_timedelta_interval d o\n"
               "  else if op_kind o =? 1 then glue_DateTime_add_timedelta_duration d o else Raise E_NotImplemented.\n"
               "Definition g_subtract_timedelta (d : gdt) (o : gop) : result gdt :=\n"
               "  if (op_kind o =? 2) || (op_kind o =? 1) then glue_DateTime_subtract_timedelta_duration d o else Raise E_NotImplemented.\n")
    co.kwmethods = dict(cd.kwmethods)
    co.kwmethods[("_add_timedelta_", DT)] = ("g_add_timedelta", ["delta"], {}, [OP], DT, "result")
    co.kwmethods[("_subtract_timedelta", DT)] = ("g_subtract_timedelta", ["delta"], {}, [OP], DT, "result")
    # __add__: the stack inspection becomes an explicit boolean parameter
    if sum(1 for n in ast.walk(dt_tree) if isinstance(n, ast.Name) and n.id == "traceback") != 1:
        raise P.Unsupported("datetime.py: traceback is used somewhere else than in DateTime.__add__")
    fn = _spec_fn(dt_tree, "DateTime.__add__", {"isinstance(other, datetime.timedelta)": True})
    got = [ast.unparse(st) for st in fn.body]
    want = ["caller = traceback.extract_stack(limit=2)[0].name", "if caller == 'astimezone':\n    return _native_add(self, other)",
            "return self._add_timedelta_(other)"]
    if got != want:
        raise P.Unsupported(f"DateTime.__add__: the stack-inspection shape changed: {got}")
    fn.body = [ast.parse("if called_from_astimezone:\n    return _native_add(self, other)").body[0], fn.body[2]]
    fn.args.args.append(ast.arg(arg="called_from_astimezone"))
    ast.fix_missing_locations(fn)
    text, rett, monad = _tr(co, fn, "glue_DateTime___add__", {"other": OP, "called_from_astimezone": B}, DT,
                            "translated from src/pendulum/datetime.py :: DateTime.__add__ (other a timedelta); RECOGNISED SHAPE: "
                            "`caller = traceback.extract_stack(limit=2)[0].name; if caller == 'astimezone': ...` -> the explicit parameter "
                            "called_from_astimezone (True exactly when the calling frame is a function named astimezone: datetime.astimezone's "
                            "`self - offset` / tz.fromutc chain; every other caller, __radd__ included, passes False)", force_result=True)
    out.append(text)
    co.kwmethods[("__add__", DT)] = ("glue_DateTime___add__", ["other", "called_from_astimezone"], {"called_from_astimezone": "false"}, [OP, B], DT, "result")
    fn = _fn(dt_tree, "DateTime.__radd__")
    text, rett, monad = _tr(co, fn, "glue_DateTime___radd__", {"other": OP}, DT, "translated from src/pendulum/datetime.py :: DateTime.__radd__", force_result=True)
    out.append(text)
    subf = [n for n in next(c for c in dt_tree.body if isinstance(c, ast.ClassDef) and c.name == "DateTime").body
            if isinstance(n, ast.FunctionDef) and n.name == "__sub__" and not P._is_overload(n)]
    if len(subf) != 1 or ast.unparse(subf[0].body[0]) != "if isinstance(other, datetime.timedelta):\n    return self._subtract_timedelta(other)":
        raise P.Unsupported("DateTime.__sub__: the timedelta branch changed")
    out.append("(* DateTime.__sub__, timedelta operand: its first statement is checked to be\n"
               "     if isinstance(other, datetime.timedelta): return self._subtract_timedelta(other)\n"
               "   (the datetime-operand branch builds an Interval: not translated) *)\n"
               "Definition glue_DateTime___sub___timedelta (d : gdt) (o : gop) : result gdt := g_subtract_timedelta d o.\n")

    # ---------------- Date.add / subtract / _add_timedelta / _subtract_timedelta / __add__ / __sub__ (timedelta operand)
    date_tree = ast.parse(open(src("date.py")).read())
    GD = "gdate"
    cg = P.Ctx()
    cg.int_boolop = cg.obj_fragment = cg.conservative_exit = True
    cg.attrs.update({"year": ("gd_year", Z), "month": ("gd_month", Z), "day": ("gd_day", Z)})
    cg.attrs.update({k_: v_ for k_, v_ in co.attrs.items() if v_[0].startswith("op_")})
    cg.kwfuncs["_nat_date_new"] = ("nat_date_new", ["year", "month", "day"], {}, [Z, Z, Z], GD, "result")
    cg.kwfuncs["add_duration"] = ("g_add_duration_date", ["dt", "years", "months", "weeks", "days"], {p_: "0" for p_ in ("years", "months", "weeks", "days")},
                                  [GD, Z, Z, Z, Z], GD, "result")
    dparams = ["years", "months", "weeks", "days"]
    if "from pendulum.helpers import add_duration" not in [ast.unparse(n) for n in date_tree.body if isinstance(n, ast.ImportFrom)] \
            or "from datetime import date" not in [ast.unparse(n) for n in date_tree.body if isinstance(n, ast.ImportFrom)]:
        raise P.Unsupported("date.py: add_duration / date are not imported as expected")
    dcls = next((c for c in date_tree.body if isinstance(c, ast.ClassDef) and c.name == "Date"), None)
    if dcls is None or any(isinstance(n, ast.FunctionDef) and n.name in ("__new__", "__init__") for n in dcls.body):
        raise P.Unsupported("date.py: class Date missing or it defines __new__/__init__")

    def dfn(qual, assume=None):
        if assume is not None:
            return _spec_fn(date_tree, qual, assume, "_nat_date_new")
        f_ = Rw(qual, "_nat_date_new").visit(copy.deepcopy(P.find_function(date_tree, qual)))
        ast.fix_missing_locations(f_)
        return f_
    fn = dfn("Date.add")
    if [a.arg for a in fn.args.args] != ["self"] + dparams:
        raise P.Unsupported("Date.add: unexpected signature")
    text, rett, monad = _tr(cg, fn, "glue_Date_add", {p_: Z for p_ in dparams}, GD, "translated from src/pendulum/date.py :: Date.add", force_result=True)
    out.append(text)
    cg.kwmethods[("add", GD)] = ("glue_Date_add", dparams, {p_: "0" for p_ in dparams}, [Z] * 4, GD, "result")
    fn = dfn("Date.subtract")
    text, rett, monad = _tr(cg, fn, "glue_Date_subtract", {p_: Z for p_ in dparams}, GD, "translated from src/pendulum/date.py :: Date.subtract", force_result=True)
    out.append(text)
    cg.kwmethods[("subtract", GD)] = ("glue_Date_subtract", dparams, {p_: "0" for p_ in dparams}, [Z] * 4, GD, "result")
    for meth, coqbase in (("_add_timedelta", "glue_Date_add_timedelta"), ("_subtract_timedelta", "glue_Date_subtract_timedelta")):
        for variant, val in (("duration", True), ("plain", False)):
            fn = dfn("Date." + meth, {DU: val})
            text, rett, monad = _tr(cg, fn, f"{coqbase}_{variant}", {"delta": OP}, GD,
                                    f"translated from src/pendulum/date.py :: Date.{meth} SPECIALISED to isinstance(delta, pendulum.Duration) = {val}",
                                    force_result=True)
            out.append(text)
    out.append("(* BY HAND: dispatch on the class of the operand (an Interval is a Duration) *)\n"
               "Definition g_date_add_timedelta (d : gdate) (o : gop) : result gdate :=\n"
               "  if op_kind o =? 0 then glue_Date_add_timedelta_plain d o else glue_Date_add_timedelta_duration d o.\n"
               "Definition g_date_subtract_timedelta (d : gdate) (o : gop) : result gdate :=\n"
               "  if op_kind o =? 0 then glue_Date_subtract_timedelta_plain d o else glue_Date_subtract_timedelta_duration d o.\n")
    cg.kwmethods[("_add_timedelta", GD)] = ("g_date_add_timedelta", ["delta"], {}, [OP], GD, "result")
    cg.kwmethods[("_subtract_timedelta", GD)] = ("g_date_subtract_timedelta", ["delta"], {}, [OP], GD, "result")
    fn = dfn("Date.__add__", {"isinstance(other, timedelta)": True})
    text, rett, monad = _tr(cg, fn, "glue_Date___add__", {"other": OP}, GD, "translated from src/pendulum/date.py :: Date.__add__ (other a timedelta)",
                            force_result=True)
    out.append(text)
    dsub = [n for n in dcls.body if isinstance(n, ast.FunctionDef) and n.name == "__sub__" and not P._is_overload(n)]
    if len(dsub) != 1 or ast.unparse(dsub[0].body[0]) != "if isinstance(other, timedelta):\n    return self._subtract_timedelta(other)":
        raise P.Unsupported("Date.__sub__: the timedelta branch changed")
    out.append("(* Date.__sub__, timedelta operand (first statement checked; the date-operand branch builds an Interval: not translated) *)\n"
               "Definition glue_Date___sub___timedelta (d : gdate) (o : gop) : result gdate := g_date_subtract_timedelta d o.\n")

    # ---------------- pendulum._safe_timezone on every kind of argument it distinguishes, and DateTime.instance with a FOREIGN tzinfo
    TA = "gtzarg"
    cs = P.Ctx()
    cs.int_boolop = cs.obj_fragment = cs.conservative_exit = True
    cs.consts["UTC"] = ("g_UTC", TZ)
    cs.opaque["isinstance(obj, (Timezone, FixedTimezone))"] = ("ta_kind {obj} =? 0", B)
    cs.opaque["isinstance(obj, (int, float))"] = ("ta_kind {obj} =? 4", B)
    cs.opaque["isinstance(obj, _datetime.tzinfo)"] = ("ta_kind {obj} =? 5", B)
    cs.opaque["hasattr(obj, 'key')"] = ("ta_has_key {obj}", B)
    cs.opaque["hasattr(obj, 'localize')"] = ("ta_has_localize {obj}", B)
    cs.opaque["obj.tzname(None) == 'UTC'"] = ("ta_tzname_utc {obj}", B)
    cs.opaque["obj.utcoffset(dt)"] = ("ta_utcoffset {obj}", OZ)
    cs.opaque["obj.key"] = ("ta_key {obj}", TA)
    cs.opaque["obj.zone"] = ("ta_zone {obj}", TA)
    cs.opaque["int(obj * 60 * 60)"] = ("ta_of_offset (ta_hours {obj} * 60 * 60) {obj}", TA)
    cs.opaque["int(offset.total_seconds())"] = ("ta_of_offset (Z.quot {offset} 1000000) {obj}", TA)
    cs.funcs["timezone"] = ("g_timezone", [TA], TZ, None)
    cs.funcs["_as_tz"] = ("ta_tz", [TA], TZ, None)
    from .g13_stdlib_zone import Specialise as _Sp2
    sp = _Sp2("_safe_timezone", {"obj is None": False, "obj == 'local'": False})
    fn = sp.visit(copy.deepcopy(P.find_function(init_tree, "_safe_timezone")))
    if sp.used != {"obj is None", "obj == 'local'"}:
        raise P.Unsupported("_safe_timezone: the None / 'local' test changed")

    class SafeRw(ast.NodeTransformer):
        def visit_Call(self, node):
            self.generic_visit(node)
            f_ = ast.unparse(node.func)
            if f_ == "cast" and len(node.args) == 2:
                return node.args[1]
            if f_ == "_datetime.timedelta" and [ast.unparse(a) for a in node.args] == ["0"] and not node.keywords:
                return ast.copy_location(ast.Constant(value=0), node)
            return node

        def visit_Return(self, node):
            self.generic_visit(node)
            if ast.unparse(node) == "return obj":
                return ast.copy_location(ast.Return(value=ast.Call(func=ast.Name(id="_as_tz", ctx=ast.Load()),
                                                                    args=[ast.Name(id="obj", ctx=ast.Load())], keywords=[])), node)
            return node
    fn = SafeRw().visit(fn)
    ast.fix_missing_locations(fn)
    if [a.arg for a in fn.args.args] != ["obj", "dt"] or [ast.unparse(d_) for d_ in fn.args.defaults] != ["None"]:
        raise P.Unsupported("_safe_timezone: unexpected signature")
    fn.args.args = fn.args.args[:1]
    fn.args.defaults = []
    text, rett, monad = _tr(cs, fn, "glue_safe_timezone", {"obj": TA}, None,
                            "translated from src/pendulum/__init__.py :: _safe_timezone SPECIALISED to an argument that is not None and not 'local' "
                            "(the system local timezone is out of scope); the argument is the record gtzarg of what the code asks of it; "
                            "int(x.total_seconds()) truncates toward zero (Z.quot); timezone(name | int) = g_timezone; the dt parameter only feeds "
                            "obj.utcoffset(dt)")
    if rett != TZ:
        raise P.Unsupported("_safe_timezone: unexpected type")
    out.append(text)
    safe_monad = monad
    # DateTime.instance when the tzinfo of the native value / the tz argument may be foreign
    out.append("(* a native datetime whose tzinfo is an ARGUMENT KIND of _safe_timezone (possibly foreign) *)\n"
               "Record gfdt := mkgfdt { fd_wall : Z; fd_fold : Z; fd_tz : option gtzarg }.\n"
               "Definition fd_gdt (d : gfdt) : gdt := mkgdt (fd_wall d) (fd_fold d) None.\n"
               "Definition opt_ta_or (a b : option gtzarg) : option gtzarg := match a with Some _ => a | None => b end.\n")
    cf2 = _base_ctx()
    cf2.attrs = {f_: ("(fun d : gfdt => g_" + f_ + " (fd_gdt d))", Z) for f_ in FIELDS}
    cf2.attrs.update({"fold": ("fd_fold", Z), "tzinfo": ("fd_tz", ("opt", TA))})
    cf2.kwfuncs["_create"] = cd.kwfuncs["_create"]
    cf2.opaque["dt.tzinfo or tz"] = ("opt_ta_or (fd_tz {dt}) {tz}", ("opt", TA))
    if safe_monad == "result":
        cf2.funcs["_safe_tz"] = ("glue_safe_timezone", [TA], TZ, "result")
    else:
        cf2.funcs["_safe_tz"] = ("glue_safe_timezone", [TA], TZ, None)
    fn = copy.deepcopy(P.find_function(dt_tree, "DateTime.instance"))
    fn.args.args = fn.args.args[1:]

    class InstF(ast.NodeTransformer):
        def visit_Call(self, node):
            self.generic_visit(node)
            f_ = ast.unparse(node.func)
            if f_ == "pendulum._safe_timezone" and len(node.args) == 1 and [k.arg for k in node.keywords] == ["dt"]:
                return ast.copy_location(ast.Call(func=ast.Name(id="_safe_tz", ctx=ast.Load()), args=node.args, keywords=[]), node)
            if f_ == "cls.create":
                return ast.copy_location(ast.Call(func=ast.Name(id="_create", ctx=ast.Load()), args=node.args, keywords=node.keywords), node)
            return node
    fn = InstF().visit(fn)
    ast.fix_missing_locations(fn)
    # `if tz is not None: tz = _safe_timezone(tz)` changes the type of tz (argument kind -> timezone object): give the result its own name
    body_txt = [ast.unparse(st) for st in fn.body if not (isinstance(st, ast.Expr) and isinstance(st.value, ast.Constant))]
    if body_txt[:2] != ["tz = dt.tzinfo or tz", "if tz is not None:\n    tz = _safe_tz(tz)"] or len(body_txt) != 3 or "tz=tz" not in body_txt[2]:
        raise P.Unsupported(f"DateTime.instance: unexpected body {body_txt[:2]}")
    new_src = ("def instance(dt, tz):\n    tz = dt.tzinfo or tz\n    tzobj = None\n    if tz is not None:\n        tzobj = _safe_tz(tz)\n    "
               + body_txt[2].replace("tz=tz", "tz=tzobj") + "\n")
    fn = ast.parse(new_src).body[0]
    cf2.none_for["tzobj"] = ("(@None gtz)", OTZ)
    text, rett, monad = _tr(cf2, fn, "glue_DateTime_instance_foreign", {"dt": "gfdt", "tz": ("opt", TA)}, None,
                            "translated from src/pendulum/datetime.py :: DateTime.instance with _safe_timezone NOT assumed to be the identity "
                            "(RECOGNISED SHAPE: the rebinding `tz = _safe_timezone(tz, dt=dt)` under `if tz is not None` gets its own name tzobj, "
                            "because its type changes from an argument kind to a timezone object)", force_result=True)
    out.append(text)

    fn = _fn(dt_tree, "DateTime.int_timestamp")
    text, rett, monad = _tr(cd, fn, "glue_DateTime_int_timestamp", {}, DT, "translated from src/pendulum/datetime.py :: DateTime.int_timestamp (a property)",
                            force_result=True)
    out.append(text)
    return "\n".join(out) + "\n"


def steps(ctx):
    return [("TzGlue.v", lambda: gen(ctx))]
