"""C17: the Unicode decimal digits (category Nd) as the interpreter UNDER TEST sees them.

CPython's `re` `\\d` (str patterns) is Py_UNICODE_ISDECIMAL and int() maps every such character to its decimal value, so the
pure-Python parsers accept e.g. Arabic-Indic digits while the Rust parser (char::to_digit(10)) only accepts ASCII.
Gen/UnicodeNd.v carries the table as runs (first code point, last code point, value of the first) taken from the staged
interpreter (/venv/bin/python: the Unicode database version is the one the implementation runs with, not the runner's)."""
import json
import subprocess

from .. import py2gallina as P
from ..gen import HEADER
from ..stage import PY

_CODE = r"""
import sys, json, unicodedata
runs = []
for cp in range(sys.maxunicode + 1):
    ch = chr(cp)
    if ch.isdecimal():
        v = unicodedata.decimal(ch)
        if int(ch) != v:
            raise SystemExit("int() disagrees with unicodedata.decimal at %d" % cp)
        if runs and runs[-1][1] == cp - 1 and runs[-1][2] + (cp - runs[-1][0]) == v:
            runs[-1][1] = cp
        else:
            runs.append([cp, cp, v])
print(json.dumps([unicodedata.unidata_version, runs]))
"""


def gen_nd(ctx):
    p = subprocess.run([PY, "-c", _CODE], capture_output=True, text=True, timeout=120)
    if p.returncode != 0:
        raise P.Unsupported("cannot read the Unicode decimal digit table: " + p.stderr[-300:])
    ver, runs = json.loads(p.stdout)
    if [48, 57, 0] not in runs:
        raise P.Unsupported("ASCII digits missing from the decimal digit table")
    body = "; ".join(f"({a}, {b}, {v})" for a, b, v in runs)
    return (HEADER % f"the staged CPython's Unicode database {ver} (str.isdecimal / unicodedata.decimal)"
            + f"\n(* runs of decimal digits: (first code point, last code point, decimal value of the first) *)\n"
            + f"Definition ND_RUNS : list (Z * Z * Z) := [{body}].\n")


def steps(ctx):
    return [("UnicodeNd.v", lambda: gen_nd(ctx))]
