"""C12 — Gen/StartEnd.v: the _start_of_* / _end_of_* family of DateTime and Date, regenerated from /repo on every run.

Translated (py2gallina, whole function bodies; `self.set(...)` with every field given is the model primitive dt_set / date_set of
coq/Model/StartEndBase.v, `self.year/.month/.days_in_month` are its field accessors):
  DateTime._start_of_month/_end_of_month/_start_of_year/_end_of_year/_start_of_decade/_end_of_decade/_start_of_century/_end_of_century
  Date.    the same eight
  the default week configuration of pendulum/__init__.py (_WEEK_STARTS_AT / _WEEK_ENDS_AT) through the WeekDay enum of day.py
Checked for shape only (exact text of the body; any edit fails closed as a broken translator tie) — these are modelled by hand in
coq/Model/StartEnd.v because they use keyword arguments, getattr dispatch or object loops:
  DateTime.set, DateTime.at, DateTime.start_of/end_of, _start_of_second.._end_of_day, _start_of_week/_end_of_week, next/previous,
  Date.set, Date.start_of/end_of, _start_of_day/_end_of_day, _start_of_week/_end_of_week, next/previous,
  helpers.week_starts_at / week_ends_at.
A private Ctx is used for each class (attribute names must not leak into other generators); constants come from the shared one."""
import ast

from .. import py2gallina as P
from ..gen import HEADER, src

Z = P.Z
FAMILY = ["_start_of_month", "_end_of_month", "_start_of_year", "_end_of_year",
          "_start_of_decade", "_end_of_decade", "_start_of_century", "_end_of_century"]


def _body(fn):
    body = fn.body
    if body and isinstance(body[0], ast.Expr) and isinstance(body[0].value, ast.Constant) and isinstance(body[0].value.value, str):
        body = body[1:]
    return [ast.unparse(s) for s in body]


def _expect(what, got, want):
    if got != want:
        raise P.Unsupported(f"{what} is no longer the code that coq/Model/StartEnd.v models: got {got!r}, expected {want!r}")


VALID = ["if unit not in self._MODIFIERS_VALID_UNITS:\n    raise ValueError(f'Invalid unit \"{{unit}}\" for {0}()')",
         "return cast('Self', getattr(self, f'_{0}_{{unit}}')())"]
WEEK_START = ["dt = self", "if self.day_of_week != pendulum._WEEK_STARTS_AT:\n    dt = self.previous(pendulum._WEEK_STARTS_AT)", "return dt.start_of('day')"]
WEEK_END = ["dt = self", "if self.day_of_week != pendulum._WEEK_ENDS_AT:\n    dt = self.next(pendulum._WEEK_ENDS_AT)", "return dt.end_of('day')"]
WD_GUARD = ["if day_of_week is None:\n    day_of_week = self.day_of_week",
            "if day_of_week < WeekDay.MONDAY or day_of_week > WeekDay.SUNDAY:\n    raise ValueError('Invalid day of week')"]

DT_PINNED = {
    "set": ["if year is None:\n    year = self.year", "if month is None:\n    month = self.month", "if day is None:\n    day = self.day",
            "if hour is None:\n    hour = self.hour", "if minute is None:\n    minute = self.minute", "if second is None:\n    second = self.second",
            "if microsecond is None:\n    microsecond = self.microsecond", "if tz is None:\n    tz = self.tz",
            "return self.__class__.create(year, month, day, hour, minute, second, microsecond, tz=tz, fold=self.fold)"],
    "at": ["return self.set(hour=hour, minute=minute, second=second, microsecond=microsecond)"],
    "start_of": [s.format("start_of") for s in VALID],
    "end_of": [s.format("end_of") for s in VALID],
    "_start_of_second": ["return self.set(microsecond=0)"],
    "_end_of_second": ["return self.set(microsecond=999999)"],
    "_start_of_minute": ["return self.set(second=0, microsecond=0)"],
    "_end_of_minute": ["return self.set(second=59, microsecond=999999)"],
    "_start_of_hour": ["return self.set(minute=0, second=0, microsecond=0)"],
    "_end_of_hour": ["return self.set(minute=59, second=59, microsecond=999999)"],
    "_start_of_day": ["return self.at(0, 0, 0, 0)"],
    "_end_of_day": ["return self.at(23, 59, 59, 999999)"],
    "_start_of_week": WEEK_START,
    "_end_of_week": WEEK_END,
    "next": WD_GUARD + ["dt = self if keep_time else self.start_of('day')", "dt = dt.add(days=1)",
                        "while dt.day_of_week != day_of_week:\n    dt = dt.add(days=1)", "return dt"],
    "previous": WD_GUARD + ["dt = self if keep_time else self.start_of('day')", "dt = dt.subtract(days=1)",
                            "while dt.day_of_week != day_of_week:\n    dt = dt.subtract(days=1)", "return dt"],
    "subtract": ["return self.add(years=-years, months=-months, weeks=-weeks, days=-days, hours=-hours, minutes=-minutes, "
                 "seconds=-seconds, microseconds=-microseconds)"],
}
DATE_PINNED = {
    "set": ["return self.replace(year=year, month=month, day=day)"],
    "start_of": [s.format("start_of") for s in VALID],
    "end_of": [s.format("end_of") for s in VALID],
    "_start_of_day": ["return self"],
    "_end_of_day": ["return self"],
    "_start_of_week": WEEK_START,
    "_end_of_week": WEEK_END,
    "next": WD_GUARD + ["dt = self.add(days=1)", "while dt.day_of_week != day_of_week:\n    dt = dt.add(days=1)", "return dt"],
    "previous": WD_GUARD + ["dt = self.subtract(days=1)", "while dt.day_of_week != day_of_week:\n    dt = dt.subtract(days=1)", "return dt"],
    "day_of_week": ["return WeekDay(self.weekday())"],
    "days_in_month": ["return calendar.monthrange(self.year, self.month)[1]"],
}
UNITS_DT = ["second", "minute", "hour", "day", "week", "month", "year", "decade", "century"]
UNITS_DATE = ["day", "week", "month", "year", "decade", "century"]


def _units_list(tree, cls):
    c = next(n for n in tree.body if isinstance(n, ast.ClassDef) and n.name == cls)
    for s in c.body:
        if isinstance(s, ast.AnnAssign) and isinstance(s.target, ast.Name) and s.target.id == "_MODIFIERS_VALID_UNITS":
            return ast.literal_eval(s.value)
    raise P.Unsupported(f"{cls}._MODIFIERS_VALID_UNITS not found")


def _private(ctx):
    c = P.Ctx()
    c.consts = dict(ctx.consts)
    return c


def gen_start_end(ctx):
    out = []
    # ---------------- DateTime
    path = src("datetime.py")
    tree = ast.parse(open(path).read())
    for name, want in DT_PINNED.items():
        _expect("DateTime." + name, _body(P.find_function(tree, "DateTime." + name)), want)
    _expect("DateTime._MODIFIERS_VALID_UNITS", _units_list(tree, "DateTime"), UNITS_DT)
    c = _private(ctx)
    c.attrs.update({"year": ("dt_year", Z), "month": ("dt_month", Z), "day": ("dt_day", Z), "days_in_month": ("dt_days_in_month", Z)})
    c.methods["set"] = ("dt_set", "(result (Z * bool))", None)
    for f in FAMILY:
        P.translate_function(c, path, "DateTime." + f, coq_name="py_dt" + f, self_type="dtv")
    out += c.out
    # ---------------- Date
    path = src("date.py")
    tree = ast.parse(open(path).read())
    for name, want in DATE_PINNED.items():
        _expect("Date." + name, _body(P.find_function(tree, "Date." + name)), want)
    _expect("Date._MODIFIERS_VALID_UNITS", _units_list(tree, "Date"), UNITS_DATE)
    c = _private(ctx)
    c.attrs.update({"year": ("date_year", Z), "month": ("date_month", Z), "day": ("date_day", Z), "days_in_month": ("date_days_in_month", Z)})
    c.methods["set"] = ("date_set", "(result Z)", None)
    for f in FAMILY:
        P.translate_function(c, path, "Date." + f, coq_name="py_date" + f, self_type="dv")
    out += c.out
    # ---------------- week configuration
    htree = ast.parse(open(src("helpers.py")).read())
    for nm, var in (("week_starts_at", "_WEEK_STARTS_AT"), ("week_ends_at", "_WEEK_ENDS_AT")):
        _expect("helpers." + nm, _body(P.find_function(htree, nm)),
                ["if wday < WeekDay.MONDAY or wday > WeekDay.SUNDAY:\n    raise ValueError('Invalid day of week')", f"pendulum.{var} = wday"])
    dtree = ast.parse(open(src("day.py")).read())
    wd = {}
    for n in dtree.body:
        if isinstance(n, ast.ClassDef) and n.name == "WeekDay":
            for s in n.body:
                if isinstance(s, ast.Assign) and isinstance(s.targets[0], ast.Name) and isinstance(s.value, ast.Constant) and isinstance(s.value.value, int):
                    wd[s.targets[0].id] = s.value.value
    _expect("day.WeekDay", wd, {"MONDAY": 0, "TUESDAY": 1, "WEDNESDAY": 2, "THURSDAY": 3, "FRIDAY": 4, "SATURDAY": 5, "SUNDAY": 6})
    itree = ast.parse(open(src("__init__.py")).read())
    dflt = {}
    for s in itree.body:
        if isinstance(s, ast.AnnAssign) and isinstance(s.target, ast.Name) and s.target.id in ("_WEEK_STARTS_AT", "_WEEK_ENDS_AT"):
            v = s.value
            if not (isinstance(v, ast.Attribute) and isinstance(v.value, ast.Name) and v.value.id == "WeekDay" and v.attr in wd):
                raise P.Unsupported(f"__init__.{s.target.id}: unexpected initial value {ast.unparse(v)}")
            dflt[s.target.id] = wd[v.attr]
    if set(dflt) != {"_WEEK_STARTS_AT", "_WEEK_ENDS_AT"}:
        raise P.Unsupported("__init__: _WEEK_STARTS_AT/_WEEK_ENDS_AT not found")
    out.append("(* pendulum/__init__.py: the initial process-wide week configuration (WeekDay values of day.py) *)\n"
               f"Definition C12_WEEK_STARTS_AT_DEFAULT : Z := {dflt['_WEEK_STARTS_AT']}.\n"
               f"Definition C12_WEEK_ENDS_AT_DEFAULT : Z := {dflt['_WEEK_ENDS_AT']}.\n")
    return (HEADER % "src/pendulum/datetime.py, date.py, helpers.py, __init__.py, day.py"
            + "From PV Require Import Spec.Cal Gen.Constants Model.StartEndBase.\n\n" + "\n".join(out))


def steps(ctx):
    return [("StartEnd.v", lambda: gen_start_end(ctx))]
