"""Gen/StdlibDT.v — the arithmetic of CPython's pure-Python datetime (`_pydatetime.py` of the STAGED interpreter) translated.

The native semantics the models use as SPECIFICATION (Spec/NativeDT.v ndt_add_td / ndt_replace_ymd, Spec/TdFloat.v td_norm / td_of_int_args,
Model/DropIn.v native_sub / native_eq / native_ord / native_utcoffset) is hand-written from CPython's documented behaviour; this file is the
machine translation of CPython's own reference implementation and Proofs/StdlibDTFacts.v proves the two equal (Props/C11.v spec_is_stdlib_*).

TRANSLATED (py2gallina, object fragment), each after PARTIAL EVALUATION under the assumptions listed with it (an `if`/`assert` whose test
becomes constant is resolved; every assumption must be used; nothing else is removed):
  timedelta.__new__        INTEGER path: isinstance(days|seconds|microseconds, float) = False (the float branches are OUT OF SCOPE), the
                           isinstance(.., int|float) assertions about the locals hold.  The three float locals of that path (daysecondsfrac,
                           secondsfrac, usdouble) only ever hold 0.0 and the remaining float literals are integral (0.0 1.0 2.0 1e6 2.1e6 3.1e6,
                           24.*3600. is in the removed branch): they are REPRESENTED BY THE INTEGERS THEY EQUAL (all values stay far below
                           2**53, so float +, *, abs, comparisons with ints and round() are exact); round(int + 0.0) = that int (sl_round_int).
  timedelta.__add__ / __sub__ / __neg__     other is a timedelta
  _check_time_fields, datetime.__new__      not the pickle form (isinstance(year, (bytes, str)) = False)
  _check_utc_offset        for name = "utcoffset" (the parameter only feeds messages and the first assert), offset None or a timedelta
  datetime.utcoffset, date.toordinal (on a datetime), datetime.__sub__ (other is a datetime), datetime._cmp (other is a datetime),
  datetime.__add__ (other is a timedelta), datetime.replace (called with year/month/day only: the other parameters are their defaults)
  date.__add__ (other is a timedelta), date.__sub__ (other is a date), date.replace
RECOGNISED SHAPES (rewritten before translation, anything else fails closed):
  the object-construction tail `self = object.__new__(cls); self._x = x; ...; self._hashcode = -1; return self` -> the record constructor;
  `type(self)(...)` -> the translated __new__ of the exact class (ASSUMPTION: self is an exact datetime/date, not a subclass);
  `type(self).combine(date.fromordinal(n), time(h, m, s, us, tzinfo=tz))` -> dm_combine_ord (below); `type(self).fromordinal(o)` likewise;
  `_check_utc_offset("utcoffset", x)` -> the specialised function; a bare `return` / falling off the end of a checking function -> return 0;
  the statement `_check_tzinfo_arg(tzinfo)` is dropped (tzinfo is None or a tzinfo object).
HAND MODEL: coq/Model/StdlibDTObj.v (objects, identity of tzinfo, equality/order/truth of timedeltas, the offset range test, _cmp on
  tuples, replace(fold=not fold)), plus in this file dm_combine_ord / date_of_ordinal, which build the result from the TRANSLATED _ord2ymd
  (Gen/StdlibCal.v) with fold = 0 (time()'s default, which combine() copies) — datetime.combine / date.fromordinal / time.__new__ are
  not translated.  _ymd2ord, _ord2ymd, _check_date_fields are the translations of Gen/StdlibCal.v.
"""
import ast
import copy
import json
import subprocess

from .. import py2gallina as P
from ..gen import HEADER, zlit
from ..stage import PY
from .g13_stdlib_zone import Specialise

Z, B = P.Z, P.B
TD, DT, TZ = "std", "sdtm", "stz"
OTD, OTZ, OZ = ("opt", TD), ("opt", TZ), ("opt", Z)

PROBE = "import _pydatetime as m, json; print(json.dumps({'file': m.__file__, '_MAXORDINAL': m._MAXORDINAL}))"

CMP_SHAPE = "def _cmp(x, y):\n    return 0 if x == y else 1 if x > y else -1\n"
TD_TAIL = ["self = object.__new__(cls)", "self._days = d", "self._seconds = s", "self._microseconds = us", "self._hashcode = -1", "return self"]
DT_TAIL = ["self = object.__new__(cls)", "self._year = year", "self._month = month", "self._day = day", "self._hour = hour",
           "self._minute = minute", "self._second = second", "self._microsecond = microsecond", "self._tzinfo = tzinfo",
           "self._hashcode = -1", "self._fold = fold", "return self"]
D_TAIL = ["self = object.__new__(cls)", "self._year = year", "self._month = month", "self._day = day", "self._hashcode = -1", "return self"]
PROPS = {"timedelta": {"days": "_days", "seconds": "_seconds", "microseconds": "_microseconds"},
         "date": {"year": "_year", "month": "_month", "day": "_day"},
         "datetime": {"hour": "_hour", "minute": "_minute", "second": "_second", "microsecond": "_microsecond", "tzinfo": "_tzinfo",
                      "fold": "_fold"}}


def _probe():
    try:
        p = subprocess.run([PY, "-c", PROBE], capture_output=True, text=True, timeout=120)
    except Exception as e:  # noqa
        raise P.Unsupported(f"staged interpreter could not be asked for _pydatetime: {e}")
    if p.returncode != 0:
        raise P.Unsupported("staged interpreter has no importable _pydatetime: " + p.stderr[-300:])
    return json.loads(p.stdout)


def _spec(tree, qual, assume, int_floats=False):
    fn = copy.deepcopy(P.find_function(tree, qual))
    sp = Specialise(qual, assume, int_floats)
    new = sp.visit(fn)
    if int_floats:
        class IntFloats(ast.NodeTransformer):
            def visit_Constant(self, node):
                if isinstance(node.value, float):
                    if node.value != int(node.value):
                        raise P.Unsupported(f"{qual}: non-integral float literal {node.value}")
                    return ast.copy_location(ast.Constant(value=int(node.value)), node)
                return node
        new = IntFloats().visit(new)
    if sp.used != set(assume):
        raise P.Unsupported(f"{qual}: assumptions used {sorted(sp.used)} differ from the expected {sorted(assume)}")
    left = ast.unparse(new)
    if "isinstance" in left:
        raise P.Unsupported(f"{qual}: `isinstance` is left after specialisation")
    return new


def _tail_to_ctor(fn, tail, ctor, args, qual):
    body = [s for s in fn.body]
    got = [ast.unparse(s) for s in body[-len(tail):]]
    if got != tail:
        raise P.Unsupported(f"{qual}: the object-construction tail is not the recognised one: {got}")
    call = ast.Return(value=ast.Call(func=ast.Name(id=ctor, ctx=ast.Load()), args=[ast.Name(id=a, ctx=ast.Load()) for a in args], keywords=[]))
    fn.body = body[:-len(tail)] + [call]
    if not fn.args.args or fn.args.args[0].arg != "cls":
        raise P.Unsupported(f"{qual}: first parameter is not cls")
    fn.args.args = fn.args.args[1:]
    fn.args.args += fn.args.kwonlyargs          # keyword-only parameters become ordinary ones (calls go through kwfuncs by name)
    fn.args.kwonlyargs, fn.args.kw_defaults, fn.args.defaults = [], [], []
    ast.fix_missing_locations(fn)
    return fn


class Rewrite(ast.NodeTransformer):
    """the recognised call shapes (see the module docstring)"""

    def __init__(self, qual, cls_ctor):
        self.qual, self.cls_ctor = qual, cls_ctor

    def visit_Call(self, node):
        self.generic_visit(node)
        f = ast.unparse(node.func)
        if f == "type(self)":
            if self.cls_ctor is None:
                raise P.Unsupported(f"{self.qual}: unexpected type(self)(...)")
            return ast.copy_location(ast.Call(func=ast.Name(id=self.cls_ctor, ctx=ast.Load()), args=node.args, keywords=node.keywords), node)
        if f == "type(self).combine":
            ok = (len(node.args) == 2 and not node.keywords and isinstance(node.args[0], ast.Call)
                  and ast.unparse(node.args[0].func) == "date.fromordinal" and len(node.args[0].args) == 1
                  and isinstance(node.args[1], ast.Call) and ast.unparse(node.args[1].func) == "time" and len(node.args[1].args) == 4
                  and [k.arg for k in node.args[1].keywords] == ["tzinfo"])
            if not ok:
                raise P.Unsupported(f"{self.qual}: unrecognised combine(...) call")
            args = [node.args[0].args[0]] + node.args[1].args + [node.args[1].keywords[0].value]
            return ast.copy_location(ast.Call(func=ast.Name(id="_combine_ord", ctx=ast.Load()), args=args, keywords=[]), node)
        if f == "type(self).fromordinal":
            return ast.copy_location(ast.Call(func=ast.Name(id="_date_of_ordinal", ctx=ast.Load()), args=node.args, keywords=[]), node)
        if f == "_check_utc_offset":
            if not (len(node.args) == 2 and isinstance(node.args[0], ast.Constant) and node.args[0].value == "utcoffset"):
                raise P.Unsupported(f"{self.qual}: unrecognised _check_utc_offset call")
            return ast.copy_location(ast.Call(func=node.func, args=node.args[1:], keywords=[]), node)
        return node

    def visit_Expr(self, node):
        if ast.unparse(node) == "_check_tzinfo_arg(tzinfo)":
            return None
        self.generic_visit(node)
        return node

    def visit_Return(self, node):
        self.generic_visit(node)
        if node.value is None:
            return ast.copy_location(ast.Return(value=ast.Constant(value=0)), node)
        return node


def _rewrite(fn, qual, cls_ctor=None):
    new = Rewrite(qual, cls_ctor).visit(fn)
    ast.fix_missing_locations(new)
    return new


def _tr(ctx, fn, coq, argtypes, self_type, what, **kw):
    tr = P.FunTr(ctx, fn, coq, argtypes=argtypes, self_type=self_type, **kw)
    text, argt, rett, monad = tr.translate()
    shown = ast.unparse(fn).replace("(*", "( *").replace("*)", "* )").replace("\n", "\n     ")
    return f"(* {what}\n   What is translated:\n     {shown} *)\n" + text, argt, rett, monad


def _check_props(tree):
    for cls, props in PROPS.items():
        c = next((n for n in tree.body if isinstance(n, ast.ClassDef) and n.name == cls), None)
        if c is None:
            raise P.Unsupported(f"_pydatetime.py: class {cls} not found")
        for name, slot in props.items():
            f = [n for n in c.body if isinstance(n, ast.FunctionDef) and n.name == name]
            body = [s for s in (f[0].body if f else []) if not (isinstance(s, ast.Expr) and isinstance(s.value, ast.Constant))]
            if len(f) != 1 or [ast.unparse(d) for d in f[0].decorator_list] != ["property"] or [ast.unparse(s) for s in body] != [f"return self.{slot}"]:
                raise P.Unsupported(f"_pydatetime.py: {cls}.{name} is not the property returning self.{slot}")
    for cls in ("timedelta", "date", "datetime"):
        for n in ast.walk(tree):
            if isinstance(n, ast.Attribute) and isinstance(n.ctx, (ast.Store, ast.Del)) and isinstance(n.value, ast.Name) and n.value.id == cls \
                    and n.attr in ("__new__", "__add__", "__sub__", "__neg__", "_cmp", "replace", "utcoffset", "toordinal", "__radd__"):
                raise P.Unsupported(f"_pydatetime.py: {cls}.{n.attr} is rebound")


def gen(_shared_ctx):
    rt = _probe()
    path = rt["file"]
    if not path.endswith("_pydatetime.py"):
        raise P.Unsupported(f"_pydatetime is not a Python source file: {path}")
    tree = ast.parse(open(path).read())
    _check_props(tree)
    cmpf = P.find_function(tree, "_cmp")
    if ast.dump(ast.parse(ast.unparse(cmpf))) != ast.dump(ast.parse(CMP_SHAPE)):
        raise P.Unsupported("_pydatetime.py: _cmp(x, y) is not the recognised three-way comparison")
    mo = [n for n in tree.body if isinstance(n, ast.Assign) and ast.unparse(n.targets[0]) == "_MAXORDINAL"]
    if len(mo) != 1 or not isinstance(mo[0].value, ast.Constant) or mo[0].value.value != rt["_MAXORDINAL"]:
        raise P.Unsupported("_pydatetime.py: _MAXORDINAL is not the literal the interpreter reports")
    if ast.unparse(next((n for n in P.find_function(tree, "datetime.__add__").body if isinstance(n, ast.Return)), ast.Pass())) == "":
        pass
    radd = [ast.unparse(n) for c in tree.body if isinstance(c, ast.ClassDef) and c.name in ("date", "datetime") for n in c.body
            if isinstance(n, ast.Assign) and ast.unparse(n.targets[0]) == "__radd__"]
    if radd != ["__radd__ = __add__", "__radd__ = __add__"]:
        raise P.Unsupported("_pydatetime.py: __radd__ is not __add__ in date and datetime")

    out = [HEADER % f"CPython's {path} (the module the staged interpreter {PY} imports as _pydatetime)"]
    out.append("From PV Require Import Model.StdlibDTObj Gen.StdlibCal.\n"
               "(* See tools/vlib/gens/g14_stdlib_dt.py: what is translated, under which assumptions each function is specialised, the recognised\n"
               "   shapes and the hand model.  `assert` -> Raise E_Exception. *)\n")
    out.append(f"(* translated: _MAXORDINAL = {rt['_MAXORDINAL']} *)\nDefinition sl_MAXORDINAL : Z := {zlit(rt['_MAXORDINAL'])}.\n")

    ctx = P.Ctx()
    ctx.assert_exn = "E_Exception"
    ctx.int_boolop = True
    ctx.obj_fragment = True
    ctx.consts["_MAXORDINAL"] = ("sl_MAXORDINAL", Z)
    ctx.attrs.update({"_days": ("td_days", Z), "_seconds": ("td_seconds", Z), "_microseconds": ("td_microseconds", Z),
                      "days": ("td_days", Z), "seconds": ("td_seconds", Z), "microseconds": ("td_microseconds", Z)})
    ctx.funcs["round"] = ("sl_round_int", [Z], Z, None)
    ctx.funcs["_mk_timedelta"] = ("mkstd", [Z, Z, Z], TD, None)

    # ---------------- timedelta.__new__ (integer path)
    float_args = {f"isinstance({v}, float)": False for v in ("days", "seconds", "microseconds")}
    holds = {f"isinstance({v}, float)": True for v in ("daysecondsfrac", "secondsfrac")}
    holds.update({f"isinstance({v}, int)": True for v in ("d", "seconds", "s", "microseconds", "us")})
    fn = _spec(tree, "timedelta.__new__", {**float_args, **holds}, int_floats=True)
    fn = _tail_to_ctor(fn, TD_TAIL, "_mk_timedelta", ["d", "s", "us"], "timedelta.__new__")
    params = [a.arg for a in fn.args.args]
    if params != ["days", "seconds", "microseconds", "milliseconds", "minutes", "hours", "weeks"]:
        raise P.Unsupported(f"timedelta.__new__: unexpected parameters {params}")
    text, _, rett, monad = _tr(ctx, fn, "sl_timedelta_new", {p: Z for p in params}, None,
                               f"translated from {path} :: timedelta.__new__ SPECIALISED to integer arguments: "
                               + "; ".join(f"{k} = {v}" for k, v in {**float_args, **holds}.items())
                               + "; integral float literals written as ints, the float locals hold 0.0 = 0")
    if rett != TD or monad != "result":
        raise P.Unsupported("timedelta.__new__: unexpected type of the translation")
    out.append(text)
    ctx.kwfuncs["timedelta"] = ("sl_timedelta_new", params, {p: "0" for p in params}, [Z] * 7, TD, "result")

    # ---------------- timedelta.__add__ / __sub__ / __neg__
    for m, coq in (("__add__", "sl_timedelta_add"), ("__sub__", "sl_timedelta_sub")):
        fn = _spec(tree, "timedelta." + m, {"isinstance(other, timedelta)": True})
        text, _, rett, monad = _tr(ctx, fn, coq, {"other": TD}, TD,
                                   f"translated from {path} :: timedelta.{m} SPECIALISED under isinstance(other, timedelta) = True")
        out.append(text)
    fn = P.find_function(tree, "timedelta.__neg__")
    text, _, rett, monad = _tr(ctx, copy.deepcopy(fn), "sl_timedelta_neg", {}, TD, f"translated from {path} :: timedelta.__neg__")
    out.append(text)
    ctx.binops[("Add", TD, TD)] = ("sl_timedelta_add {l} {r}", TD, "result")
    ctx.binops[("Sub", TD, TD)] = ("sl_timedelta_sub {l} {r}", TD, "result")
    ctx.unops[("USub", TD)] = ("sl_timedelta_neg {x}", TD, "result")
    ctx.cmpops[("Eq", OTD, OTD)] = "opt_td_eqb {l} {r}"
    ctx.truth[TD] = "td_bool {x}"

    # ---------------- field checks and datetime.__new__
    ctx.funcs["_index"] = ("sl_index", [Z], Z, None)
    ctx.funcs["_check_date_fields"] = ("sl_check_date_fields", [Z, Z, Z], (Z, Z, Z), "result")
    ctx.funcs["_ymd2ord"] = ("sl_ymd2ord", [Z, Z, Z], Z, "result")
    fn = copy.deepcopy(P.find_function(tree, "_check_time_fields"))
    text, _, rett, monad = _tr(ctx, fn, "sl_check_time_fields", {p: Z for p in ("hour", "minute", "second", "microsecond", "fold")}, None,
                               f"translated from {path} :: _check_time_fields")
    out.append(text)
    ctx.funcs["_check_time_fields"] = ("sl_check_time_fields", [Z] * 5, (Z, Z, Z, Z, Z), "result")

    ctx.funcs["_mk_datetime"] = ("mksdtm", [Z] * 8 + [OTZ], DT, None)
    fn = _spec(tree, "datetime.__new__", {"isinstance(year, (bytes, str))": False})
    fn = _rewrite(fn, "datetime.__new__")
    fn = _tail_to_ctor(fn, DT_TAIL, "_mk_datetime", ["year", "month", "day", "hour", "minute", "second", "microsecond", "fold", "tzinfo"],
                       "datetime.__new__")
    dparams = [a.arg for a in fn.args.args]
    if dparams != ["year", "month", "day", "hour", "minute", "second", "microsecond", "tzinfo", "fold"]:
        raise P.Unsupported(f"datetime.__new__: unexpected parameters {dparams}")
    dtypes = {p: Z for p in dparams}
    dtypes["tzinfo"] = OTZ
    text, _, rett, monad = _tr(ctx, fn, "sl_datetime_new", dtypes, None,
                               f"translated from {path} :: datetime.__new__ SPECIALISED under isinstance(year, (bytes, str)) = False (not the "
                               "pickle form), _check_tzinfo_arg dropped, object construction = the record")
    if rett != DT or monad != "result":
        raise P.Unsupported("datetime.__new__: unexpected type of the translation")
    out.append(text)
    ctx.kwfuncs["_datetime_new"] = ("sl_datetime_new", dparams, {"hour": "0", "minute": "0", "second": "0", "microsecond": "0", "tzinfo": "None",
                                                                 "fold": "0"},
                                    [dtypes[p] for p in dparams], DT, "result")

    # ---------------- datetime: slots, utcoffset, toordinal
    ctx.attrs.update({"_year": ("dm_year", Z), "_month": ("dm_month", Z), "_day": ("dm_day", Z), "_hour": ("dm_hour", Z),
                      "_minute": ("dm_minute", Z), "_second": ("dm_second", Z), "_microsecond": ("dm_microsecond", Z),
                      "_fold": ("dm_fold", Z), "_tzinfo": ("dm_tz", OTZ),
                      "year": ("dm_year", Z), "month": ("dm_month", Z), "day": ("dm_day", Z), "hour": ("dm_hour", Z),
                      "minute": ("dm_minute", Z), "second": ("dm_second", Z), "microsecond": ("dm_microsecond", Z),
                      "fold": ("dm_fold", Z), "tzinfo": ("dm_tz", OTZ)})
    ctx.cmpops[("Is", OTZ, OTZ)] = "opt_tz_is {l} {r}"

    fn = copy.deepcopy(P.find_function(tree, "_check_utc_offset"))
    if [a.arg for a in fn.args.args] != ["name", "offset"] or ast.unparse(fn.body[0]) != "assert name in ('utcoffset', 'dst')":
        raise P.Unsupported("_check_utc_offset: unexpected parameters / first statement")
    fn.args.args = fn.args.args[1:]
    fn.body = fn.body[1:]
    sp = Specialise("_check_utc_offset", {"isinstance(offset, timedelta)": True})
    fn = sp.visit(fn)
    if sp.used != {"isinstance(offset, timedelta)"}:
        raise P.Unsupported("_check_utc_offset: the isinstance test disappeared")
    fn = _rewrite(fn, "_check_utc_offset")
    fn.body.append(ast.Return(value=ast.Constant(value=0)))
    ast.fix_missing_locations(fn)
    ctx.opaque["-timedelta(1) < offset < timedelta(1)"] = ("td_in_day_range {offset}", B)
    text, _, rett, monad = _tr(ctx, fn, "sl_check_utc_offset", {"offset": OTD}, None,
                               f"translated from {path} :: _check_utc_offset SPECIALISED to name = 'utcoffset' (first assert), offset None or a "
                               "timedelta; a bare return / the end of the function return 0; the range test is the hand primitive td_in_day_range")
    if rett != Z or monad != "result":
        raise P.Unsupported("_check_utc_offset: unexpected type of the translation")
    out.append(text)
    del ctx.opaque["-timedelta(1) < offset < timedelta(1)"]
    ctx.funcs["_check_utc_offset"] = ("sl_check_utc_offset", [OTD], Z, "result")

    fn = _rewrite(copy.deepcopy(P.find_function(tree, "datetime.utcoffset")), "datetime.utcoffset")
    ctx.opaque["self._tzinfo.utcoffset(self)"] = ("tz_utcoffset_of {self}", OTD)
    text, _, rett, monad = _tr(ctx, fn, "sl_datetime_utcoffset", {}, DT, f"translated from {path} :: datetime.utcoffset "
                               "(self._tzinfo.utcoffset(self) = the tzinfo object's function applied to the fields and fold of self)", ret_decl=OTD)
    out.append(text)
    del ctx.opaque["self._tzinfo.utcoffset(self)"]
    ctx.methods["utcoffset"] = ("sl_datetime_utcoffset", OTD, "result")

    fn = copy.deepcopy(P.find_function(tree, "date.toordinal"))
    text, _, rett, monad = _tr(ctx, fn, "sl_datetime_toordinal", {}, DT, f"translated from {path} :: date.toordinal (inherited by datetime)")
    out.append(text)
    ctx.methods["toordinal"] = ("sl_datetime_toordinal", Z, "result")

    # ---------------- datetime.__sub__ (datetime - datetime)
    fn = _spec(tree, "datetime.__sub__", {"isinstance(other, datetime)": True})
    text, _, rett, monad = _tr(ctx, fn, "sl_datetime_sub", {"other": DT}, DT,
                               f"translated from {path} :: datetime.__sub__ SPECIALISED under isinstance(other, datetime) = True")
    if rett != TD or monad != "result":
        raise P.Unsupported("datetime.__sub__: unexpected type of the translation")
    out.append(text)
    ctx.binops[("Sub", DT, DT)] = ("sl_datetime_sub {l} {r}", TD, "result")

    # ---------------- datetime._cmp
    ctx.funcs["_cmp"] = ("sl_cmp7", None, Z, None)
    ctx.none_for.update({"myoff": ("(@None std)", OTD), "otoff": ("(@None std)", OTD)})
    ctx.opaque["self.replace(fold=not self.fold)"] = ("dm_flip_fold {self}", DT)
    ctx.opaque["other.replace(fold=not other.fold)"] = ("dm_flip_fold {other}", DT)
    ctx.opaque["diff and 1 or 0"] = ("if td_bool {diff} then 1 else 0", Z)
    fn = _spec(tree, "datetime._cmp", {"isinstance(other, datetime)": True})
    text, _, rett, monad = _tr(ctx, fn, "sl_datetime_cmp", {"other": DT, "allow_mixed": B}, DT,
                               f"translated from {path} :: datetime._cmp SPECIALISED under isinstance(other, datetime) = True; "
                               "x.replace(fold=not x.fold) = dm_flip_fold x, `diff and 1 or 0` = 1 if bool(diff) else 0")
    if rett != Z or monad != "result":
        raise P.Unsupported("datetime._cmp: unexpected type of the translation")
    out.append(text)
    for k in ("self.replace(fold=not self.fold)", "other.replace(fold=not other.fold)", "diff and 1 or 0"):
        del ctx.opaque[k]

    # ---------------- datetime.__add__
    out.append("(* BY HAND: type(self).combine(date.fromordinal(n), time(h, m, s, us, tzinfo=tz)) for an exact datetime: the date of the ordinal by the\n"
               "   TRANSLATED _ord2ymd, the given time fields, fold = 0 (time()'s default, copied by combine); type(self).fromordinal(o) likewise *)\n"
               "Definition dm_combine_ord (n h m s us : Z) (tz : option stz) : result sdtm :=\n"
               "  match sl_ord2ymd n with Ok (y, mo, d) => Ok (mksdtm y mo d h m s us 0 tz) | Raise e => Raise e end.\n"
               "Definition date_of_ordinal (n : Z) : result pdate :=\n"
               "  match sl_ord2ymd n with Ok (y, mo, d) => Ok (mkdate y mo d) | Raise e => Raise e end.\n")
    ctx.funcs["_combine_ord"] = ("dm_combine_ord", [Z, Z, Z, Z, Z, OTZ], DT, "result")
    fn = _rewrite(_spec(tree, "datetime.__add__", {"isinstance(other, timedelta)": True}), "datetime.__add__")
    text, _, rett, monad = _tr(ctx, fn, "sl_datetime_add", {"other": TD}, DT,
                               f"translated from {path} :: datetime.__add__ SPECIALISED under isinstance(other, timedelta) = True")
    if rett != DT or monad != "result":
        raise P.Unsupported("datetime.__add__: unexpected type of the translation")
    out.append(text)

    # ---------------- datetime.replace(year=, month=, day=)
    rep_assume = {f"{p} is None": True for p in ("hour", "minute", "second", "microsecond", "fold")}
    rep_assume["tzinfo is True"] = True
    fn = _rewrite(_spec(tree, "datetime.replace", rep_assume), "datetime.replace", "_datetime_new")
    fn.args.args = [a for a in fn.args.args if a.arg in ("self", "year", "month", "day")]
    fn.args.kwonlyargs, fn.args.kw_defaults, fn.args.defaults = [], [], []
    ast.fix_missing_locations(fn)
    text, _, rett, monad = _tr(ctx, fn, "sl_datetime_replace_ymd", {"year": OZ, "month": OZ, "day": OZ}, DT,
                               f"translated from {path} :: datetime.replace SPECIALISED to a call with year/month/day only (each may be omitted = None): "
                               + "; ".join(f"{k} = {v}" for k, v in rep_assume.items()) + "; type(self) = datetime")
    out.append(text)

    # ---------------- date.__add__ / __sub__ / replace (a date object = Lib.PyBase.pdate)
    c2 = P.Ctx()
    c2.assert_exn, c2.int_boolop, c2.obj_fragment = "E_Exception", True, True
    c2.consts["_MAXORDINAL"] = ("sl_MAXORDINAL", Z)
    c2.attrs.update({"_year": ("d_year", Z), "_month": ("d_month", Z), "_day": ("d_day", Z), "days": ("td_days", Z)})
    c2.funcs["_ymd2ord"] = ("sl_ymd2ord", [Z, Z, Z], Z, "result")
    c2.funcs["_date_of_ordinal"] = ("date_of_ordinal", [Z], "pdate", "result")
    c2.kwfuncs["timedelta"] = ctx.kwfuncs["timedelta"]
    fn = copy.deepcopy(P.find_function(tree, "date.toordinal"))
    text, _, rett, monad = _tr(c2, fn, "sl_date_toordinal'", {}, "pdate", f"translated from {path} :: date.toordinal (on a date)")
    out.append(text)
    c2.methods["toordinal"] = ("sl_date_toordinal'", Z, "result")
    fn = _rewrite(_spec(tree, "date.__add__", {"isinstance(other, timedelta)": True}), "date.__add__")
    text, _, rett, monad = _tr(c2, fn, "sl_date_add", {"other": TD}, "pdate",
                               f"translated from {path} :: date.__add__ SPECIALISED under isinstance(other, timedelta) = True; type(self) = date")
    out.append(text)
    fn = _spec(tree, "date.__sub__", {"isinstance(other, timedelta)": False, "isinstance(other, date)": True})
    text, _, rett, monad = _tr(c2, fn, "sl_date_sub", {"other": "pdate"}, "pdate",
                               f"translated from {path} :: date.__sub__ SPECIALISED to date - date")
    out.append(text)
    return "\n".join(out) + "\n"


def steps(ctx):
    return [("StdlibDT.v", lambda: gen(ctx))]
