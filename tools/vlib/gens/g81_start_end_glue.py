"""C12 — Gen/StartEndGlue.v: DateTime._start_of_* / _end_of_* (second .. century, week), subtract, next / previous TRANSLATED from /repo's
src/pendulum/datetime.py on every run, on top of the translated timezone glue Gen/TzGlue.v (set / at / add / create of g15_tz_glue.py are
CALLED, not re-modelled).  Proofs/StartEndGlueFacts.v proves the hand model coq/Model/StartEnd.v EQUAL to this translation
(Props/C12.v model_is_code_*), so an edit of these methods changes a generated definition and breaks a proof.

TRANSLATED (py2gallina object fragment, keyword calls with their defaults):
  DateTime._start_of_second/_end_of_second/.../_start_of_century/_end_of_century (16 bodies), DateTime.subtract,
  DateTime.next / previous (see RECOGNISED SHAPES), DateTime._start_of_week / _end_of_week
RECOGNISED SHAPES (rewritten before translation; anything else fails closed):
  x.start_of('<unit>') / x.end_of('<unit>') with a literal unit of _MODIFIERS_VALID_UNITS -> x._start_of_<unit>() / x._end_of_<unit>()
      (start_of / end_of are checked to be `if unit not in self._MODIFIERS_VALID_UNITS: raise ValueError; return getattr(self, f"_start_of_{unit}")()`);
  pendulum._WEEK_STARTS_AT / pendulum._WEEK_ENDS_AT (process-wide state) -> an extra parameter of the translated function;
  next / previous are SPECIALISED to a given weekday (`day_of_week is None` = False) and the loop
      `dt = dt.add(days=k)` / `while dt.day_of_week != day_of_week: dt = dt.add(days=k)`   (k = 1; subtract(days=1) for previous)
  is emitted from a TEMPLATE (the translator has no raising call inside a loop): a Fixpoint on explicit fuel whose step is the translated
  add / subtract; the statements around it are translated.  Out of fuel = the loop of the real code does not terminate (OutOfFuel).
HAND MODEL (coq/Model/StartEndGlueObj.v): self.days_in_month = calendar.monthrange(year, month)[1], self.day_of_week = WeekDay(self.weekday()).
"""
import ast
import copy

from .. import py2gallina as P
from ..gen import HEADER, src
from . import g15_tz_glue as G

Z, B = P.Z, P.B
DT, TZ, OTZ, OZ, FIELDS = G.DT, G.TZ, G.OTZ, G.OZ, G.FIELDS
UNITS = ["second", "minute", "hour", "day", "week", "month", "year", "decade", "century"]
PLAIN = ["second", "minute", "hour", "day", "month", "year", "decade", "century"]
DISPATCH_BODY = ["if unit not in self._MODIFIERS_VALID_UNITS:\n    raise ValueError(f'Invalid unit \"{{unit}}\" for {0}()')",
                 "return cast('Self', getattr(self, f'_{0}_{{unit}}')())"]


def _body(fn):
    body = fn.body
    if body and isinstance(body[0], ast.Expr) and isinstance(body[0].value, ast.Constant) and isinstance(body[0].value.value, str):
        body = body[1:]
    return [ast.unparse(s) for s in body]


class UnitRw(ast.NodeTransformer):
    """x.start_of('day') -> x._start_of_day()   (only for a literal, valid unit)"""
    def visit_Call(self, node):
        self.generic_visit(node)
        f = node.func
        if isinstance(f, ast.Attribute) and f.attr in ("start_of", "end_of"):
            if len(node.args) != 1 or node.keywords or not isinstance(node.args[0], ast.Constant) or node.args[0].value not in UNITS:
                raise P.Unsupported(f"{f.attr} with a unit that is not a literal valid unit: {ast.unparse(node)}")
            return ast.copy_location(ast.Call(func=ast.Attribute(value=f.value, attr=f"_{f.attr}_{node.args[0].value}", ctx=ast.Load()),
                                              args=[], keywords=[]), node)
        return node


class StateRw(ast.NodeTransformer):
    """pendulum._WEEK_STARTS_AT -> the parameter week_starts_at"""
    def __init__(self):
        self.used = set()

    def visit_Attribute(self, node):
        self.generic_visit(node)
        p = ast.unparse(node)
        if p in ("pendulum._WEEK_STARTS_AT", "pendulum._WEEK_ENDS_AT"):
            nm = "week_starts_at" if p.endswith("STARTS_AT") else "week_ends_at"
            self.used.add(nm)
            return ast.copy_location(ast.Name(id=nm, ctx=ast.Load()), node)
        return node


def _ctx(shared):
    c = G._base_ctx()
    c.consts.update({k: v for k, v in shared.consts.items() if k in ("YEARS_PER_DECADE", "YEARS_PER_CENTURY")})
    stypes = {p_: OZ for p_ in FIELDS}
    stypes["tz"] = OTZ
    c.kwmethods[("set", DT)] = ("glue_DateTime_set", FIELDS + ["tz"], {p_: "None" for p_ in FIELDS + ["tz"]},
                                [stypes[p_] for p_ in FIELDS + ["tz"]], DT, "result")
    c.kwmethods[("at", DT)] = ("glue_DateTime_at", ["hour", "minute", "second", "microsecond"],
                               {"minute": "0", "second": "0", "microsecond": "0"}, [Z] * 4, DT, "result")
    aparams = ["years", "months", "weeks", "days", "hours", "minutes", "seconds", "microseconds"]
    c.kwmethods[("add", DT)] = ("glue_DateTime_add", aparams, {p_: "0" for p_ in aparams}, [Z] * 8, DT, "result")
    c.attrs["days_in_month"] = ("g_days_in_month", Z)
    c.attrs["day_of_week"] = ("g_day_of_week", Z)
    return c


def _check(tree):
    for nm in ("start_of", "end_of"):
        got = _body(P.find_function(tree, "DateTime." + nm))
        if got != [s.format(nm) for s in DISPATCH_BODY]:
            raise P.Unsupported(f"DateTime.{nm} is not the recognised getattr dispatch: {got}")
    c = next(n for n in tree.body if isinstance(n, ast.ClassDef) and n.name == "DateTime")
    units = None
    for s in c.body:
        if isinstance(s, ast.AnnAssign) and isinstance(s.target, ast.Name) and s.target.id == "_MODIFIERS_VALID_UNITS":
            units = ast.literal_eval(s.value)
    if units != UNITS:
        raise P.Unsupported(f"DateTime._MODIFIERS_VALID_UNITS changed: {units}")
    for nm, want in (("day_of_week", ["return WeekDay(self.weekday())"]), ("days_in_month", ["return calendar.monthrange(self.year, self.month)[1]"])):
        got = _body(P.find_function(ast.parse(open(src("date.py")).read()), "Date." + nm))
        if got != want:
            raise P.Unsupported(f"Date.{nm} is not the recognised property: {got}")
    at = P.find_function(tree, "DateTime.at")
    if [a.arg for a in at.args.args] != ["self", "hour", "minute", "second", "microsecond"] or [ast.unparse(d) for d in at.args.defaults] != ["0", "0", "0"]:
        raise P.Unsupported("DateTime.at: unexpected signature")


class KeepTimeRw(ast.NodeTransformer):
    """SPECIALISATION keep_time = False (the default; what _start_of_week / _end_of_week use): `a if keep_time else b` -> b"""
    def __init__(self):
        self.used = 0

    def visit_IfExp(self, node):
        self.generic_visit(node)
        if isinstance(node.test, ast.Name) and node.test.id == "keep_time":
            self.used += 1
            return node.orelse
        return node


class WeekDayRw(ast.NodeTransformer):
    """WeekDay.<NAME> -> the IntEnum value read from day.py"""
    def __init__(self, values):
        self.values = values

    def visit_Attribute(self, node):
        self.generic_visit(node)
        if isinstance(node.value, ast.Name) and node.value.id == "WeekDay":
            if node.attr not in self.values:
                raise P.Unsupported(f"unknown WeekDay member {node.attr}")
            return ast.copy_location(ast.Constant(value=self.values[node.attr]), node)
        return node


def _weekday_values():
    dtree = ast.parse(open(src("day.py")).read())
    wd = {}
    for n in dtree.body:
        if isinstance(n, ast.ClassDef) and n.name == "WeekDay":
            if [ast.unparse(b) for b in n.bases] != ["IntEnum"]:
                raise P.Unsupported("day.WeekDay is not an IntEnum")
            for st in n.body:
                if isinstance(st, ast.Assign) and isinstance(st.targets[0], ast.Name) and isinstance(st.value, ast.Constant) and isinstance(st.value.value, int):
                    wd[st.targets[0].id] = st.value.value
    if wd != {"MONDAY": 0, "TUESDAY": 1, "WEDNESDAY": 2, "THURSDAY": 3, "FRIDAY": 4, "SATURDAY": 5, "SUNDAY": 6}:
        raise P.Unsupported(f"day.WeekDay changed: {wd}")
    return wd


LOOP_FUEL = 24      # = WALK_FUEL of coq/Model/StartEnd.v (evaluations of the loop test)


def _walk(c, tree, name, wd):
    """DateTime.next / previous, specialised to a given weekday and keep_time=False.  The statements before the loop, the loop test and
    the loop step are TRANSLATED; only the Fixpoint skeleton `while <test>: dt = <step>` + `return dt` comes from the template."""
    from .g13_stdlib_zone import Specialise
    sp = Specialise("DateTime." + name, {"day_of_week is None": False})
    fn = sp.visit(copy.deepcopy(P.find_function(tree, "DateTime." + name)))
    if sp.used != {"day_of_week is None"}:
        raise P.Unsupported(f"DateTime.{name}: the test `day_of_week is None` disappeared")
    fn = G.Rw("DateTime." + name).visit(fn)
    kt = KeepTimeRw()
    fn = kt.visit(fn)
    if kt.used != 1:
        raise P.Unsupported(f"DateTime.{name}: `... if keep_time else ...` not found exactly once")
    fn = WeekDayRw(wd).visit(UnitRw().visit(fn))
    params = [a.arg for a in fn.args.args]
    if params != ["self", "day_of_week", "keep_time"] or [ast.unparse(d) for d in fn.args.defaults] != ["None", "False"]:
        raise P.Unsupported(f"DateTime.{name}: unexpected signature {params}")
    fn.args.args = fn.args.args[:2]
    fn.args.defaults = []
    body = [st for st in fn.body if not (isinstance(st, ast.Expr) and isinstance(st.value, ast.Constant))]
    if len(body) < 3 or not isinstance(body[-2], ast.While) or ast.unparse(body[-1]) != "return dt":
        raise P.Unsupported(f"DateTime.{name}: does not end with `while ...: ...` / `return dt`")
    loop = body[-2]
    if loop.orelse or len(loop.body) != 1 or not isinstance(loop.body[0], ast.Assign) or ast.unparse(loop.body[0].targets[0]) != "dt":
        raise P.Unsupported(f"DateTime.{name}: the loop body is not a single assignment to dt")
    used = {n.id for n in ast.walk(loop) if isinstance(n, ast.Name)}
    if not used <= {"dt", "day_of_week"}:
        raise P.Unsupported(f"DateTime.{name}: the loop reads {sorted(used)}")
    init = copy.deepcopy(fn)
    init.body = body[:-2] + [body[-1]]
    cond = ast.parse(f"def cond(dt, day_of_week):\n    return {ast.unparse(loop.test)}").body[0]
    step = ast.parse(f"def step(dt):\n    return {ast.unparse(loop.body[0].value)}").body[0]
    for f_ in (init, cond, step):
        ast.fix_missing_locations(f_)
    out = []
    text, rett, monad = G._tr(c, init, f"sglue_{name}_init", {"day_of_week": Z}, DT,
                              f"translated from src/pendulum/datetime.py :: DateTime.{name} — the statements BEFORE the loop (day_of_week given, keep_time=False)",
                              force_result=True)
    if rett != DT or monad != "result":
        raise P.Unsupported(f"DateTime.{name}: unexpected type of the loop prefix")
    out.append(text)
    text, rett, monad = G._tr(c, cond, f"sglue_{name}_cond", {"dt": DT, "day_of_week": Z}, None, f"translated: the loop TEST of DateTime.{name}")
    if rett != B or monad is not None:
        raise P.Unsupported(f"DateTime.{name}: unexpected type of the loop test")
    out.append(text)
    text, rett, monad = G._tr(c, step, f"sglue_{name}_step", {"dt": DT}, None, f"translated: the loop STEP of DateTime.{name}", force_result=True)
    if rett != DT or monad != "result":
        raise P.Unsupported(f"DateTime.{name}: unexpected type of the loop step")
    out.append(text)
    out.append(f"(* TEMPLATE: `while <test>: dt = <step>` then `return dt`, on explicit fuel (out of fuel = the real loop does not terminate) *)\n"
               f"Fixpoint sglue_{name}_loop (fuel : nat) (v_day_of_week : Z) (v_dt : gdt) {{struct fuel}} : result gdt :=\n"
               f"  match fuel with\n  | O => Raise E_OutOfFuel\n  | S fuel' =>\n"
               f"    if sglue_{name}_cond v_dt v_day_of_week then\n"
               f"      match sglue_{name}_step v_dt with Raise e => Raise e | Ok d => sglue_{name}_loop fuel' v_day_of_week d end\n"
               f"    else Ok v_dt\n  end.\n"
               f"Definition sglue_{name} (v_self : gdt) (v_day_of_week : Z) : result gdt :=\n"
               f"  match sglue_{name}_init v_self v_day_of_week with Raise e => Raise e | Ok d => sglue_{name}_loop {LOOP_FUEL}%nat v_day_of_week d end.\n")
    c.kwmethods[(name, DT)] = (f"sglue_{name}", ["day_of_week"], {}, [Z], DT, "result")
    return out


def _week(c, tree, nm, state):
    fn = G._fn(tree, "DateTime." + nm)
    st = StateRw()
    fn = UnitRw().visit(st.visit(fn))
    if st.used != {state}:
        raise P.Unsupported(f"DateTime.{nm}: does not read pendulum._{state.upper()} only: {st.used}")
    fn.args.args.append(ast.arg(arg=state))
    ast.fix_missing_locations(fn)
    text, rett, monad = G._tr(c, fn, f"sglue{nm}", {state: Z}, DT,
                              f"translated from src/pendulum/datetime.py :: DateTime.{nm} (pendulum._{state.upper()} is the parameter {state})", force_result=True)
    if rett != DT or monad != "result":
        raise P.Unsupported(f"DateTime.{nm}: unexpected type")
    return text


def _method(tree, qual):
    fn = G._fn(tree, qual)
    fn = UnitRw().visit(fn)
    ast.fix_missing_locations(fn)
    return fn


def gen(shared):
    path = src("datetime.py")
    tree = ast.parse(open(path).read())
    _check(tree)
    c = _ctx(shared)
    out = [HEADER % "src/pendulum/datetime.py (start_of / end_of family on the translated timezone glue)"]
    out.append("From PV Require Import Spec.Cal Spec.Zone Gen.Constants Model.TzGlueObj Gen.TzGlue Model.StartEndGlueObj.\n"
               "(* See tools/vlib/gens/g81_start_end_glue.py: what is translated, the recognised rewrites and the hand primitives. *)\n")
    for unit in PLAIN:
        for side in ("start", "end"):
            nm = f"_{side}_of_{unit}"
            fn = _method(tree, "DateTime." + nm)
            if [a.arg for a in fn.args.args] != ["self"]:
                raise P.Unsupported(f"DateTime.{nm}: unexpected signature")
            text, rett, monad = G._tr(c, fn, f"sglue{nm}", {}, DT, f"translated from src/pendulum/datetime.py :: DateTime.{nm}", force_result=True)
            if rett != DT or monad != "result":
                raise P.Unsupported(f"DateTime.{nm}: unexpected type")
            out.append(text)
            c.kwmethods[(nm, DT)] = (f"sglue{nm}", [], {}, [], DT, "result")
    # ---------------- subtract, next / previous, the week
    fn = G._fn(tree, "DateTime.subtract")
    aparams = ["years", "months", "weeks", "days", "hours", "minutes", "seconds", "microseconds"]
    if [a.arg for a in fn.args.args] != ["self"] + aparams or [ast.unparse(d) for d in fn.args.defaults] != ["0"] * 8:
        raise P.Unsupported("DateTime.subtract: unexpected signature")
    text, rett, monad = G._tr(c, fn, "sglue_subtract", {p_: Z for p_ in aparams}, DT, "translated from src/pendulum/datetime.py :: DateTime.subtract",
                              force_result=True)
    if rett != DT or monad != "result":
        raise P.Unsupported("DateTime.subtract: unexpected type")
    out.append(text)
    c.kwmethods[("subtract", DT)] = ("sglue_subtract", aparams, {p_: "0" for p_ in aparams}, [Z] * 8, DT, "result")
    wd = _weekday_values()
    out += _walk(c, tree, "previous", wd)
    out += _walk(c, tree, "next", wd)
    out.append(_week(c, tree, "_start_of_week", "week_starts_at"))
    out.append(_week(c, tree, "_end_of_week", "week_ends_at"))
    return "\n".join(out) + "\n"


def steps(ctx):
    return [("StartEndGlue.v", lambda: gen(ctx))]
