"""C17 — Gen/ParseChain.v: the fallback chain behind pendulum.parse TRANSLATED from /repo on every run:
  src/pendulum/parsing/__init__.py   parse, _parse (the try / except ladder), _normalize, _parse_iso8601_interval
Proofs/ParseChainFacts.v proves the hand model coq/Model/ParseTotal.v (base_parse, normalize, interval_parse, ...) EQUAL to this translation
(Props/C17.v model_is_code_parsing_*), so an edit of these functions (a rung of the ladder, an except tuple, the strict gate, the `exact` test)
changes a generated definition and breaks a proof.

TRANSLATOR EXTENSION (class TryTr below, a subclass of py2gallina.FunTr; py2gallina.py itself is not edited).  The result monad already carries the
exception kind, so
  with contextlib.suppress(K1, ...): <body that always returns / raises>          ; <rest>
      ->  match <body> with Ok v => Ok v | Raise e => if <isinstance(e, K1) or ...> then <rest> else Raise e end
  try: <body that always returns / raises>  except (K1, ...): <handler>
      ->  match <body> with Ok v => Ok v | Raise e => if <isinstance(e, (K1, ...))> then <handler> else Raise e end
  try: <body without return, falling through>  except (K1, ...): <handler that always raises / returns> ; <rest>
      ->  match <body; Ok (variables it assigns)> with Ok (vars) => <rest> | Raise e => if ... then <handler> else Raise e end
  (no else / finally / `as` name; anything else fails closed).  isinstance(e, K) is exn_isa PC_SUBCLASS K e (Model/ParseChainObj.v), PC_SUBCLASS being
  the list of (subclass, class) pairs READ from the source (class ParserError(ValueError) of parsing/exceptions).
RECOGNISED SHAPES (rewritten before translation; anything else fails closed):
  **options -> a parameter `options` of the record type opts; options["k"], options.get("k"), options.get("k", <default>) -> options.k for the keys of
      DEFAULT_OPTIONS (+ "tz"): parse() completes the dictionary with DEFAULT_OPTIONS (checked: `_options = copy.copy(DEFAULT_OPTIONS)` /
      `_options.update(options)`), so every key is present and the default of .get is never used;   f(x, **options) -> f(x, options);
  isinstance(x, time / date / datetime) -> the predicates pc_is_time / pc_is_date / pc_is_datetime;  cast(T, e) -> e;
  parser.parse(text, dayfirst=, yearfirst=) -> the parameter du;  parse_iso8601(text) -> the parameter iso (both backends: Model/ParseTotal.v iso8601);
  cast(Optional[datetime], options["now"]) or datetime.now() -> options.now (the clock is outside the model, as in Model/ParseTotal.v).
HAND PRIMITIVES: coq/Model/ParseChainObj.v.
"""
import ast
import copy

from .. import py2gallina as P
from ..gen import HEADER, src

Z, B = P.Z, P.B
PV, OPTS, STR = "parsed", "opts", "pstr"
OPTION_KEYS = ["day_first", "year_first", "strict", "exact", "now", "tz"]
EXN_KINDS = {"ValueError", "OverflowError", "ParserError", "TypeError", "AttributeError"}


class TryTr(P.FunTr):
    """py2gallina.FunTr + contextlib.suppress / try-except (see the module docstring)."""

    def kinds_of(self, node, what):
        elts = node.elts if isinstance(node, ast.Tuple) else [node]
        out = []
        for e in elts:
            if not isinstance(e, ast.Name) or e.id not in EXN_KINDS:
                self.fail(node, f"{what}: not a known exception class")
            out.append(e.id)
        if not out:
            self.fail(node, f"{what}: no exception class")
        return out

    def isa(self, kinds):
        return "(" + " || ".join(f"exn_isa PC_SUBCLASS E_{k} exn_" for k in kinds) + ")"

    def terminates(self, stmts):
        if stmts and isinstance(stmts[-1], ast.Try):
            t = stmts[-1]
            return self.terminates(t.body) and all(self.terminates(h.body) for h in t.handlers)
        return super().terminates(stmts)

    def sub_block(self, stmts, k):
        env0 = dict(self.env)
        code = self.block(stmts, k)
        self.env = env0
        return code

    def block(self, stmts, k):
        if stmts and isinstance(stmts[0], ast.With):
            s, rest = stmts[0], stmts[1:]
            if self.monad != "result" or self.in_loop:
                self.fail(s, "with in a function that is not in the result monad / inside a loop")
            if len(s.items) != 1 or s.items[0].optional_vars is not None:
                self.fail(s, "with: several items / `as`")
            ce = s.items[0].context_expr
            if not (isinstance(ce, ast.Call) and ast.unparse(ce.func) == "contextlib.suppress" and ce.args and not ce.keywords):
                self.fail(s, "with: not contextlib.suppress(...)")
            kinds = []
            for a in ce.args:
                kinds += self.kinds_of(a, "suppress")
            if not self.terminates(s.body):
                self.fail(s, "suppress: the body may fall through")
            body = self.sub_block(s.body, None)
            cont = self.block(rest, k)
            return (f"match (\n  {body}) with\n  | Ok v_ => Ok v_\n  | Raise exn_ => if {self.isa(kinds)} then (\n  {cont})\n  else Raise exn_\n  end")
        if stmts and isinstance(stmts[0], ast.Try):
            s, rest = stmts[0], stmts[1:]
            if self.monad != "result" or self.in_loop:
                self.fail(s, "try in a function that is not in the result monad / inside a loop")
            if s.orelse or s.finalbody or not s.handlers:
                self.fail(s, "try: else / finally / no handler")
            hs = []
            for h in s.handlers:
                if h.type is None or h.name is not None:
                    self.fail(s, "except: bare / `as` name")
                if not self.terminates(h.body):
                    self.fail(s, "except: the handler may fall through")
                hs.append((self.kinds_of(h.type, "except"), h))

            def handlers():
                code = "Raise exn_"
                for kinds, h in reversed(hs):
                    code = f"if {self.isa(kinds)} then (\n  {self.sub_block(h.body, None)})\n  else {code}"
                return code
            if self.terminates(s.body):
                if rest:
                    self.fail(s, "statements after a try whose every path returns or raises")
                body = self.sub_block(s.body, None)
                return f"match (\n  {body}) with\n  | Ok v_ => Ok v_\n  | Raise exn_ => {handlers()}\n  end"
            if any(isinstance(n, ast.Return) for x in s.body for n in ast.walk(x)):
                self.fail(s, "try: a body that may both return and fall through")
            names = [n for n in self.assigned(s.body)]
            if not names:
                self.fail(s, "try: the body assigns nothing and falls through")
            env0 = dict(self.env)
            got = {}

            def k_body():
                for n_ in names:
                    got[n_] = self.env[n_]
                return "Ok (" + ", ".join(self.v(n_) for n_ in names) + ")"
            body = self.block(s.body, k_body)
            hcode = handlers()
            self.env = env0
            for n_ in names:
                self.env[n_] = got[n_]
            pat = "(" + ", ".join(self.v(n_) for n_ in names) + ")" if len(names) > 1 else self.v(names[0])
            cont = self.block(rest, k)
            return f"match (\n  {body}) with\n  | Ok {pat} =>\n  {cont}\n  | Raise exn_ => {hcode}\n  end"
        return super().block(stmts, k)


class ChainRw(ast.NodeTransformer):
    """the recognised shapes of the module docstring"""
    def __init__(self, qual):
        self.qual = qual

    def visit_FunctionDef(self, node):
        if node.args.kwarg is not None:
            if node.args.kwarg.arg != "options":
                raise P.Unsupported(f"{self.qual}: **{node.args.kwarg.arg}")
            node.args.args.append(ast.arg(arg="options"))
            node.args.kwarg = None
        node.returns = None
        for a in node.args.args:
            a.annotation = None
        self.generic_visit(node)
        return node

    def _key(self, node):
        if isinstance(node, ast.Constant) and node.value in OPTION_KEYS:
            return node.value
        raise P.Unsupported(f"{self.qual}: option key {ast.unparse(node)}")

    def visit_Subscript(self, node):
        self.generic_visit(node)
        if isinstance(node.value, ast.Name) and node.value.id in ("options", "_options"):
            return ast.copy_location(ast.Attribute(value=ast.Name(id="options", ctx=ast.Load()), attr=self._key(node.slice), ctx=ast.Load()), node)
        return node

    def visit_BoolOp(self, node):
        if isinstance(node.op, ast.Or) and len(node.values) == 2 and ast.unparse(node.values[1]) == "datetime.now()" \
                and ast.unparse(node.values[0]) == "cast(Optional[datetime], options['now'])":
            return ast.copy_location(ast.Attribute(value=ast.Name(id="options", ctx=ast.Load()), attr="now", ctx=ast.Load()), node)
        self.generic_visit(node)
        return node

    def visit_Call(self, node):
        self.generic_visit(node)
        f = ast.unparse(node.func)
        if f in ("options.get", "_options.get") and len(node.args) in (1, 2) and not node.keywords:
            return ast.copy_location(ast.Attribute(value=ast.Name(id="options", ctx=ast.Load()), attr=self._key(node.args[0]), ctx=ast.Load()), node)
        if f in ("cast", "t.cast") and len(node.args) == 2 and not node.keywords:
            return node.args[1]
        if f == "isinstance" and len(node.args) == 2 and not node.keywords and ast.unparse(node.args[1]) in ("time", "date", "datetime"):
            return ast.copy_location(ast.Call(func=ast.Name(id="_is_" + ast.unparse(node.args[1]), ctx=ast.Load()), args=[node.args[0]], keywords=[]), node)
        if f == "parser.parse":
            return ast.copy_location(ast.Call(func=ast.Name(id="_dateutil_parse", ctx=ast.Load()), args=node.args, keywords=node.keywords), node)
        kws = [k for k in node.keywords if k.arg is None]
        if kws:
            if len(kws) != 1 or ast.unparse(kws[0].value) not in ("options", "_options") or len(node.keywords) != 1:
                raise P.Unsupported(f"{self.qual}: call with ** that is not **options: {ast.unparse(node)}")
            node.args = node.args + [ast.Name(id="options", ctx=ast.Load())]
            node.keywords = []
        return node


def _fn(tree, qual):
    fn = ChainRw(qual).visit(copy.deepcopy(P.find_function(tree, qual)))
    fn.body = [s for s in fn.body if not (isinstance(s, ast.Expr) and isinstance(s.value, ast.Constant))]
    ast.fix_missing_locations(fn)
    return fn


def _tr(c, fn, coq, argtypes, what, want=PV, **kw):
    tr = TryTr(c, fn, coq, argtypes=argtypes, force_result=True, **kw)
    text, argt, rett, monad = tr.translate()
    if rett != want or monad != "result":
        raise P.Unsupported(f"{coq}: unexpected type {rett} / {monad}")
    shown = "\n".join(ast.unparse(s) for s in fn.body).replace("(*", "( *").replace("*)", "* )").replace("\n", "\n     ")
    return f"(* {what}\n   What is translated (after the recognised rewrites):\n     {shown} *)\n" + text


def _ctx():
    c = P.Ctx()
    c.int_boolop = c.obj_fragment = c.conservative_exit = True
    c.attrs.update({"strict": ("o_strict", B), "exact": ("o_exact", B), "day_first": ("o_day_first", B), "year_first": ("o_year_first", B),
                    "now": ("pc_now", PV)})
    c.attrs.update({f: ("pc_" + f, Z) for f in ("year", "month", "day", "hour", "minute", "second", "microsecond")})
    c.kwfuncs["parse_iso8601"] = ("pc_iso8601 iso", ["text"], {}, [STR], PV, "result")
    c.kwfuncs["_dateutil_parse"] = ("pc_dateutil du", ["text", "dayfirst", "yearfirst"], {}, [STR, B, B], PV, "result")
    c.kwfuncs["_is_time"] = ("pc_is_time", ["x"], {}, [PV], B, None)
    c.kwfuncs["_is_date"] = ("pc_is_date", ["x"], {}, [PV], B, None)
    c.kwfuncs["_is_datetime"] = ("pc_is_datetime", ["x"], {}, [PV], B, None)
    c.kwfuncs["datetime"] = ("pc_datetime", ["year", "month", "day", "hour", "minute", "second", "microsecond"],
                             {p_: "0" for p_ in ("hour", "minute", "second", "microsecond")}, [Z] * 7, PV, "result")
    c.kwfuncs["date"] = ("pc_date", ["year", "month", "day"], {}, [Z] * 3, PV, "result")
    c.kwfuncs["time"] = ("pc_time", ["hour", "minute", "second", "microsecond"], {p_: "0" for p_ in ("hour", "minute", "second", "microsecond")},
                         [Z] * 4, PV, "result")
    c.methods["utcoffset"] = ("pc_utcoffset", ("opt", Z), "result")
    return c


def _subclasses():
    tree = ast.parse(open(src("parsing/exceptions/__init__.py")).read())
    pairs = []
    for n in tree.body:
        if isinstance(n, ast.ClassDef):
            bases = [ast.unparse(b) for b in n.bases]
            if n.name not in EXN_KINDS or len(bases) != 1 or bases[0] not in EXN_KINDS:
                raise P.Unsupported(f"parsing/exceptions: class {n.name}({', '.join(bases)})")
            pairs.append((n.name, bases[0]))
    if [p[0] for p in pairs] != ["ParserError"]:
        raise P.Unsupported(f"parsing/exceptions: classes {pairs}")
    return pairs


def _check_parse(tree):
    fn = P.find_function(tree, "parse")
    body = [ast.unparse(s) for s in fn.body if not (isinstance(s, ast.Expr) and isinstance(s.value, ast.Constant))]
    want = ["_options: dict[str, Any] = copy.copy(DEFAULT_OPTIONS)", "_options.update(options)",
            "return _normalize(_parse(text, **_options), **_options)"]
    if body != want:
        raise P.Unsupported(f"parsing.parse is not the recognised completion of the options: {body}")
    defaults = None
    for n in tree.body:
        if isinstance(n, ast.Assign) and ast.unparse(n.targets[0]) == "DEFAULT_OPTIONS":
            defaults = ast.literal_eval(n.value)
    if defaults is None or sorted(defaults) != sorted(k for k in OPTION_KEYS if k != "tz"):
        raise P.Unsupported(f"parsing.DEFAULT_OPTIONS changed: {defaults}")
    imports = [ast.unparse(n) for n in ast.walk(tree) if isinstance(n, (ast.ImportFrom, ast.Import))]
    for need in ("from dateutil import parser", "from pendulum.parsing.exceptions import ParserError", "import contextlib",
                 "from datetime import date", "from datetime import datetime", "from datetime import time"):
        if need not in imports:
            raise P.Unsupported(f"parsing/__init__.py: missing `{need}`")


class NoneSimp(ast.NodeTransformer):
    """PARTIAL EVALUATION on the None-ness of the names in `none` (known to be None) and `some` (known not to be None): `x is None`, `x is not None`
    become constants, `and` / `or` / `not` / `if` over constants are simplified, a read of a name known to be None becomes the constant None."""
    def __init__(self, none, some):
        self.none, self.some = set(none), set(some)

    def visit_Compare(self, node):
        if len(node.ops) == 1 and isinstance(node.ops[0], (ast.Is, ast.IsNot)) and isinstance(node.left, ast.Name) \
                and isinstance(node.comparators[0], ast.Constant) and node.comparators[0].value is None and node.left.id in self.none | self.some:
            v = (node.left.id in self.none) == isinstance(node.ops[0], ast.Is)
            return ast.copy_location(ast.Constant(value=v), node)
        self.generic_visit(node)
        return node

    def visit_BoolOp(self, node):
        self.generic_visit(node)
        absorbing = isinstance(node.op, ast.Or)
        vals = []
        for v in node.values:
            if isinstance(v, ast.Constant) and isinstance(v.value, bool):
                if v.value == absorbing:
                    if not vals:       # everything before it was dropped as neutral: the whole expression is this constant
                        return ast.copy_location(ast.Constant(value=absorbing), node)
                    vals.append(v)
                    break
                continue
            vals.append(v)
        if not vals:
            return ast.copy_location(ast.Constant(value=not absorbing), node)
        if len(vals) == 1:
            return vals[0]
        node.values = vals
        return node

    def visit_UnaryOp(self, node):
        self.generic_visit(node)
        if isinstance(node.op, ast.Not) and isinstance(node.operand, ast.Constant) and isinstance(node.operand.value, bool):
            return ast.copy_location(ast.Constant(value=not node.operand.value), node)
        return node

    def visit_If(self, node):
        node.test = self.visit(node.test)
        if isinstance(node.test, ast.Constant) and isinstance(node.test.value, bool):
            out = []
            for st in (node.body if node.test.value else node.orelse):
                r = self.visit(st)
                out += r if isinstance(r, list) else [r]
            return out
        body = []
        for st in node.body:
            r = self.visit(st)
            body += r if isinstance(r, list) else [r]
        orelse = []
        for st in node.orelse:
            r = self.visit(st)
            orelse += r if isinstance(r, list) else [r]
        node.body, node.orelse = body or [ast.Pass()], orelse
        return node

    def visit_Name(self, node):
        if isinstance(node.ctx, ast.Load) and node.id in self.none:
            return ast.copy_location(ast.Constant(value=None), node)
        return node


class SubstName(ast.NodeTransformer):
    def __init__(self, old, new):
        self.old, self.new = old, new

    def visit_Name(self, node):
        return ast.copy_location(ast.Name(id=self.new, ctx=node.ctx), node) if node.id == self.old else node


class SlashRw(ast.NodeTransformer):
    """'/' not in text -> not _contains_slash(text);  text.split('/') -> _split_slash(text);  x[:1] == 'P' -> _head_is_P(x)"""
    def visit_Compare(self, node):
        self.generic_visit(node)
        if len(node.ops) == 1 and isinstance(node.ops[0], (ast.In, ast.NotIn)) and isinstance(node.left, ast.Constant) and node.left.value == "/" \
                and isinstance(node.comparators[0], ast.Name):
            call = ast.Call(func=ast.Name(id="_contains_slash", ctx=ast.Load()), args=[node.comparators[0]], keywords=[])
            new = call if isinstance(node.ops[0], ast.In) else ast.UnaryOp(op=ast.Not(), operand=call)
            return ast.copy_location(new, node)
        if len(node.ops) == 1 and isinstance(node.ops[0], ast.Eq) and ast.unparse(node.comparators[0]) == "'P'" and isinstance(node.left, ast.Subscript) \
                and isinstance(node.left.value, ast.Name) and ast.unparse(node.left.slice) == ":1":
            return ast.copy_location(ast.Call(func=ast.Name(id="_head_is_P", ctx=ast.Load()), args=[node.left.value], keywords=[]), node)
        return node

    def visit_Call(self, node):
        self.generic_visit(node)
        if isinstance(node.func, ast.Attribute) and node.func.attr == "split" and isinstance(node.func.value, ast.Name) \
                and [ast.unparse(a) for a in node.args] == ["'/'"] and not node.keywords:
            return ast.copy_location(ast.Call(func=ast.Name(id="_split_slash", ctx=ast.Load()), args=[node.func.value], keywords=[]), node)
        return node


IV_VARS = ["start", "end", "duration"]


def _interval(c, tree):
    """_parse_iso8601_interval: `start = end = duration = None`, then an if / elif / else whose branches assign two of the three, then code that tests
    their None-ness.  PARTIAL EVALUATION (recognised shape): the statements after the if-chain are copied into each of its branches, the
    `for endpoint in (start, end)` is unrolled, and the tests `x is None` / `x is not None` are decided from what the branch assigned (a name the branch
    assigns holds the result of parse_iso8601 / datetime(...), never None; the others are still None)."""
    fn = SlashRw().visit(_fn(tree, "_parse_iso8601_interval"))
    if [a.arg for a in fn.args.args] != ["text"]:
        raise P.Unsupported("_parse_iso8601_interval: unexpected signature")
    b = fn.body
    if len(b) != 7 or ast.unparse(b[2]) != "start = end = duration = None" or not isinstance(b[3], ast.If) or not isinstance(b[4], ast.For) \
            or not isinstance(b[5], ast.If) or not isinstance(b[6], ast.Return):
        raise P.Unsupported("_parse_iso8601_interval: not the recognised sequence of statements")
    loop = b[4]
    if loop.orelse or not isinstance(loop.target, ast.Name) or ast.unparse(loop.iter) != "(start, end)" \
            or any(isinstance(n, (ast.Break, ast.Continue, ast.Return)) for x in loop.body for n in ast.walk(x)) \
            or any(isinstance(n, ast.Name) and isinstance(n.ctx, ast.Store) for x in loop.body for n in ast.walk(x)):
        raise P.Unsupported("_parse_iso8601_interval: the endpoint loop is not `for endpoint in (start, end)` with a test-and-raise body")
    unrolled = []
    for nm in ("start", "end"):
        unrolled += [SubstName(loop.target.id, nm).visit(copy.deepcopy(x)) for x in loop.body]
    tail = unrolled + b[5:]

    def leaf(stmts):
        assigned = set()
        for st in stmts:
            if not (isinstance(st, ast.Assign) and len(st.targets) == 1 and isinstance(st.targets[0], ast.Name) and st.targets[0].id in IV_VARS
                    and isinstance(st.value, ast.Call) and ast.unparse(st.value.func) == "parse_iso8601"):
                raise P.Unsupported(f"_parse_iso8601_interval: a branch does more than assign parse_iso8601 results: {ast.unparse(st)}")
            assigned.add(st.targets[0].id)
        simp = NoneSimp([v for v in IV_VARS if v not in assigned], assigned)
        out = list(stmts)
        for st in copy.deepcopy(tail):
            r = simp.visit(st)
            out += r if isinstance(r, list) else [r]
        return [x for x in out if not isinstance(x, ast.Pass)]

    def chain(node):
        node.body = leaf(node.body)
        if len(node.orelse) == 1 and isinstance(node.orelse[0], ast.If):
            chain(node.orelse[0])
        elif node.orelse:
            node.orelse = leaf(node.orelse)
        else:
            raise P.Unsupported("_parse_iso8601_interval: the if-chain has no else")
    chain(b[3])
    fn.body = b[:2] + [b[3]]
    ast.fix_missing_locations(fn)
    c.kwfuncs["_contains_slash"] = ("pc_contains_slash", ["text"], {}, [STR], B, None)
    c.kwfuncs["_split_slash"] = ("pc_split_slash", ["text"], {}, [STR], (STR, STR), "result")
    c.kwfuncs["_head_is_P"] = ("head_is_P", ["text"], {}, [STR], B, None)
    c.kwfuncs["_Interval"] = ("pc_Interval", ["start", "end", "duration"], {}, [("opt", PV)] * 3, PV, None)
    text = _tr(c, fn, "pchain_parse_iso8601_interval", {"text": STR},
               "translated from src/pendulum/parsing/__init__.py :: _parse_iso8601_interval (after the partial evaluation on None-ness)")
    c.kwfuncs["_parse_iso8601_interval"] = ("pchain_parse_iso8601_interval", ["text"], {}, [STR], PV, "result")
    return [text]


COMMON_GROUPS = ["date", "classic", "year", "monthday", "monthsep", "month", "daysep", "day", "time", "timesep", "hour", "minute", "second",
                 "subsecondsection", "subsecond"]


class GroupRw(ast.NodeTransformer):
    """COMMON.match(text) -> _common_match(text);  `if not m` -> `if m is None` (a Match object is always truthy);
    int(m.group(g)) -> _group_int(m, G_COMMON_g);  m.group(g) in a truth test -> _group_truth(m, G_COMMON_g);
    `x = int(m.group(g)) if m.group(g) else 0` -> the if / else statement form;
    `subsecond = m.group(g)[:6]` + `microsecond = int(f"{subsecond:0<6}")` -> microsecond = _group_us6(m, G_COMMON_g)"""
    def _g(self, call):
        if isinstance(call, ast.Call) and isinstance(call.func, ast.Attribute) and call.func.attr == "group" and isinstance(call.func.value, ast.Name) \
                and call.func.value.id == "m" and len(call.args) == 1 and not call.keywords and isinstance(call.args[0], ast.Constant) \
                and call.args[0].value in COMMON_GROUPS:
            return ast.Name(id="G_COMMON_" + call.args[0].value, ctx=ast.Load())
        return None

    def _truth(self, e):
        g = self._g(e)
        if g is not None:
            return ast.copy_location(ast.Call(func=ast.Name(id="_group_truth", ctx=ast.Load()), args=[ast.Name(id="m", ctx=ast.Load()), g], keywords=[]), e)
        if isinstance(e, ast.UnaryOp) and isinstance(e.op, ast.Not):
            if isinstance(e.operand, ast.Name) and e.operand.id == "m":
                return ast.copy_location(ast.Compare(left=e.operand, ops=[ast.Is()], comparators=[ast.Constant(value=None)]), e)
            e.operand = self._truth(e.operand)
        return e

    def visit_If(self, node):
        node.test = self._truth(node.test)
        self.generic_visit(node)
        return node

    def visit_Assign(self, node):
        v = node.value
        if isinstance(v, ast.IfExp) and self._g(v.test) is not None and len(node.targets) == 1 and isinstance(node.targets[0], ast.Name):
            t = node.targets[0].id
            new = ast.parse(f"if {ast.unparse(v.test)}:\n    {t} = {ast.unparse(v.body)}\nelse:\n    {t} = {ast.unparse(v.orelse)}").body[0]
            return self.visit(ast.copy_location(new, node))
        self.generic_visit(node)
        return node

    def visit_Call(self, node):
        self.generic_visit(node)
        f = ast.unparse(node.func)
        if f == "COMMON.match" and len(node.args) == 1 and not node.keywords:
            return ast.copy_location(ast.Call(func=ast.Name(id="_common_match", ctx=ast.Load()), args=node.args, keywords=[]), node)
        if f == "int" and len(node.args) == 1 and not node.keywords and self._g(node.args[0]) is not None:
            return ast.copy_location(ast.Call(func=ast.Name(id="_group_int", ctx=ast.Load()),
                                              args=[ast.Name(id="m", ctx=ast.Load()), self._g(node.args[0])], keywords=[]), node)
        return node


def _common(c, tree):
    fn = copy.deepcopy(P.find_function(tree, "_parse_common"))
    # the subsecond pair
    body = []
    i = 0
    stmts = None

    def fix(stmts):
        out, i = [], 0
        while i < len(stmts):
            st = stmts[i]
            if isinstance(st, ast.If):
                st.body, st.orelse = fix(st.body), fix(st.orelse)
            if i + 1 < len(stmts) and ast.unparse(st).startswith("subsecond = m.group(") and ast.unparse(st).endswith(")[:6]") \
                    and ast.unparse(stmts[i + 1]) == "microsecond = int(f'{subsecond:0<6}')":
                g = st.value.value.args[0]
                if not (isinstance(g, ast.Constant) and g.value in COMMON_GROUPS):
                    raise P.Unsupported("_parse_common: subsecond group")
                out.append(ast.copy_location(ast.parse(f"microsecond = _group_us6(m, G_COMMON_{g.value})").body[0], st))
                i += 2
                continue
            out.append(st)
            i += 1
        return out
    fn.body = fix(fn.body)
    fn = GroupRw().visit(ChainRw("_parse_common").visit(fn))
    fn.body = [s_ for s_ in fn.body if not (isinstance(s_, ast.Expr) and isinstance(s_.value, ast.Constant))]
    ast.fix_missing_locations(fn)
    if "group(" in ast.unparse(fn) or "subsecond" in [n.id for n in ast.walk(fn) if isinstance(n, ast.Name)]:
        raise P.Unsupported("_parse_common: a use of m.group(...) outside the recognised shapes")
    if [a.arg for a in fn.args.args] != ["text", "options"]:
        raise P.Unsupported("_parse_common: unexpected signature")
    for g in COMMON_GROUPS:
        c.consts["G_COMMON_" + g] = ("G_COMMON_" + g, "nat")
    c.kwfuncs["_common_match"] = ("pc_common_match", ["text"], {}, [STR], ("opt", "caps"), None)
    c.kwfuncs["_group_truth"] = ("pc_group_truth", ["m", "g"], {}, ["caps", "nat"], B, None)
    c.kwfuncs["_group_int"] = ("pc_group_int", ["m", "g"], {}, ["caps", "nat"], Z, "result")
    c.kwfuncs["_group_us6"] = ("pc_group_us6", ["m", "g"], {}, ["caps", "nat"], Z, "result")
    text = _tr(c, fn, "pchain_parse_common", {"text": STR, "options": OPTS}, "translated from src/pendulum/parsing/__init__.py :: _parse_common "
               "(the code after COMMON.match; the pattern itself is the generated AST COMMON_RE of Gen/IsoRegex.v)")
    c.kwfuncs["_parse_common"] = ("pchain_parse_common", ["text", "options"], {}, [STR, OPTS], PV, "result")
    return [text]


DUR_ATTRS = ["years", "months", "weeks", "remaining_days", "hours", "minutes", "remaining_seconds", "microseconds"]
TV, DTO, NOBJ, DURV = "tval", "dtobj", "nobj", "ival"


class ParserRw(ast.NodeTransformer):
    """parser.py :: _parse.  text == 'now' -> _is_now(text);  pendulum.now / datetime / date / time / duration / instance / interval -> named primitives;
    isinstance(parsed, datetime.datetime | datetime.date | datetime.time | _Interval | Duration) -> predicates;
    `RustDuration is not None and isinstance(parsed, RustDuration)` -> _is_rsdur(parsed);  `parsed.tzinfo or <tz>` -> _tz_or(parsed.tzinfo, <tz>);
    `parsed.duration is not None` / `parsed.start is not None` -> _has_duration(parsed) / _has_start(parsed);
    duration.<field> -> _dur_<field>(duration) (AttributeError on a non-duration);  `return parsed` (the Duration branch) -> return _as_duration(parsed);
    raise NotImplementedError -> raise NotImplemented()"""
    PEND = {"pendulum.now": "_pendulum_now", "pendulum.datetime": "_pendulum_datetime", "pendulum.date": "_pendulum_date", "pendulum.time": "_pendulum_time",
            "pendulum.duration": "_pendulum_duration", "pendulum.instance": "_instance", "pendulum.interval": "_interval"}
    ISA = {"datetime.datetime": "_is_datetime", "datetime.date": "_is_date", "datetime.time": "_is_time", "_Interval": "_is_interval", "Duration": "_is_pydur"}

    def visit_Compare(self, node):
        self.generic_visit(node)
        if len(node.ops) == 1 and isinstance(node.ops[0], ast.Eq) and ast.unparse(node.left) == "text" and ast.unparse(node.comparators[0]) == "'now'":
            return ast.copy_location(ast.Call(func=ast.Name(id="_is_now", ctx=ast.Load()), args=[node.left], keywords=[]), node)
        if len(node.ops) == 1 and isinstance(node.ops[0], ast.IsNot) and ast.unparse(node.comparators[0]) == "None" \
                and ast.unparse(node.left) in ("parsed.duration", "parsed.start"):
            return ast.copy_location(ast.Call(func=ast.Name(id="_has_" + node.left.attr, ctx=ast.Load()), args=[node.left.value], keywords=[]), node)
        return node

    def visit_BoolOp(self, node):
        if ast.unparse(node) == "RustDuration is not None and isinstance(parsed, RustDuration)":
            return ast.copy_location(ast.Call(func=ast.Name(id="_is_rsdur", ctx=ast.Load()), args=[ast.Name(id="parsed", ctx=ast.Load())], keywords=[]), node)
        self.generic_visit(node)
        if isinstance(node.op, ast.Or) and len(node.values) == 2 and ast.unparse(node.values[0]) == "parsed.tzinfo":
            return ast.copy_location(ast.Call(func=ast.Name(id="_tz_or", ctx=ast.Load()), args=node.values, keywords=[]), node)
        return node

    def visit_Attribute(self, node):
        self.generic_visit(node)
        if isinstance(node.value, ast.Name) and node.value.id == "duration" and isinstance(node.ctx, ast.Load):
            if node.attr not in DUR_ATTRS:
                raise P.Unsupported(f"parser._parse: duration.{node.attr}")
            return ast.copy_location(ast.Call(func=ast.Name(id="_dur_" + node.attr, ctx=ast.Load()), args=[node.value], keywords=[]), node)
        return node

    def visit_Call(self, node):
        self.generic_visit(node)
        f = ast.unparse(node.func)
        if f in self.PEND:
            return ast.copy_location(ast.Call(func=ast.Name(id=self.PEND[f], ctx=ast.Load()), args=node.args, keywords=node.keywords), node)
        if f == "isinstance" and len(node.args) == 2 and not node.keywords:
            k = ast.unparse(node.args[1])
            if k not in self.ISA:
                raise P.Unsupported(f"parser._parse: isinstance(_, {k})")
            return ast.copy_location(ast.Call(func=ast.Name(id=self.ISA[k], ctx=ast.Load()), args=[node.args[0]], keywords=[]), node)
        return node

    def visit_If(self, node):
        if ast.unparse(node.test) == "isinstance(parsed, Duration)" and [ast.unparse(x) for x in node.body] == ["return parsed"] and not node.orelse:
            node.body = [ast.copy_location(ast.parse("return _as_duration(parsed)").body[0], node.body[0])]
        self.generic_visit(node)
        return node

    def visit_Raise(self, node):
        if ast.unparse(node) == "raise NotImplementedError":
            return ast.copy_location(ast.parse("raise NotImplemented()").body[0], node)
        return node


def _parser(c, out):
    tree = ast.parse(open(src("parser.py")).read())
    body = [ast.unparse(s_) for s_ in P.find_function(tree, "parse").body if not (isinstance(s_, ast.Expr) and isinstance(s_.value, ast.Constant))]
    if body != ["options['now'] = options.get('now')", "return _parse(text, **options)"]:
        raise P.Unsupported(f"parser.parse is not the recognised wrapper: {body}")
    imports = [ast.unparse(n) for n in ast.walk(tree) if isinstance(n, (ast.ImportFrom, ast.Import))]
    for need in ("from pendulum.parsing import parse as base_parse", "from pendulum.parsing import _Interval", "from pendulum.duration import Duration",
                 "from pendulum.parsing.exceptions import ParserError", "from pendulum.tz.timezone import UTC",
                 "from pendulum._pendulum import Duration as RustDuration", "import datetime", "import pendulum"):
        if need not in imports:
            raise P.Unsupported(f"parser.py: missing `{need}`")
    fn = ParserRw().visit(copy.deepcopy(P.find_function(tree, "_parse")))
    fn = ChainRw("parser._parse").visit(fn)
    fn.body = [s_ for s_ in fn.body if not (isinstance(s_, ast.Expr) and isinstance(s_.value, ast.Constant))]
    ast.fix_missing_locations(fn)
    if [a.arg for a in fn.args.args] != ["text", "options"]:
        raise P.Unsupported("parser._parse: unexpected signature")
    c.attrs["tz"] = ("deftz", Z)         # options.get("tz", UTC): the tz option, else UTC
    c.attrs["tzinfo"] = ("pc_tzinfo", ("opt", Z))
    c.attrs.update({"start": ("pc_iv_start", NOBJ), "end": ("pc_iv_end", NOBJ), "duration": ("pc_iv_duration", DURV)})
    for i, (a_, r_) in enumerate(zip(["years", "months", "weeks", "days", "hours", "minutes", "seconds"],
                                     ["r_years", "r_months", "r_weeks", "r_days", "r_hours", "r_minutes", "r_seconds"])):
        c.attrs[a_] = (f"(fun x_ => DurParse.{r_} (pc_rs x_))", Z)
    c.attrs["microseconds"] = ("(fun x_ => DurParse.r_us (pc_rs x_))", Z)
    c.kwfuncs["_is_now"] = ("is_now", ["text"], {}, [STR], B, None)
    c.kwfuncs["_pendulum_now"] = ("(fun _ : unit => V_now) tt", [], {}, [], TV, None)
    c.kwfuncs["base_parse"] = ("pchain_parse", ["text", "options"], {}, [STR, OPTS], PV, "result")
    c.kwfuncs["_is_interval"] = ("pc_is_interval", ["x"], {}, [PV], B, None)
    c.kwfuncs["_is_pydur"] = ("pc_is_pydur", ["x"], {}, [PV], B, None)
    c.kwfuncs["_is_rsdur"] = ("pc_is_rsdur", ["x"], {}, [PV], B, None)
    c.kwfuncs["_tz_or"] = ("pc_tz_or", ["a", "b"], {}, [("opt", Z), Z], Z, None)
    c.kwfuncs["_pendulum_datetime"] = ("pc_pendulum_datetime", ["year", "month", "day", "hour", "minute", "second", "microsecond", "tz"], {}, [Z] * 8, TV, None)
    c.kwfuncs["_pendulum_date"] = ("pc_pendulum_date", ["year", "month", "day"], {}, [Z] * 3, TV, None)
    c.kwfuncs["_pendulum_time"] = ("pc_pendulum_time", ["hour", "minute", "second", "microsecond"], {}, [Z] * 4, TV, None)
    c.kwfuncs["_as_duration"] = ("pc_as_duration", ["x"], {}, [PV], TV, None)
    dk = ["years", "months", "weeks", "days", "hours", "minutes", "seconds", "microseconds"]
    c.kwfuncs["_pendulum_duration"] = ("pc_pendulum_duration", dk, {}, [Z] * 8, TV, "result")
    c.kwfuncs["_has_duration"] = ("pc_has_duration", ["x"], {}, [PV], B, None)
    c.kwfuncs["_has_start"] = ("pc_has_start", ["x"], {}, [PV], B, None)
    for i, a_ in enumerate(DUR_ATTRS):
        c.kwfuncs["_dur_" + a_] = (f"pc_dur_field {i}%nat", ["d"], {}, [DURV], Z, "result")
    c.kwfuncs["_instance"] = ("pc_instance", ["dt", "tz"], {}, [NOBJ, Z], DTO, "result")
    c.kwfuncs["_interval"] = ("pc_interval rs", ["start", "end"], {}, [DTO, DTO], TV, "result")
    c.kwmethods[("add", DTO)] = ("pc_dt_add", dk, {p_: "0" for p_ in dk}, [Z] * 8, DTO, "result")
    c.kwmethods[("subtract", DTO)] = ("pc_dt_subtract", dk, {p_: "0" for p_ in dk}, [Z] * 8, DTO, "result")
    out.append(_tr(c, fn, "pchain_parser_parse", {"text": STR, "options": OPTS}, "translated from src/pendulum/parser.py :: _parse", want=TV))


def gen(shared):
    tree = ast.parse(open(src("parsing/__init__.py")).read())
    _check_parse(tree)
    c = _ctx()
    out = [HEADER % "src/pendulum/parsing/__init__.py, src/pendulum/parser.py (the fallback chain behind pendulum.parse)"]
    out.append("From PV Require Import Spec.Cal Model.C07Regex Gen.IsoRegex Model.ParseTotal Model.ParseChainObj.\nFrom PV Require Model.IsoParse Model.DurParse.\n"
               "(* See tools/vlib/gens/g84_parse_chain.py: what is translated, the try / except treatment, the recognised rewrites, the primitives. *)\n")
    pairs = _subclasses()
    out.append("(* the class hierarchy of the exceptions, read from src/pendulum/parsing/exceptions/__init__.py: (subclass, class) *)\n"
               "Definition PC_SUBCLASS : list (exn * exn) := [" + "; ".join(f"(E_{a}, E_{b})" for a, b in pairs) + "].\n")
    out.append("Section ParseChain.\n"
               "  (* parse_iso8601 of the selected backend and dateutil.parser.parse: parameters, as in Model/ParseTotal.v *)\n"
               "  Variable rs : bool.        (* which backend: the interval primitives depend on it (FixedTimezone cache, precise_diff) *)\n"
               "  Variable iso : list Z -> result ival.\n  Variable du : list Z -> bool -> bool -> result IsoParse.pval.\n")
    # ---- _parse_iso8601_interval, _parse_common
    out += _interval(c, tree)
    out += _common(c, tree)
    # ---- _parse: the ladder
    fn = _fn(tree, "_parse")
    if [a.arg for a in fn.args.args] != ["text", "options"]:
        raise P.Unsupported("_parse: unexpected signature")
    out.append(_tr(c, fn, "pchain_parse_ladder", {"text": STR, "options": OPTS}, "translated from src/pendulum/parsing/__init__.py :: _parse"))
    c.kwfuncs["_parse"] = ("pchain_parse_ladder", ["text", "options"], {}, [STR, OPTS], PV, "result")
    # ---- _normalize
    fn = _fn(tree, "_normalize")
    if [a.arg for a in fn.args.args] != ["parsed", "options"]:
        raise P.Unsupported("_normalize: unexpected signature")
    out.append(_tr(c, fn, "pchain_normalize", {"parsed": PV, "options": OPTS}, "translated from src/pendulum/parsing/__init__.py :: _normalize"))
    c.kwfuncs["_normalize"] = ("pchain_normalize", ["parsed", "options"], {}, [PV, OPTS], PV, "result")
    # ---- parse: the options are completed with DEFAULT_OPTIONS (_check_parse), then _normalize(_parse(text, **_options), **_options)
    fn = _fn(tree, "parse")
    fn.body = fn.body[2:]
    out.append(_tr(c, fn, "pchain_parse", {"text": STR, "options": OPTS}, "translated from src/pendulum/parsing/__init__.py :: parse (its last statement; "
                   "the first two complete the options with DEFAULT_OPTIONS: the record opts holds every key)"))
    _parser(c, out)
    return "\n".join(out) + "\nEnd ParseChain.\n"


def steps(ctx):
    return [("ParseChain.v", lambda: gen(ctx))]
