"""C18: Gen/Locales.v — every shipped locale's data (parsed with `ast`, never imported) and the unit-selection chain of
DifferenceFormatter.format, translated to Gallina.  Fail closed (P.Unsupported) on anything not understood."""
from __future__ import annotations

import ast
import os
import string as _string

from .. import py2gallina as P
from ..gen import HEADER, src, zlit


def _ascii(s, what):
    if not isinstance(s, str) or any(ord(c) > 126 or ord(c) < 32 or c == '"' for c in s):
        raise P.Unsupported(f"{what}: non-ASCII or non-str key/class {s!r}")
    return '"' + s + '"'


def _cps(s):
    return "[" + ";".join(str(ord(c)) for c in s) + "]"


# ----------------------------------------------------------------------------- plural / ordinal lambdas
_CMP = {ast.Eq: "CEq", ast.NotEq: "CNe", ast.Lt: "CLt", ast.LtE: "CLe", ast.Gt: "CGt", ast.GtE: "CGe"}


class LambdaTr:
    def __init__(self, where, var):
        self.where, self.var = where, var

    def fail(self, node, why=""):
        raise P.Unsupported(f"{self.where}: {why or type(node).__name__}: {ast.unparse(node)[:80]}")

    def poslit(self, e):
        if isinstance(e, ast.Constant) and type(e.value) is int and e.value > 0:
            return e.value
        self.fail(e, "modulus/divisor must be a positive integer literal")

    def iexp(self, e):
        if isinstance(e, ast.Constant):
            if type(e.value) is int:
                return f"(INum {zlit(e.value)})"
            self.fail(e, "non-integer constant")
        if isinstance(e, ast.Name):
            if e.id == self.var:
                return "IVar"
            self.fail(e, "free name")
        if isinstance(e, ast.UnaryOp) and isinstance(e.op, ast.USub):
            return f"(ISub (INum 0) {self.iexp(e.operand)})"
        if isinstance(e, ast.BinOp):
            if isinstance(e.op, ast.Mod):
                return f"(IMod {self.iexp(e.left)} {self.poslit(e.right)})"
            if isinstance(e.op, ast.FloorDiv):
                return f"(IDiv {self.iexp(e.left)} {self.poslit(e.right)})"
            for k, c in ((ast.Add, "IAdd"), (ast.Sub, "ISub"), (ast.Mult, "IMul")):
                if isinstance(e.op, k):
                    return f"({c} {self.iexp(e.left)} {self.iexp(e.right)})"
            self.fail(e, "operator")
        if isinstance(e, ast.Call) and isinstance(e.func, ast.Name) and e.func.id == "int" and len(e.args) == 1 and not e.keywords:
            return f"(IInt {self.iexp(e.args[0])})"
        self.fail(e)

    def bexp(self, e):
        if isinstance(e, ast.Constant) and isinstance(e.value, bool):
            return f"(BConst {'true' if e.value else 'false'})"
        if isinstance(e, ast.BoolOp):
            c = "BAnd" if isinstance(e.op, ast.And) else "BOr"
            parts = [self.bexp(x) for x in e.values]   # operands are booleans: and/or are && / ||
            out = parts[-1]
            for p in reversed(parts[:-1]):
                out = f"({c} {p} {out})"
            return out
        if isinstance(e, ast.UnaryOp) and isinstance(e.op, ast.Not):
            return f"(BNot {self.bexp(e.operand)})"
        if isinstance(e, ast.Compare):
            parts, left = [], e.left
            for op, right in zip(e.ops, e.comparators):
                if isinstance(op, (ast.In, ast.NotIn)):
                    inner = self.member(left, right)
                    parts.append(inner if isinstance(op, ast.In) else f"(BNot {inner})")
                elif type(op) in _CMP:
                    parts.append(f"(BCmp {_CMP[type(op)]} {self.iexp(left)} {self.iexp(right)})")
                else:
                    self.fail(e, "comparison operator")
                left = right
            out = parts[-1]
            for p in reversed(parts[:-1]):
                out = f"(BAnd {p} {out})"
            return out
        self.fail(e, "not a boolean expression")

    def member(self, left, right):
        if isinstance(right, ast.Call) and isinstance(right.func, ast.Name) and right.func.id == "range" and not right.keywords \
                and 1 <= len(right.args) <= 2 and all(isinstance(a, ast.Constant) and type(a.value) is int for a in right.args):
            lo, hi = (0, right.args[0].value) if len(right.args) == 1 else (right.args[0].value, right.args[1].value)
            return f"(BRange {self.iexp(left)} {zlit(lo)} {zlit(hi)})"
        if isinstance(right, (ast.Tuple, ast.List, ast.Set)) and right.elts:
            parts = [f"(BCmp CEq {self.iexp(left)} {self.iexp(x)})" for x in right.elts]
            out = parts[-1]
            for p in reversed(parts[:-1]):
                out = f"(BOr {p} {out})"
            return out
        self.fail(right, "membership test")

    def sexp(self, e):
        if isinstance(e, ast.Constant) and isinstance(e.value, str):
            return f"(SLeaf {_ascii(e.value, self.where)})"
        if isinstance(e, ast.IfExp):
            return f"(SIf {self.bexp(e.test)} {self.sexp(e.body)} {self.sexp(e.orelse)})"
        self.fail(e, "not a conditional expression over constant strings")


def tr_lambda(node, where):
    if not isinstance(node, ast.Lambda):
        raise P.Unsupported(f"{where}: expected a lambda")
    a = node.args
    if len(a.args) != 1 or a.vararg or a.kwarg or a.kwonlyargs or a.defaults or a.posonlyargs:
        raise P.Unsupported(f"{where}: lambda must take exactly one argument")
    return LambdaTr(where, a.args[0].arg).sexp(node.body)


# ----------------------------------------------------------------------------- dictionaries
def tr_template(s, where):
    """str -> (NStr raw tpl); the template is parsed with the stdlib's own str.format parser."""
    try:
        pieces = list(_string.Formatter().parse(s))
    except ValueError as e:
        raise P.Unsupported(f"{where}: not a valid format string: {e}")
    segs = []
    for lit, field, spec, conv in pieces:
        if lit:
            segs.append(f"Lit {_cps(lit)}")
        if field is None:
            continue
        if spec or conv:
            raise P.Unsupported(f"{where}: format spec / conversion in {s!r}")
        if field == "":
            segs.append("PhAuto")
        elif field.isascii() and field.isdigit():
            segs.append(f"PhIdx {int(field)}")
        elif any(c in field for c in ".[]"):
            raise P.Unsupported(f"{where}: attribute/index field in {s!r}")
        else:
            segs.append(f"PhName {_cps(field)}")
    return f"NStr {_cps(s)} [" + "; ".join(segs) + "]"


def tr_value(node, where, resolve):
    if isinstance(node, ast.Dict):
        items = []
        seen = set()
        for k, v in zip(node.keys, node.values):
            if not isinstance(k, ast.Constant) or isinstance(k.value, bool) or not isinstance(k.value, (str, int)):
                raise P.Unsupported(f"{where}: dictionary key {ast.unparse(k) if k else '**'}")
            if k.value in seen:
                raise P.Unsupported(f"{where}: duplicate key {k.value!r}")
            seen.add(k.value)
            kk = f"KS {_ascii(k.value, where)}" if isinstance(k.value, str) else f"KI {zlit(k.value)}"
            items.append(f"({kk}, {tr_value(v, where + '.' + str(k.value), resolve)})")
        return "NDict [" + ";\n ".join(items) + "]"
    if isinstance(node, ast.Constant):
        if isinstance(node.value, str):
            return tr_template(node.value, where)
        if type(node.value) is int:
            return f"NInt {zlit(node.value)}"
        raise P.Unsupported(f"{where}: constant {node.value!r}")
    if isinstance(node, ast.Lambda):
        return "NFun"
    if isinstance(node, ast.Name):
        return resolve(node.id, where)
    raise P.Unsupported(f"{where}: {type(node).__name__}: {ast.unparse(node)[:60]}")


def module_assign(path, name):
    """The single top-level `name = <expr>` of a module that otherwise only has imports / docstrings."""
    tree = ast.parse(open(path).read())
    found, imports = None, {}
    for st in tree.body:
        if isinstance(st, ast.ImportFrom):
            for al in st.names:
                imports[al.asname or al.name] = (st.module, al.name)
        elif isinstance(st, ast.Expr) and isinstance(st.value, ast.Constant):
            continue
        elif isinstance(st, ast.Assign) and len(st.targets) == 1 and isinstance(st.targets[0], ast.Name):
            if st.targets[0].id == name and found is None:
                found = st.value
            else:
                raise P.Unsupported(f"{path}: unexpected assignment to {st.targets[0].id}")
        else:
            raise P.Unsupported(f"{path}: unexpected statement at line {st.lineno}")
    if found is None:
        raise P.Unsupported(f"{path}: no assignment to {name}")
    return found, imports


def locale_names():
    root = src("locales")
    return sorted(d for d in os.listdir(root) if os.path.isfile(os.path.join(root, d, "locale.py")))


def tr_locale(loc):
    path = src(os.path.join("locales", loc, "locale.py"))
    d, imports = module_assign(path, "locale")
    if not isinstance(d, ast.Dict):
        raise P.Unsupported(f"{path}: locale is not a dict literal")

    def resolve(name, where):
        if name not in imports:
            raise P.Unsupported(f"{where}: unknown name {name}")
        mod, orig = imports[name]
        pre = "pendulum.locales."
        if not mod or not mod.startswith(pre):
            raise P.Unsupported(f"{where}: import from {mod}")
        p2 = src(os.path.join("locales", *mod[len(pre):].split("."))) + ".py"
        v, imp2 = module_assign(p2, orig)

        def no(nm, wh):
            raise P.Unsupported(f"{wh}: nested name {nm}")
        return tr_value(v, where, no)

    keys = {k.value: v for k, v in zip(d.keys, d.values) if isinstance(k, ast.Constant)}
    for need in ("plural", "ordinal"):
        if need not in keys:
            raise P.Unsupported(f"{path}: no {need}")
    plural = tr_lambda(keys["plural"], f"{loc}.plural")
    ordinal = tr_lambda(keys["ordinal"], f"{loc}.ordinal")
    data = tr_value(d, loc, resolve)
    return (f"Definition loc_{loc} : locale := mkLocale {_ascii(loc, loc)}\n ({plural})\n ({ordinal})\n ({data}).\n")


# ----------------------------------------------------------------------------- DifferenceFormatter.format: unit selection chain
_ATTR = {"years": "c_years", "months": "c_months", "weeks": "c_weeks", "remaining_days": "c_rdays", "hours": "c_hours",
         "minutes": "c_minutes", "remaining_seconds": "c_rsecs"}
UNITS = ("year", "month", "week", "day", "hour", "minute", "second")


class PickTr:
    def fail(self, node, why=""):
        raise P.Unsupported(f"DifferenceFormatter.format: line {getattr(node, 'lineno', '?')}: {why or type(node).__name__}: {ast.unparse(node)[:80]}")

    def z(self, e, count=None):
        if isinstance(e, ast.Constant) and type(e.value) is int:
            return zlit(e.value)
        if isinstance(e, ast.Attribute) and isinstance(e.value, ast.Name) and e.value.id == "diff" and e.attr in _ATTR:
            return f"({_ATTR[e.attr]} d)"
        if isinstance(e, ast.Name) and e.id == "count" and count is not None:
            return count
        if isinstance(e, ast.BinOp):
            for k, o in ((ast.Add, "+"), (ast.Sub, "-"), (ast.Mult, "*")):
                if isinstance(e.op, k):
                    return f"({self.z(e.left, count)} {o} {self.z(e.right, count)})"
        self.fail(e, "integer expression")

    def b(self, e):
        if isinstance(e, ast.BoolOp):
            op = " && " if isinstance(e.op, ast.And) else " || "
            return "(" + op.join(self.b(x) for x in e.values) + ")"
        if isinstance(e, ast.UnaryOp) and isinstance(e.op, ast.Not):
            return f"(negb {self.b(e.operand)})"
        if isinstance(e, ast.Compare):
            parts, left = [], e.left
            for op, right in zip(e.ops, e.comparators):
                l, r = self.z(left), self.z(right)
                if isinstance(op, ast.Eq):
                    parts.append(f"({l} =? {r})")
                elif isinstance(op, ast.NotEq):
                    parts.append(f"(negb ({l} =? {r}))")
                elif isinstance(op, ast.Lt):
                    parts.append(f"({l} <? {r})")
                elif isinstance(op, ast.LtE):
                    parts.append(f"({l} <=? {r})")
                elif isinstance(op, ast.Gt):
                    parts.append(f"({r} <? {l})")
                elif isinstance(op, ast.GtE):
                    parts.append(f"({r} <=? {l})")
                else:
                    self.fail(e, "comparison")
                left = right
            return "(" + " && ".join(parts) + ")"
        self.fail(e, "condition")

    def branch(self, body):
        """unit = "<u>"; count = <expr>; optional `if <test>: count += <k>` -> Some (unit, count)"""
        unit = count = None
        for st in body:
            if isinstance(st, ast.Assign) and len(st.targets) == 1 and isinstance(st.targets[0], ast.Name):
                t = st.targets[0].id
                if t == "unit" and isinstance(st.value, ast.Constant) and st.value.value in UNITS and unit is None:
                    unit = st.value.value
                    continue
                if t == "count" and count is None:
                    count = self.z(st.value)
                    continue
            if isinstance(st, ast.If) and not st.orelse and len(st.body) == 1 and isinstance(st.body[0], ast.AugAssign) \
                    and isinstance(st.body[0].target, ast.Name) and st.body[0].target.id == "count" and count is not None \
                    and isinstance(st.body[0].op, (ast.Add, ast.Sub)):
                k = self.z(st.body[0].value)
                o = "+" if isinstance(st.body[0].op, ast.Add) else "-"
                count = f"(if {self.b(st.test)} then ({count} {o} {k}) else {count})"
                continue
            self.fail(st, "statement in a unit branch")
        if unit is None or count is None:
            self.fail(body[0], "branch does not set unit and count")
        return f'Some ("{unit}"%string, {count})'

    def chain(self, st):
        if not isinstance(st, ast.If):
            self.fail(st, "expected if")
        then = self.branch(st.body)
        if len(st.orelse) == 1 and isinstance(st.orelse[0], ast.If):
            rest = self.chain(st.orelse[0])
        else:
            # the final else: the "a few seconds" branch (hand-modelled in Model/DiffFormat.v); its shape is pinned here
            self.check_else(st.orelse)
            rest = "None"
        return f"if {self.b(st.test)} then {then}\n  else {rest}"

    def check_else(self, body):
        txt = "\n".join(ast.unparse(s) for s in body)
        expected = ELSE_SHAPE
        if txt != expected:
            raise P.Unsupported("DifferenceFormatter.format: the final else branch (few_second handling) changed shape; "
                                "Model/DiffFormat.v models:\n" + expected + "\n--- found:\n" + txt)


ELSE_SHAPE = """time = locale.get('custom.units.few_second')
if time is not None:
    if absolute:
        return t.cast(str, time)
    key = 'custom'
    is_future = diff.invert
    if is_now:
        if is_future:
            key += '.from_now'
        else:
            key += '.ago'
    elif is_future:
        key += '.after'
    else:
        key += '.before'
    return t.cast(str, locale.get(key).format(time))
else:
    unit = 'second'
    count = diff.remaining_seconds"""

TAIL_SHAPE = """if count == 0:
    count = 1
if absolute:
    key = f'translations.units.{unit}'
else:
    is_future = diff.invert
    if is_now:
        key = f'translations.relative.{unit}'
        if is_future:
            key += '.future'
        else:
            key += '.past'
    else:
        key = 'custom.units_relative'
        if is_future:
            key += f'.{unit}.future'
        else:
            key += f'.{unit}.past'
        trans = locale.get(key)
        if not trans:
            key = f'translations.units.{unit}.{locale.plural(count)}'
            time = locale.get(key).format(count)
        else:
            time = trans[locale.plural(count)].format(count)
        key = 'custom'
        if is_future:
            key += '.after'
        else:
            key += '.before'
        return t.cast(str, locale.get(key).format(time))
key += f'.{locale.plural(count)}'
return t.cast(str, locale.get(key).format(count))"""


def tr_pick():
    path = src(os.path.join("formatting", "difference_formatter.py"))
    tree = ast.parse(open(path).read())
    fn = None
    for c in tree.body:
        if isinstance(c, ast.ClassDef) and c.name == "DifferenceFormatter":
            for f in c.body:
                if isinstance(f, ast.FunctionDef) and f.name == "format":
                    fn = f
    if fn is None:
        raise P.Unsupported("DifferenceFormatter.format not found")
    if [a.arg for a in fn.args.args] != ["self", "diff", "is_now", "absolute", "locale"]:
        raise P.Unsupported("DifferenceFormatter.format: signature changed")
    body = [s for s in fn.body if not (isinstance(s, ast.Expr) and isinstance(s.value, ast.Constant))]
    if len(body) < 3 or ast.unparse(body[0]) != "locale = self._locale if locale is None else Locale.load(locale)":
        raise P.Unsupported("DifferenceFormatter.format: prologue changed")
    tr = PickTr()
    chain = tr.chain(body[1])
    tail = "\n".join(ast.unparse(s) for s in body[2:])
    if tail != TAIL_SHAPE:
        raise P.Unsupported("DifferenceFormatter.format: the key-construction part changed shape; Model/DiffFormat.v models:\n"
                            + TAIL_SHAPE + "\n--- found:\n" + tail)
    return ("(* unit selection of DifferenceFormatter.format (translated); None = the final else branch *)\n"
            f"Definition gen_pick (d : comp) : option (string * Z) :=\n  {chain}.\n")


def gen_locales(ctx):
    names = locale_names()
    out = [HEADER % "src/pendulum/locales/*/locale.py, custom.py; formatting/difference_formatter.py",
           "From PV Require Import Model.LocaleBase.\n"]
    for loc in names:
        out.append(tr_locale(loc))
    out.append("Definition all_locales : list locale := [" + "; ".join("loc_" + n for n in names) + "].\n")
    out.append(tr_pick())
    return "\n".join(out)


def steps(ctx):
    return [("Locales.v", lambda: gen_locales(ctx))]
