"""C16 / C12 — Gen/DateGlue.v: the weekday navigation and the set / replace of pendulum.Date TRANSLATED from /repo's src/pendulum/date.py on
every run, on the object model `gdate` of coq/Model/TzGlueObj.v and on top of the translated Date.add / Date.subtract of Gen/TzGlue.v (which are
CALLED, not re-modelled).  Proofs/DateGlueFacts.v proves the hand models coq/Model/Weekday.v (C16) and coq/Model/StartEndBase.v (C12, Date part)
EQUAL to this translation (Props/C16.v, Props/C12.v model_is_code_*).

TRANSLATED (py2gallina object fragment, keyword calls with their defaults):
  Date.replace, Date.set, Date.next, Date.previous, Date._first_of_month, _last_of_month, _first_of_quarter, _last_of_quarter, _first_of_year,
  _last_of_year, _nth_of_month, _nth_of_quarter, _nth_of_year, Date._start_of_day ... _end_of_century, _start_of_week, _end_of_week
RECOGNISED SHAPES (rewritten before translation; anything else fails closed):
  x.first_of('<unit>'[, w]) / x.last_of('<unit>'[, w]) with a literal unit of ["month", "quarter", "year"] -> x._first_of_<unit>(w) (w = None when absent);
      first_of / last_of are checked to be `if unit not in [...]: raise ValueError; return getattr(self, f"_first_of_{unit}")(day_of_week)`;
  `month = calendar.Calendar(calendar.MONDAY).monthdayscalendar(a, b)` and then `month[i][c]` -> the primitive _mdc(a, b, i, c) (a, b are field reads of a
      variable that is not assigned in between);
  `check = dt.format("YYYY-MM")` ... `dt.format("YYYY-MM") == check` -> check = dt ... _same_ym(dt, check) (string equality of the two renderings);
  `x = x if x is not None else e` -> `if x is None: x = e`;
  WeekDay.<NAME> -> its IntEnum value (read from day.py);  x.start_of('<unit>') -> x._start_of_<unit>();  pendulum._WEEK_STARTS_AT -> a parameter;
  next / previous:  the statements before the loop, the loop test and the loop step are translated; the Fixpoint skeleton
      `while <test>: dt = <step>` + `return dt` comes from a TEMPLATE (the translator has no raising call inside a loop), fuel = 7 evaluations
      of the test as in Model/Weekday.v (out of fuel = the loop of the real code does not terminate);
  `for _ in range(n): dt = dt.next(day_of_week)`: the count n is translated, the iteration is the TEMPLATE wglue_Date_iter_next.
HAND PRIMITIVES (coq/Model/DateGlueObj.v): Date.day_of_week = WeekDay(self.weekday()), Date.days_in_month = calendar.monthrange(..)[1],
  Date.quarter (= the translated py_Date_quarter of Gen/DateGetters.v), _mdc = calendar.Calendar(MONDAY).monthdayscalendar(y, m)[i][c] (= mc_get of
  Model/Weekday.v: a NATIVE primitive of the standard library), _same_ym.
"""
import ast
import copy

from .. import py2gallina as P
from ..gen import HEADER, src
from . import g15_tz_glue as G
from . import g81_start_end_glue as S

Z, B = P.Z, P.B
OZ = G.OZ
GD = "gdate"
OGD = ("opt", GD)
NAV_UNITS = ["month", "quarter", "year"]
NAV_FUEL = 7
NAV_DISPATCH = ["if unit not in ['month', 'quarter', 'year']:\n    raise ValueError(f'Invalid unit \"{{unit}}\" for first_of()')",
                "return cast('Self', getattr(self, f'_{0}_{{unit}}')(day_of_week))"]


class NavRw(ast.NodeTransformer):
    """x.first_of('month', w) -> x._first_of_month(w); x.first_of('month') -> x._first_of_month(None)"""
    def visit_Call(self, node):
        self.generic_visit(node)
        f = node.func
        if isinstance(f, ast.Attribute) and f.attr in ("first_of", "last_of"):
            if len(node.args) not in (1, 2) or node.keywords or not isinstance(node.args[0], ast.Constant) or node.args[0].value not in NAV_UNITS:
                raise P.Unsupported(f"{f.attr} with a unit that is not a literal valid unit: {ast.unparse(node)}")
            arg = node.args[1] if len(node.args) == 2 else ast.Constant(value=None)
            return ast.copy_location(ast.Call(func=ast.Attribute(value=f.value, attr=f"_{f.attr}_{node.args[0].value}", ctx=ast.Load()),
                                              args=[arg], keywords=[]), node)
        return node


MDC = "calendar.Calendar(calendar.MONDAY).monthdayscalendar"


class MdcRw(ast.NodeTransformer):
    """month = calendar.Calendar(calendar.MONDAY).monthdayscalendar(v.year, v.month); ... month[i][c]  ->  _mdc(v.year, v.month, i, c)"""
    def __init__(self):
        self.args = None
        self.used = 0

    def run(self, fn):
        body = []
        var = None
        for s in fn.body:
            if isinstance(s, ast.Assign) and isinstance(s.value, ast.Call) and ast.unparse(s.value.func) == MDC:
                if self.args is not None or len(s.targets) != 1 or ast.unparse(s.targets[0]) != "month" or s.value.keywords or len(s.value.args) != 2:
                    raise P.Unsupported("monthdayscalendar: unexpected assignment")
                a, b = s.value.args
                if not (isinstance(a, ast.Attribute) and isinstance(b, ast.Attribute) and isinstance(a.value, ast.Name) and isinstance(b.value, ast.Name)
                        and a.value.id == b.value.id):
                    raise P.Unsupported("monthdayscalendar: the arguments are not field reads of one variable")
                self.args = [a, b]
                var = a.value.id
                continue
            if self.args is not None:
                for n in ast.walk(s):
                    if isinstance(n, ast.Name) and isinstance(n.ctx, ast.Store) and n.id in (var, "month"):
                        raise P.Unsupported(f"monthdayscalendar: {n.id} is assigned after the table was read")
            body.append(self.visit(s) if self.args is not None else s)
        fn.body = body
        if MDC in ast.unparse(fn) or any(isinstance(n, ast.Name) and n.id == "month" for n in ast.walk(fn)):
            raise P.Unsupported("monthdayscalendar: a use of the table that is not month[i][c]")
        return fn

    def visit_Subscript(self, node):
        self.generic_visit(node)
        if isinstance(node.value, ast.Subscript) and isinstance(node.value.value, ast.Name) and node.value.value.id == "month" and self.args is not None:
            self.used += 1
            return ast.copy_location(ast.Call(func=ast.Name(id="_mdc", ctx=ast.Load()),
                                              args=[copy.deepcopy(self.args[0]), copy.deepcopy(self.args[1]), node.value.slice, node.slice], keywords=[]), node)
        return node


class FormatRw(ast.NodeTransformer):
    """check = dt.format("YYYY-MM") -> check = dt;   dt.format("YYYY-MM") == check -> _same_ym(dt, check)"""
    def __init__(self, fmt):
        self.fmt = fmt
        self.used = 0

    def _is_fmt(self, e):
        return (isinstance(e, ast.Call) and isinstance(e.func, ast.Attribute) and e.func.attr == "format" and isinstance(e.func.value, ast.Name)
                and len(e.args) == 1 and not e.keywords and isinstance(e.args[0], ast.Constant) and e.args[0].value == self.fmt)

    def visit_Assign(self, node):
        if self._is_fmt(node.value) and len(node.targets) == 1 and ast.unparse(node.targets[0]) == "check":
            self.used += 1
            return ast.copy_location(ast.Assign(targets=node.targets, value=node.value.func.value), node)
        return self.generic_visit(node)

    def visit_Compare(self, node):
        if len(node.ops) == 1 and isinstance(node.ops[0], ast.Eq) and self._is_fmt(node.left) and ast.unparse(node.comparators[0]) == "check":
            self.used += 1
            return ast.copy_location(ast.Call(func=ast.Name(id="_same_ym", ctx=ast.Load()), args=[node.left.func.value, node.comparators[0]], keywords=[]), node)
        return self.generic_visit(node)


class DefaultRw(ast.NodeTransformer):
    """x = x if x is not None else e   ->   if x is None: x = e      (the same default of an optional parameter, statement form)"""
    def visit_Assign(self, node):
        v = node.value
        if (len(node.targets) == 1 and isinstance(node.targets[0], ast.Name) and isinstance(v, ast.IfExp) and isinstance(v.body, ast.Name)
                and v.body.id == node.targets[0].id and ast.unparse(v.test) == f"{v.body.id} is not None"):
            x = v.body.id
            new = ast.parse(f"if {x} is None:\n    {x} = {ast.unparse(v.orelse)}").body[0]
            return ast.copy_location(new, node)
        return node


def _strip(fn):
    fn.body = [s for s in fn.body if not (isinstance(s, ast.Expr) and isinstance(s.value, ast.Constant))]
    return fn


def _dfn(tree, qual, assume=None, cls="Date"):
    if assume is not None:
        f_ = G._spec_fn(tree, qual, assume, "_nat_date_new")
    else:
        f_ = G.Rw(qual, "_nat_date_new").visit(copy.deepcopy(P.find_function(tree, qual)))
    f_ = DefaultRw().visit(S.UnitRw().visit(NavRw().visit(f_)))
    ast.fix_missing_locations(f_)
    return _strip(f_)


def _ctx(shared):
    c = P.Ctx()
    c.int_boolop = c.obj_fragment = c.conservative_exit = True
    c.consts.update({k: v for k, v in shared.consts.items() if k in ("YEARS_PER_DECADE", "YEARS_PER_CENTURY", "MONTHS_PER_YEAR")})
    c.attrs.update({"year": ("gd_year", Z), "month": ("gd_month", Z), "day": ("gd_day", Z), "day_of_week": ("gd_day_of_week", Z),
                    "days_in_month": ("gd_days_in_month", Z), "quarter": ("gd_quarter", Z)})
    c.kwfuncs["_nat_date_new"] = ("nat_date_new", ["year", "month", "day"], {}, [Z, Z, Z], GD, "result")
    c.kwfuncs["_mdc"] = ("mc_get", ["y", "m", "i", "c"], {}, [Z, Z, Z, Z], Z, "result")
    c.kwfuncs["_same_ym"] = ("gd_same_ym", ["a", "b"], {}, [GD, GD], B, None)
    dparams = ["years", "months", "weeks", "days"]
    c.kwmethods[("add", GD)] = ("glue_Date_add", dparams, {p_: "0" for p_ in dparams}, [Z] * 4, GD, "result")
    c.kwmethods[("subtract", GD)] = ("glue_Date_subtract", dparams, {p_: "0" for p_ in dparams}, [Z] * 4, GD, "result")
    return c


def _check(tree):
    for nm, pre in (("first_of", "first_of"), ("last_of", "last_of")):
        got = S._body(P.find_function(tree, "Date." + nm))
        if got != [s.format(pre) for s in NAV_DISPATCH]:
            raise P.Unsupported(f"Date.{nm} is not the recognised getattr dispatch: {got}")
    for nm in ("start_of", "end_of"):
        got = S._body(P.find_function(tree, "Date." + nm))
        if got != [s.format(nm) for s in S.DISPATCH_BODY]:
            raise P.Unsupported(f"Date.{nm} is not the recognised getattr dispatch: {got}")
    dcls = next(n for n in tree.body if isinstance(n, ast.ClassDef) and n.name == "Date")
    units = None
    for s in dcls.body:
        if isinstance(s, (ast.Assign, ast.AnnAssign)) and ast.unparse(s.targets[0] if isinstance(s, ast.Assign) else s.target) == "_MODIFIERS_VALID_UNITS":
            units = ast.literal_eval(s.value)
    if units != ["day", "week", "month", "year", "decade", "century"]:
        raise P.Unsupported(f"Date._MODIFIERS_VALID_UNITS changed: {units}")
    for nm, want in (("day_of_week", ["return WeekDay(self.weekday())"]), ("days_in_month", ["return calendar.monthrange(self.year, self.month)[1]"]),
                     ("quarter", ["return math.ceil(self.month / 3)"])):
        got = S._body(P.find_function(tree, "Date." + nm))
        if got != want:
            raise P.Unsupported(f"Date.{nm} is not the recognised property: {got}")


def _t(c, fn, coq, argtypes, what, want=GD, **kw):
    text, rett, monad = G._tr(c, fn, coq, argtypes, GD, what, force_result=True, **kw)
    if rett != want or monad != "result":
        raise P.Unsupported(f"{coq}: unexpected type {rett} / {monad}")
    return text


def _walk(c, tree, name, wd):
    fn = S.WeekDayRw(wd).visit(_dfn(tree, "Date." + name))
    if [a.arg for a in fn.args.args] != ["self", "day_of_week"] or [ast.unparse(d) for d in fn.args.defaults] != ["None"]:
        raise P.Unsupported(f"Date.{name}: unexpected signature")
    fn.args.defaults = []
    body = fn.body
    if len(body) < 3 or not isinstance(body[-2], ast.While) or ast.unparse(body[-1]) != "return dt":
        raise P.Unsupported(f"Date.{name}: does not end with `while ...: ...` / `return dt`")
    loop = body[-2]
    if loop.orelse or len(loop.body) != 1 or not isinstance(loop.body[0], ast.Assign) or ast.unparse(loop.body[0].targets[0]) != "dt":
        raise P.Unsupported(f"Date.{name}: the loop body is not a single assignment to dt")
    used = {n.id for n in ast.walk(loop) if isinstance(n, ast.Name)}
    if not used <= {"dt", "day_of_week"}:
        raise P.Unsupported(f"Date.{name}: the loop reads {sorted(used)}")
    init = copy.deepcopy(fn)
    init.body = body[:-2] + [ast.parse("return (dt, day_of_week)").body[0]]
    cond = ast.parse(f"def cond(dt, day_of_week):\n    return {ast.unparse(loop.test)}").body[0]
    step = ast.parse(f"def step(dt):\n    return {ast.unparse(loop.body[0].value)}").body[0]
    for f_ in (init, cond, step):
        ast.fix_missing_locations(f_)
    out = []
    out.append(_t(c, init, f"wglue_Date_{name}_init", {"day_of_week": OZ},
                  f"translated from src/pendulum/date.py :: Date.{name} — the statements BEFORE the loop; returns (dt, day_of_week)", want=(GD, Z)))
    text, rett, monad = G._tr(c, cond, f"wglue_Date_{name}_cond", {"dt": GD, "day_of_week": Z}, None, f"translated: the loop TEST of Date.{name}")
    if rett != B or monad is not None:
        raise P.Unsupported(f"Date.{name}: unexpected type of the loop test")
    out.append(text)
    text, rett, monad = G._tr(c, step, f"wglue_Date_{name}_step", {"dt": GD}, None, f"translated: the loop STEP of Date.{name}", force_result=True)
    if rett != GD or monad != "result":
        raise P.Unsupported(f"Date.{name}: unexpected type of the loop step")
    out.append(text)
    out.append(f"(* TEMPLATE: `while <test>: dt = <step>` then `return dt`, on explicit fuel (out of fuel = the real loop does not terminate) *)\n"
               f"Fixpoint wglue_Date_{name}_loop (fuel : nat) (v_day_of_week : Z) (v_dt : gdate) {{struct fuel}} : result gdate :=\n"
               f"  match fuel with\n  | O => Raise E_OutOfFuel\n  | S fuel' =>\n"
               f"    if wglue_Date_{name}_cond v_dt v_day_of_week then\n"
               f"      match wglue_Date_{name}_step v_dt with Raise e => Raise e | Ok d => wglue_Date_{name}_loop fuel' v_day_of_week d end\n"
               f"    else Ok v_dt\n  end.\n"
               f"Definition wglue_Date_{name} (v_self : gdate) (v_day_of_week : option Z) : result gdate :=\n"
               f"  match wglue_Date_{name}_init v_self v_day_of_week with Raise e => Raise e | Ok (d, w) => wglue_Date_{name}_loop {NAV_FUEL}%nat w d end.\n")
    c.kwmethods[(name, GD)] = (f"wglue_Date_{name}", ["day_of_week"], {"day_of_week": "None"}, [OZ], GD, "result")
    return out


def gen(shared):
    tree = ast.parse(open(src("date.py")).read())
    _check(tree)
    c = _ctx(shared)
    wd = S._weekday_values()
    out = [HEADER % "src/pendulum/date.py (set / replace, weekday navigation, start_of / end_of on the object model gdate)"]
    out.append("From PV Require Import Spec.Cal Gen.Constants Model.TzGlueObj Gen.TzGlue Model.Weekday Model.DateGlueObj.\n"
               "(* See tools/vlib/gens/g82_weekday_glue.py: what is translated, the recognised rewrites and the hand primitives. *)\n")
    # ---------------- replace / set
    fn = _dfn(tree, "Date.replace")
    params = ["year", "month", "day"]
    if [a.arg for a in fn.args.args] != ["self"] + params or [ast.unparse(d) for d in fn.args.defaults] != ["None"] * 3:
        raise P.Unsupported("Date.replace: unexpected signature")
    out.append(_t(c, fn, "wglue_Date_replace", {p_: OZ for p_ in params}, "translated from src/pendulum/date.py :: Date.replace"))
    c.kwmethods[("replace", GD)] = ("wglue_Date_replace", params, {p_: "None" for p_ in params}, [OZ] * 3, GD, "result")
    fn = _dfn(tree, "Date.set")
    if [a.arg for a in fn.args.args] != ["self"] + params or [ast.unparse(d) for d in fn.args.defaults] != ["None"] * 3:
        raise P.Unsupported("Date.set: unexpected signature")
    out.append(_t(c, fn, "wglue_Date_set", {p_: OZ for p_ in params}, "translated from src/pendulum/date.py :: Date.set"))
    c.kwmethods[("set", GD)] = ("wglue_Date_set", params, {p_: "None" for p_ in params}, [OZ] * 3, GD, "result")
    # ---------------- next / previous
    out += _walk(c, tree, "next", wd)
    out += _walk(c, tree, "previous", wd)
    # ---------------- _first_of_month / _last_of_month (the month table is the native primitive _mdc)
    for nm in ("_first_of_month", "_last_of_month"):
        m = MdcRw()
        fn = m.run(_dfn(tree, "Date." + nm))
        if [a.arg for a in fn.args.args] != ["self", "day_of_week"] or m.used != 3:
            raise P.Unsupported(f"Date.{nm}: unexpected signature / uses of the month table")
        fn.args.defaults = []
        ast.fix_missing_locations(fn)
        out.append(_t(c, fn, "wglue_Date" + nm, {"day_of_week": OZ}, f"translated from src/pendulum/date.py :: Date.{nm}"))
        c.kwmethods[(nm, GD)] = ("wglue_Date" + nm, ["day_of_week"], {}, [OZ], GD, "result")
    for nm in ("_first_of_quarter", "_last_of_quarter", "_first_of_year", "_last_of_year"):
        fn = _dfn(tree, "Date." + nm)
        if [a.arg for a in fn.args.args] != ["self", "day_of_week"]:
            raise P.Unsupported(f"Date.{nm}: unexpected signature")
        fn.args.defaults = []
        out.append(_t(c, fn, "wglue_Date" + nm, {"day_of_week": OZ}, f"translated from src/pendulum/date.py :: Date.{nm}"))
        c.kwmethods[(nm, GD)] = ("wglue_Date" + nm, ["day_of_week"], {}, [OZ], GD, "result")
    # ---------------- _nth_of_*
    c.list_fragment = True
    for nm in ("_nth_of_month", "_nth_of_quarter", "_nth_of_year"):
        fr = FormatRw("YYYY-MM")
        fn = fr.visit(_dfn(tree, "Date." + nm))
        if fr.used != (2 if nm == "_nth_of_month" else 0) or ".format(" in ast.unparse(fn):
            raise P.Unsupported(f"Date.{nm}: unexpected uses of format")
        if [a.arg for a in fn.args.args] != ["self", "nth", "day_of_week"] or fn.args.defaults:
            raise P.Unsupported(f"Date.{nm}: unexpected signature")
        ast.fix_missing_locations(fn)
        out.append(_t(c, fn, "wglue_Date" + nm, {"nth": Z, "day_of_week": Z}, f"translated from src/pendulum/date.py :: Date.{nm}", want=OGD, ret_decl=OGD))
    # ---------------- C12: Date._start_of_* / _end_of_* (day, month, year, decade, century; the week reads the process-wide state)
    for unit in ("day", "month", "year", "decade", "century"):
        for side in ("start", "end"):
            nm = f"_{side}_of_{unit}"
            fn = _dfn(tree, "Date." + nm)
            if [a.arg for a in fn.args.args] != ["self"]:
                raise P.Unsupported(f"Date.{nm}: unexpected signature")
            out.append(_t(c, fn, "wglue_Date" + nm, {}, f"translated from src/pendulum/date.py :: Date.{nm}"))
            c.kwmethods[(nm, GD)] = ("wglue_Date" + nm, [], {}, [], GD, "result")
    for nm, state in (("_start_of_week", "week_starts_at"), ("_end_of_week", "week_ends_at")):
        st = S.StateRw()
        fn = st.visit(_dfn(tree, "Date." + nm))
        if st.used != {state} or [a.arg for a in fn.args.args] != ["self"]:
            raise P.Unsupported(f"Date.{nm}: does not read pendulum._{state.upper()} only: {st.used}")
        fn.args.args.append(ast.arg(arg=state))
        ast.fix_missing_locations(fn)
        out.append(_t(c, fn, "wglue_Date" + nm, {state: Z}, f"translated from src/pendulum/date.py :: Date.{nm} (pendulum._{state.upper()} is the parameter {state})"))
    return "\n".join(out) + "\n"


def steps(ctx):
    return [("DateGlue.v", lambda: gen(ctx))]
