"""C13: pin the text of ISO8601_DURATION (src/pendulum/parsing/iso8601.py).

The Coq matcher Model/DurParse.match_duration is hand-written for exactly this pattern; Gen/DurRegex.v carries the pattern as it
is compiled (re.VERBOSE: whitespace removed) and Proofs/C13Facts.v proves it equal to the text the matcher was written for, so a
change of the regular expression breaks the build (fail closed) instead of leaving a stale matcher."""
import ast

from .. import py2gallina as P
from ..gen import HEADER, src


def gen_dur_regex(ctx):
    path = src("parsing/iso8601.py")
    tree = ast.parse(open(path).read())
    for node in tree.body:
        if (isinstance(node, ast.Assign) and len(node.targets) == 1 and isinstance(node.targets[0], ast.Name)
                and node.targets[0].id == "ISO8601_DURATION"):
            call = node.value
            if not (isinstance(call, ast.Call) and ast.unparse(call.func) == "re.compile" and len(call.args) == 2 and not call.keywords):
                raise P.Unsupported("ISO8601_DURATION is not re.compile(pattern, flags)")
            pat, flags = call.args
            if not (isinstance(pat, ast.Constant) and isinstance(pat.value, str)):
                raise P.Unsupported("ISO8601_DURATION pattern is not a string literal")
            if ast.unparse(flags) != "re.VERBOSE":
                raise P.Unsupported(f"ISO8601_DURATION flags are {ast.unparse(flags)}, expected re.VERBOSE")
            text = pat.value
            if "#" in text or "\\ " in text or "[ " in text:
                raise P.Unsupported("ISO8601_DURATION uses verbose-mode comments or escaped whitespace")
            stripped = "".join(ch for ch in text if ch not in " \t\n\r\f\v")
            if any(ord(ch) > 126 for ch in stripped):
                raise P.Unsupported("non-ASCII pattern")
            body = "; ".join(str(ord(ch)) for ch in stripped)
            return (HEADER % "src/pendulum/parsing/iso8601.py (ISO8601_DURATION)"
                    + "\n(* " + stripped.replace("*)", "* )") + " *)\n"
                    + f"Definition ISO8601_DURATION_PATTERN : list Z := [{body}].\n")
    raise P.Unsupported("ISO8601_DURATION not found")


def steps(ctx):
    return [("DurRegex.v", lambda: gen_dur_regex(ctx))]
