"""Gen/StdlibCal.v — CPython's own pure-Python calendar algorithms, translated from the STAGED interpreter's `_pydatetime.py`.

The specification side of the calendar properties (coq/Spec/Cal.v) is a hand-written port of these algorithms; this file is the
machine translation of the stdlib source itself, and Proofs/StdlibCalFacts.v proves the two equal.  Regenerated on every run
from the file the staged interpreter reports for `_pydatetime` (so another CPython version is translated afresh or fails closed).

TRANSLATED (py2gallina, statement by statement):
  module constants  MINYEAR, MAXYEAR, _DAYS_IN_MONTH, _DI400Y, _DI100Y, _DI4Y (their defining expressions), the three module-level
                    `assert`s about _DI4Y/_DI400Y/_DI100Y (as Examples that must compute to true)
  functions         _is_leap, _days_before_year, _days_in_month, _days_before_month, _ymd2ord, _ord2ymd, _isoweek1monday,
                    _isoweek_to_gregorian, _check_date_fields
  methods of date   toordinal, weekday, isoweekday, isocalendar (whole bodies)
  `assert c, msg`   -> `if c then <rest> else Raise E_Exception`  (AssertionError; PyBase.exn has no dedicated constructor, E_Exception
                    is used for nothing else in this file; the message expression is checked to be effect-free and dropped)
  `raise ValueError(...)` -> Raise E_ValueError (message dropped)
  calls of functions that can raise are bound in evaluation order in front of the statement (py2gallina `hoist`)
TEMPLATE (shape recognised structurally, anything else fails closed):
  the module-level loop that fills _DAYS_BEFORE_MONTH (`for dim in _DAYS_IN_MONTH[1:]: _DAYS_BEFORE_MONTH.append(dbm); dbm += dim`)
  is emitted as the list recursion sl_dbm_loop; start values and the slice start are read from the source.
TRANSCRIBED BY HAND (named below as such):
  sl_index              operator.index on an int is the identity
  sl_IsoCalendarDate    the named-tuple constructor `_IsoCalendarDate(year, week, weekday)` is the triple
                        (its __new__ is checked to be `super().__new__(cls, (year, week, weekday))`)
  pdate                 a date object is the record of its slots _year/_month/_day (Lib/PyBase.v), `self._year` -> d_year self;
                        date.__new__ (which stores the fields after _check_date_fields) and date.fromisocalendar
                        (`cls(*_isoweek_to_gregorian(year, week, day))`: star-call of the constructor) are NOT translated.
PINS: every constant/table is also compared, inside Coq, with the value the staged interpreter reports at run time.
"""
import ast
import json
import subprocess

from .. import py2gallina as P
from ..gen import HEADER, zlit
from ..stage import PY

Z, B = P.Z, P.B
ASSERT_EXN = "E_Exception"

PROBE = ("import _pydatetime as m, json; print(json.dumps({'file': m.__file__, 'MINYEAR': m.MINYEAR, 'MAXYEAR': m.MAXYEAR, "
         "'_DAYS_IN_MONTH': m._DAYS_IN_MONTH, '_DAYS_BEFORE_MONTH': m._DAYS_BEFORE_MONTH, "
         "'_DI400Y': m._DI400Y, '_DI100Y': m._DI100Y, '_DI4Y': m._DI4Y}))")

DBM_LOOP_SHAPE = """
_DAYS_BEFORE_MONTH = [0]
dbm = 0
for dim in _DAYS_IN_MONTH[0:]:
    _DAYS_BEFORE_MONTH.append(dbm)
    dbm += dim
del dbm, dim
"""
ISOCAL_NEW_SHAPE = """
def __new__(cls, year, week, weekday, /):
    return super().__new__(cls, (year, week, weekday))
"""

FUNCS = [  # (python qualname, coq name, parameter types)
    ("_is_leap", "sl_is_leap", {"year": Z}),
    ("_days_before_year", "sl_days_before_year", {"year": Z}),
    ("_days_in_month", "sl_days_in_month", {"year": Z, "month": Z}),
    ("_days_before_month", "sl_days_before_month", {"year": Z, "month": Z}),
    ("_ymd2ord", "sl_ymd2ord", {"year": Z, "month": Z, "day": Z}),
]
FUNCS2 = [
    ("_ord2ymd", "sl_ord2ymd", {"n": Z}),
    ("_isoweek1monday", "sl_isoweek1monday", {"year": Z}),
    ("_isoweek_to_gregorian", "sl_isoweek_to_gregorian", {"year": Z, "week": Z, "day": Z}),
    ("_check_date_fields", "sl_check_date_fields", {"year": Z, "month": Z, "day": Z}),
]
METHODS = ["toordinal", "weekday", "isoweekday", "isocalendar"]
MODULE_NAMES = ["MINYEAR", "MAXYEAR", "_DAYS_IN_MONTH", "_DAYS_BEFORE_MONTH", "_DI400Y", "_DI100Y", "_DI4Y", "_IsoCalendarDate"]


def _probe():
    try:
        p = subprocess.run([PY, "-c", PROBE], capture_output=True, text=True, timeout=120)
    except Exception as e:  # noqa
        raise P.Unsupported(f"staged interpreter could not be asked for _pydatetime: {e}")
    if p.returncode != 0:
        raise P.Unsupported("staged interpreter has no importable _pydatetime: " + p.stderr[-300:])
    return json.loads(p.stdout)


def _int_const(node):
    if isinstance(node, ast.Constant) and isinstance(node.value, int) and not isinstance(node.value, bool):
        return node.value
    if isinstance(node, ast.UnaryOp) and isinstance(node.op, ast.USub):
        return -_int_const(node.operand)
    raise P.Unsupported(f"_pydatetime.py: line {getattr(node, 'lineno', '?')}: not an integer literal: {ast.unparse(node)}")


def _zlist(vals):
    return "[" + "; ".join(zlit(v) for v in vals) + "]"


def _same_shape(nodes, template):
    """structural equality with the template, integer literals excepted (they are read from the source)"""
    class Norm(ast.NodeTransformer):
        def visit_Constant(self, n):
            return ast.Constant(value=0) if isinstance(n.value, int) and not isinstance(n.value, bool) else n

        def visit_UnaryOp(self, n):
            if isinstance(n.op, ast.USub) and isinstance(n.operand, ast.Constant) and isinstance(n.operand.value, int):
                return ast.Constant(value=0)
            return self.generic_visit(n)
    a = [ast.dump(Norm().visit(ast.parse(ast.unparse(n)))) for n in nodes]
    b = [ast.dump(Norm().visit(ast.parse(ast.unparse(n)))) for n in ast.parse(template).body]
    return a == b


def _module_expr(ctx, name, coq_name, value, typ=Z):
    """translate `name = <expr>` at module level through the function translator (a nullary function)"""
    fn = ast.FunctionDef(name=name, args=ast.arguments(posonlyargs=[], args=[], vararg=None, kwonlyargs=[], kw_defaults=[], kwarg=None, defaults=[]),
                         body=[ast.Return(value=value)], decorator_list=[], lineno=value.lineno, col_offset=0)
    ast.fix_missing_locations(fn)
    tr = P.FunTr(ctx, fn, coq_name)
    text, _, rett, monad = tr.translate()
    if monad is not None or rett != typ:
        raise P.Unsupported(f"_pydatetime.py: module-level {name}: expected a pure {typ} expression")
    return text.replace(f"Definition {coq_name}  :", f"Definition {coq_name} :")


def _check_bindings(tree):
    """each name this file relies on is bound exactly once in the whole module and the tables are not mutated elsewhere"""
    fnames = [q for q, _, _ in FUNCS + FUNCS2]
    count = {n: 0 for n in MODULE_NAMES + fnames}
    for n in ast.walk(tree):
        if isinstance(n, ast.Name) and isinstance(n.ctx, (ast.Store, ast.Del)) and n.id in count:
            count[n.id] += 1
        if isinstance(n, (ast.FunctionDef, ast.ClassDef)) and n.name in count:
            count[n.name] += 1
        if isinstance(n, ast.Global) and any(x in count for x in n.names):
            raise P.Unsupported("_pydatetime.py: a `global` statement rebinding a calendar name")
        if isinstance(n, ast.Subscript) and isinstance(n.ctx, (ast.Store, ast.Del)) and isinstance(n.value, ast.Name) \
                and n.value.id in ("_DAYS_IN_MONTH", "_DAYS_BEFORE_MONTH"):
            raise P.Unsupported("_pydatetime.py: a month table is mutated by subscript assignment")
    bad = {k: v for k, v in count.items() if v != 1}
    if bad:
        raise P.Unsupported(f"_pydatetime.py: names not bound exactly once: {bad}")
    # method calls on the tables (append/insert/...): only the one `.append` of the recognised loop
    uses = [n for n in ast.walk(tree) if isinstance(n, ast.Attribute) and isinstance(n.value, ast.Name)
            and n.value.id in ("_DAYS_IN_MONTH", "_DAYS_BEFORE_MONTH")]
    if [(u.value.id, u.attr) for u in uses] != [("_DAYS_BEFORE_MONTH", "append")]:
        raise P.Unsupported("_pydatetime.py: a month table is used through an unexpected method")


def gen(_shared_ctx):
    rt = _probe()
    path = rt["file"]
    if not path.endswith("_pydatetime.py"):
        raise P.Unsupported(f"_pydatetime is not a Python source file: {path}")
    tree = ast.parse(open(path).read())
    _check_bindings(tree)
    ctx = P.Ctx()                      # private: nothing of pendulum's translation context is visible here and vice versa
    ctx.assert_exn = ASSERT_EXN
    ctx.int_boolop = True
    body = tree.body
    out = [HEADER % f"CPython's {path} (the module the staged interpreter {PY} imports as _pydatetime)"]
    out.append("(* `assert` -> Raise %s (AssertionError).  See tools/vlib/gens/g11_stdlib_cal.py for what is translated, what is a\n"
               "   recognised-shape template and what is transcribed by hand. *)\n" % ASSERT_EXN)

    def assign_index(name):
        idx = [i for i, n in enumerate(body) if isinstance(n, ast.Assign) and len(n.targets) == 1
               and isinstance(n.targets[0], ast.Name) and n.targets[0].id == name]
        if len(idx) != 1:
            raise P.Unsupported(f"_pydatetime.py: no unique module-level assignment of {name}")
        return idx[0]

    pins = []

    # --- MINYEAR / MAXYEAR
    for name in ("MINYEAR", "MAXYEAR"):
        v = _int_const(body[assign_index(name)].value)
        out.append(f"(* translated: {name} = {v} *)\nDefinition sl_{name} : Z := {zlit(v)}.")
        ctx.consts[name] = (f"sl_{name}", Z)
        pins.append((f"sl_{name}", zlit(rt[name])))

    # --- _DAYS_IN_MONTH
    i_dim = assign_index("_DAYS_IN_MONTH")
    node = body[i_dim].value
    if not isinstance(node, ast.List):
        raise P.Unsupported("_pydatetime.py: _DAYS_IN_MONTH is not a list display")
    dim_vals = [_int_const(x) for x in node.elts]
    out.append(f"\n(* translated: _DAYS_IN_MONTH = {ast.unparse(node)} *)\nDefinition sl_DAYS_IN_MONTH : list Z := {_zlist(dim_vals)}.")
    ctx.consts["_DAYS_IN_MONTH"] = ("sl_DAYS_IN_MONTH", "list")
    pins.append(("sl_DAYS_IN_MONTH", _zlist(rt["_DAYS_IN_MONTH"])))

    # --- _DAYS_BEFORE_MONTH: the recognised loop
    i_dbm = assign_index("_DAYS_BEFORE_MONTH")
    loop = body[i_dbm:i_dbm + 4]
    if i_dbm != i_dim + 1 or not _same_shape(loop, DBM_LOOP_SHAPE):
        raise P.Unsupported("_pydatetime.py: the statements that build _DAYS_BEFORE_MONTH do not have the recognised shape")
    init_list = [_int_const(x) for x in loop[0].value.elts]
    init_dbm = _int_const(loop[1].value)
    sl = loop[2].iter.slice
    if not (isinstance(sl, ast.Slice) and sl.upper is None and sl.step is None):
        raise P.Unsupported("_pydatetime.py: unexpected slice in the _DAYS_BEFORE_MONTH loop")
    start = _int_const(sl.lower)
    if start < 0:
        raise P.Unsupported("_pydatetime.py: negative slice start")
    shown = "\n".join(ast.unparse(x) for x in loop[:3]).replace("\n", "\n     ")
    out.append("\n(* TEMPLATE for the recognised module-level loop\n     " + shown
               + "\n   (list.append = snoc; the slice [k:] = skipn k) *)\n"
               "Fixpoint sl_dbm_loop (rest acc : list Z) (v_dbm : Z) : list Z :=\n"
               "  match rest with\n  | [] => acc\n  | v_dim :: rest' => sl_dbm_loop rest' (acc ++ [v_dbm]) (v_dbm + v_dim)\n  end.\n"
               f"Definition sl_DAYS_BEFORE_MONTH : list Z := sl_dbm_loop (skipn {start} sl_DAYS_IN_MONTH) {_zlist(init_list)} {zlit(init_dbm)}.")
    ctx.consts["_DAYS_BEFORE_MONTH"] = ("sl_DAYS_BEFORE_MONTH", "list")
    pins.append(("sl_DAYS_BEFORE_MONTH", _zlist(rt["_DAYS_BEFORE_MONTH"])))

    # --- the functions up to _ymd2ord
    out.append("")
    for q, coq, argt in FUNCS:
        P.translate_function(ctx, path, q, coq_name=coq, argtypes=argt)
    out += ctx.out
    ctx.out.clear()

    # --- _DI400Y, _DI100Y, _DI4Y and the module-level asserts that follow them
    i0 = assign_index("_DI400Y")
    for k, name in enumerate(("_DI400Y", "_DI100Y", "_DI4Y")):
        if assign_index(name) != i0 + k:
            raise P.Unsupported("_pydatetime.py: _DI400Y/_DI100Y/_DI4Y are not consecutive")
        val = body[i0 + k].value
        cname = "sl" + name
        out.append(f"(* translated: {name} = {ast.unparse(val)} *)\n" + _module_expr(ctx, name, cname, val))
        ctx.consts[name] = (cname, Z)
        pins.append((cname, zlit(rt[name])))
    j = i0 + 3
    na = 0
    while j < len(body) and isinstance(body[j], ast.Assert):
        na += 1
        out.append(f"(* translated: module-level {ast.unparse(body[j])} *)\n"
                   + _module_expr(ctx, f"assert{na}", f"sl_module_assert_{na}", body[j].test, B)
                   + f"Example sl_module_assert_{na}_holds : sl_module_assert_{na} = true. Proof. vm_compute. reflexivity. Qed.\n")
        j += 1

    # --- hand-transcribed primitives
    cls = next((n for n in body if isinstance(n, ast.ClassDef) and n.name == "IsoCalendarDate"), None)
    alias = body[assign_index("_IsoCalendarDate")].value
    if cls is None or not (isinstance(alias, ast.Name) and alias.id == "IsoCalendarDate") \
            or [ast.unparse(b) for b in cls.bases] != ["tuple"]:
        raise P.Unsupported("_pydatetime.py: _IsoCalendarDate is not the tuple subclass IsoCalendarDate")
    new = [n for n in cls.body if isinstance(n, ast.FunctionDef) and n.name == "__new__"]
    if len(new) != 1 or not _same_shape(new, ISOCAL_NEW_SHAPE) or any(
            isinstance(n, ast.FunctionDef) and n.name in ("__init__", "__getitem__", "__iter__", "__eq__") for n in cls.body):
        raise P.Unsupported("_pydatetime.py: IsoCalendarDate.__new__ is not `super().__new__(cls, (year, week, weekday))`")
    out.append("(* BY HAND: operator.index on an int is the identity; the named tuple _IsoCalendarDate(year, week, weekday) is the triple\n"
               "   (IsoCalendarDate.__new__ checked to be `super().__new__(cls, (year, week, weekday))`);\n"
               "   a date object is the record of its slots: self._year/_month/_day -> d_year/d_month/d_day of Lib.PyBase.pdate *)\n"
               "Definition sl_index (x : Z) : Z := x.\n"
               "Definition sl_IsoCalendarDate (y w d : Z) : Z * Z * Z := (y, w, d).\n")
    ctx.funcs["_index"] = ("sl_index", [Z], Z, None)
    ctx.funcs["_IsoCalendarDate"] = ("sl_IsoCalendarDate", [Z, Z, Z], (Z, Z, Z), None)
    dcls = next((n for n in body if isinstance(n, ast.ClassDef) and n.name == "date"), None)
    slots = next((ast.unparse(n.value) for n in (dcls.body if dcls else []) if isinstance(n, ast.Assign)
                  and ast.unparse(n.targets[0]) == "__slots__"), None)
    if slots is None or not slots.startswith("('_year', '_month', '_day'"):
        raise P.Unsupported("_pydatetime.py: class date does not keep its fields in the slots _year, _month, _day")
    ctx.attrs.update({"_year": ("d_year", Z), "_month": ("d_month", Z), "_day": ("d_day", Z)})

    # --- the remaining functions; _isoweek1monday is defined at the end of the module but is used by the others
    for q, coq, argt in FUNCS2:
        P.translate_function(ctx, path, q, coq_name=coq, argtypes=argt)
    for m in METHODS:
        coq = "sl_date_" + m
        P.translate_function(ctx, path, "date." + m, coq_name=coq, self_type="pdate", register_as="date." + m)
        _, _, rett, monad = ctx.funcs["date." + m]
        ctx.methods[m] = (coq, rett, monad)
    out += ctx.out
    ctx.out.clear()

    # --- pins against the running interpreter
    out.append("(* PINS: the values the staged interpreter reports for the same names at generation time *)")
    for k, (cname, val) in enumerate(pins):
        out.append(f"Example sl_pin_{k} : {cname} = {val}. Proof. vm_compute. reflexivity. Qed.")
    return "\n".join(out) + "\n"


def steps(ctx):
    return [("StdlibCal.v", lambda: gen(ctx))]
