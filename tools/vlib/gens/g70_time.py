"""C20 — Gen/TimeArith.v: the integer core of pendulum.Time arithmetic, translated from /repo on every run.

Translated (py2gallina on statements taken from the source AST):
  helpers.add_duration   the sign-aware carry normalisation (every `if abs(x) > N:` block between `days += weeks * 7` and
                         `year = dt.year + years`), one Gallina function per block + their composition in source order
  Time.diff              the us1/us2 totals and the `us2 - us1` argument of the returned Duration
  Time.closest/farthest  whole function (rebuild of the arguments and `.diff(..).in_seconds()` are named model primitives)
  Time.add_timedelta / subtract_timedelta   the `delta.days` guard and the keyword arguments handed to add()/subtract()
Checked for shape only (exact text; any edit fails closed as a broken translator tie):
  Time.add / Time.subtract (EPOCH.at(..).add(..).time()), Time.__add__/__sub__/__rsub__, the non-integer glue of diff and add_duration.
A private Ctx is used (attribute names such as `hour`/`days` must not leak into other generators); constants come from the shared one.
"""
import ast

from .. import py2gallina as P
from ..gen import HEADER, src

Z = P.Z


def _unparse_body(fn):
    body = fn.body
    if body and isinstance(body[0], ast.Expr) and isinstance(body[0].value, ast.Constant) and isinstance(body[0].value.value, str):
        body = body[1:]
    return [ast.unparse(s) for s in body]


def _expect(what, got, want):
    if got != want:
        raise P.Unsupported(f"{what} is no longer the code that coq/Model/TimeOfDay.v models: got {got!r}, expected {want!r}")


def _names(nodes, ctxtype):
    out = []
    for s in nodes:
        for n in ast.walk(s):
            if isinstance(n, ast.Name) and isinstance(n.ctx, ctxtype) and n.id not in out:
                out.append(n.id)
    return out


def _mkfn(name, params, body):
    fn = ast.FunctionDef(name=name, args=ast.arguments(posonlyargs=[], args=[ast.arg(arg=p) for p in params], kwonlyargs=[],
                                                       kw_defaults=[], defaults=[]), body=body, decorator_list=[], lineno=1, col_offset=0)
    ast.fix_missing_locations(fn)
    return fn


def _emit(ctx, fn, coq_name, origin, **kw):
    tr = P.FunTr(ctx, fn, coq_name, **kw)
    text, argt, rett, monad = tr.translate()
    ctx.out.append(f"(* translated from {origin} *)\n" + text)
    ctx.funcs[fn.name] = (coq_name, argt, rett, monad)
    return argt, rett, monad


# ----------------------------------------------------------------------------- helpers.add_duration normalisation
def gen_add_duration_norm(ctx):
    path = src("helpers.py")
    tree = ast.parse(open(path).read())
    fn = P.find_function(tree, "add_duration")
    params = [a.arg for a in fn.args.args]
    _expect("helpers.add_duration parameters", params, ["dt", "years", "months", "weeks", "days", "hours", "minutes", "seconds", "microseconds"])
    body = fn.body[1:] if isinstance(fn.body[0], ast.Expr) else fn.body
    texts = [ast.unparse(s) for s in body]
    _expect("helpers.add_duration: first statement", texts[0], "days += weeks * 7")
    _expect("helpers.add_duration: date guard", texts[1],
            "if isinstance(dt, date) and (not isinstance(dt, datetime)) and any([hours, minutes, seconds, microseconds]):\n"
            "    raise RuntimeError('Time elements cannot be added to a date instance.')")
    try:
        stop = texts.index("year = dt.year + years")
    except ValueError:
        raise P.Unsupported("helpers.add_duration: statement `year = dt.year + years` not found")
    # the tail (date part with years = months = 0, then dt + timedelta(...)) is modelled by hand: exact text
    _expect("helpers.add_duration: tail", texts[stop:], [
        "year = dt.year + years", "month = dt.month",
        "if months:\n    month += months\n    if month > 12:\n        year += 1\n        month -= 12\n    elif month < 1:\n        year -= 1\n        month += 12",
        "day = min(DAYS_PER_MONTHS[int(is_leap(year))][month], dt.day)",
        "dt = dt.replace(year=year, month=month, day=day)",
        "return dt + timedelta(days=days, hours=hours, minutes=minutes, seconds=seconds, microseconds=microseconds)"])
    sign = P.find_function(tree, "_sign")
    _expect("helpers._sign", _unparse_body(sign), ["return int(copysign(1, x))"])
    ctx.funcs["_sign"] = ("py_sign", [Z], Z, None)
    order = [p for p in params if p not in ("dt", "weeks")]
    steps = []
    for s in body[2:stop]:
        ok = (isinstance(s, ast.If) and not s.orelse and isinstance(s.test, ast.Compare) and len(s.test.ops) == 1
              and isinstance(s.test.ops[0], ast.Gt) and isinstance(s.test.left, ast.Call) and isinstance(s.test.left.func, ast.Name)
              and s.test.left.func.id == "abs" and len(s.test.left.args) == 1 and isinstance(s.test.left.args[0], ast.Name)
              and isinstance(s.test.comparators[0], ast.Constant))
        if not ok:
            raise P.Unsupported(f"helpers.add_duration: unexpected statement in the normalisation part: {ast.unparse(s)[:80]}")
        var = s.test.left.args[0].id
        assigned = _names(s.body, ast.Store)
        carried = [p for p in order if p in assigned]
        reads = [p for p in order if p in _names([s], ast.Load) and p not in carried]
        if var not in carried or reads:
            raise P.Unsupported(f"helpers.add_duration: normalisation of {var} has an unexpected data flow")
        ret = ast.Return(value=ast.Tuple(elts=[ast.Name(id=p, ctx=ast.Load()) for p in carried], ctx=ast.Load()))
        f = _mkfn("add_duration_norm_" + var, carried, [ast.If(test=s.test, body=list(s.body) + [ret], orelse=[]), ret])
        _emit(ctx, f, "py_add_duration_norm_" + var, f"src/pendulum/helpers.py :: add_duration, the block `if {ast.unparse(s.test)}:`",
              argtypes={p: Z for p in carried})
        steps.append((var, carried))
    _expect("helpers.add_duration: normalised units in order", [v for v, _ in steps], ["microseconds", "seconds", "minutes", "hours", "months"])
    lines = ["(* the blocks above composed in source order *)",
             "Definition py_add_duration_norm " + " ".join(f"(v_{p} : Z)" for p in order) + " : " + " * ".join("Z" for _ in order) + " :="]
    for var, carried in steps:
        pat = ", ".join("v_" + p for p in carried)
        lines.append(f"  let '({pat}) := py_add_duration_norm_{var} " + " ".join("v_" + p for p in carried) + " in")
    lines.append("  (" + ", ".join("v_" + p for p in order) + ").\n")
    ctx.out.append("\n".join(lines))


# ----------------------------------------------------------------------------- Time
TIME_ADD_BODY = ["from pendulum.datetime import DateTime",
                 "return DateTime.EPOCH.at(self.hour, self.minute, self.second, self.microsecond)"
                 ".{m}(hours=hours, minutes=minutes, seconds=seconds, microseconds=microseconds).time()"]
UNITS = ["hours", "minutes", "seconds", "microseconds"]
REBUILD = "self.__class__({0}.hour, {0}.minute, {0}.second, {0}.microsecond)"


def gen_time(ctx):
    path = src("time.py")
    tree = ast.parse(open(path).read())
    ctx.attrs.update({"hour": ("t_hour", Z), "minute": ("t_minute", Z), "second": ("t_second", Z), "microsecond": ("t_microsecond", Z),
                      "days": ("td_days", Z), "seconds": ("td_seconds", Z), "microseconds": ("td_microseconds", Z)})
    # --- add / subtract: shape only
    for m in ("add", "subtract"):
        fn = P.find_function(tree, "Time." + m)
        _expect(f"Time.{m} parameters", [a.arg for a in fn.args.args], ["self"] + UNITS)
        _expect(f"Time.{m} defaults", [ast.unparse(d) for d in fn.args.defaults], ["0"] * 4)
        _expect(f"Time.{m}", _unparse_body(fn), [TIME_ADD_BODY[0], TIME_ADD_BODY[1].format(m=m)])
    # DateTime.subtract negates every unit, DateTime.at/time keep the four fields (modelled by hand)
    dtree = ast.parse(open(src("datetime.py")).read())
    _expect("DateTime.subtract", _unparse_body(P.find_function(dtree, "DateTime.subtract")),
            ["return self.add(years=-years, months=-months, weeks=-weeks, days=-days, hours=-hours, minutes=-minutes, "
             "seconds=-seconds, microseconds=-microseconds)"])
    _expect("DateTime.time", _unparse_body(P.find_function(dtree, "DateTime.time")),
            ["return Time(self.hour, self.minute, self.second, self.microsecond, fold=self.fold)"])
    _expect("DateTime.at", _unparse_body(P.find_function(dtree, "DateTime.at")),
            ["return self.set(hour=hour, minute=minute, second=second, microsecond=microsecond)"])
    # --- add_timedelta / subtract_timedelta: guard + keyword arguments
    for m, callee in (("add_timedelta", "add"), ("subtract_timedelta", "subtract")):
        fn = P.find_function(tree, "Time." + m)
        _expect(f"Time.{m} parameters", [a.arg for a in fn.args.args], ["self", "delta"])
        body = fn.body[1:] if isinstance(fn.body[0], ast.Expr) else list(fn.body)
        last = body[-1]
        ok = (isinstance(last, ast.Return) and isinstance(last.value, ast.Call) and ast.unparse(last.value.func) == "self." + callee
              and not last.value.args and all(k.arg in UNITS for k in last.value.keywords)
              and len({k.arg for k in last.value.keywords}) == len(last.value.keywords))
        if not ok:
            raise P.Unsupported(f"Time.{m}: the final statement is not `return self.{callee}(<unit>=...)`: {ast.unparse(last)[:90]}")
        kw = {k.arg: k.value for k in last.value.keywords}
        tup = ast.Tuple(elts=[kw.get(u, ast.Constant(value=0)) for u in UNITS], ctx=ast.Load())
        f = _mkfn(f"Time_{m}_args", ["delta"], body[:-1] + [ast.Return(value=tup)])
        _emit(ctx, f, f"py_Time_{m}_args", f"src/pendulum/time.py :: Time.{m} (guard; the tuple is (hours, minutes, seconds, microseconds) passed to self.{callee})",
              argtypes={"delta": "ptd"})
    # --- operators: shape only
    _expect("Time.__add__", _unparse_body(P.find_function(tree, "Time.__add__")),
            ["if not isinstance(other, timedelta):\n    return NotImplemented", "return self.add_timedelta(other)"])
    _expect("Time.__sub__", _unparse_body(P.find_function(tree, "Time.__sub__")),
            ["if not isinstance(other, (Time, time, timedelta)):\n    return NotImplemented",
             "if isinstance(other, timedelta):\n    return self.subtract_timedelta(other)",
             "if isinstance(other, time):\n    if other.tzinfo is not None:\n        raise TypeError('Cannot subtract aware times to or from Time.')\n"
             "    other = " + REBUILD.format("other"),
             "return other.diff(self, False)"])
    _expect("Time.__rsub__", _unparse_body(P.find_function(tree, "Time.__rsub__")),
            ["if not isinstance(other, (Time, time)):\n    return NotImplemented",
             "if isinstance(other, time):\n    if other.tzinfo is not None:\n        raise TypeError('Cannot subtract aware times to or from Time.')\n"
             "    other = " + REBUILD.format("other"),
             "return other.__sub__(self)"])
    # --- diff
    fn = P.find_function(tree, "Time.diff")
    _expect("Time.diff parameters", [a.arg for a in fn.args.args], ["self", "dt", "abs"])
    body = fn.body[1:] if isinstance(fn.body[0], ast.Expr) else list(fn.body)
    texts = [ast.unparse(s) for s in body]
    if len(body) != 6:
        raise P.Unsupported(f"Time.diff: expected 6 statements, found {len(body)}")
    _expect("Time.diff: argument handling", texts[0], "if dt is None:\n    dt = pendulum.now().time()\nelse:\n    dt = " + REBUILD.format("dt"))
    _expect("Time.diff: class selection", texts[3:5], ["klass = Duration", "if abs:\n    klass = AbsoluteDuration"])
    for i, nm in ((1, "us1"), (2, "us2")):
        if not (isinstance(body[i], ast.Assign) and ast.unparse(body[i].targets[0]) == nm):
            raise P.Unsupported(f"Time.diff: statement {i + 1} does not assign {nm}")
    r = body[5]
    ok = (isinstance(r, ast.Return) and isinstance(r.value, ast.Call) and ast.unparse(r.value.func) == "klass" and not r.value.args
          and [k.arg for k in r.value.keywords] == ["microseconds"])
    if not ok:
        raise P.Unsupported("Time.diff: the result is not klass(microseconds=...): " + texts[5][:80])
    f = _mkfn("Time_diff_us", ["self", "dt"], [body[1], body[2], ast.Return(value=r.value.keywords[0].value)])
    _emit(ctx, f, "py_Time_diff_us", "src/pendulum/time.py :: Time.diff (us1, us2 and the microseconds= argument of the returned Duration)",
          self_type="ptime", argtypes={"dt": "ptime"})
    ctx.out.append("(* model primitives for the opaque expressions of closest/farthest:\n"
                   "   self.__class__(x.hour, x.minute, x.second, x.microsecond) and self.diff(x).in_seconds()\n"
                   "   (AbsoluteDuration(microseconds=D).in_seconds() = int(abs(D / 1e6)), exact below one day) *)\n"
                   "Definition time_rebuild (x : ptime) : ptime := mkT (t_hour x) (t_minute x) (t_second x) (t_microsecond x).\n"
                   "Definition abs_diff_in_seconds (self x : ptime) : Z := Z.abs (py_Time_diff_us self x) / 1000000.\n"
                   "(* self.diff(x).total_seconds(): the correctly rounded |D| / 10^6, strictly monotone in |D| below one day,\n"
                   "   so comparing two of these floats is comparing the integers |D| (form used by the proposed fix) *)\n"
                   "Definition abs_diff_total_us (self x : ptime) : Z := Z.abs (py_Time_diff_us self x).\n")
    # --- closest / farthest
    for v in ("dt1", "dt2"):
        ctx.opaque[REBUILD.format(v)] = (f"time_rebuild v_{v}", "ptime")
        ctx.opaque[f"self.diff({v}).in_seconds()"] = ("abs_diff_in_seconds {self} v_" + v, Z)
        ctx.opaque[f"self.diff({v}).total_seconds()"] = ("abs_diff_total_us {self} v_" + v, Z)
    for m in ("closest", "farthest"):
        fn = P.find_function(tree, "Time." + m)
        tr = P.FunTr(ctx, fn, "py_Time_" + m, self_type="ptime", argtypes={"dt1": "ptime", "dt2": "ptime"})
        text, argt, rett, monad = tr.translate()
        if rett != "ptime" or monad is not None:
            raise P.Unsupported(f"Time.{m}: unexpected result type")
        ctx.out.append(f"(* translated from src/pendulum/time.py :: Time.{m} *)\n" + text)


def gen_time_arith(shared):
    ctx = P.Ctx()
    ctx.consts = shared.consts          # filled by Constants.v's step, which runs before this one
    if "USECS_PER_SEC" not in ctx.consts:
        raise P.Unsupported("constants.py was not translated (USECS_PER_SEC unknown)")
    gen_add_duration_norm(ctx)
    gen_time(ctx)
    return (HEADER % "src/pendulum/helpers.py (add_duration), src/pendulum/time.py (Time)"
            + "From PV Require Import Gen.Constants Model.TimeBase.\n\n" + "\n".join(ctx.out))


def steps(ctx):
    return [("TimeArith.v", lambda: gen_time_arith(ctx))]
