"""C14 — Gen/Reduce.v: what pickle / copy / deepcopy are handed by the pendulum value classes, read from the class bodies.

For DateTime, Date, Time, Duration, AbsoluteDuration, Interval, Timezone, FixedTimezone (data only; coq/Model/Pickle.v interprets it):
  <C>_mro        the C3 linearisation of the class over the pendulum classes and the native bases (datetime, date, time, timedelta,
                 ZoneInfo, tzinfo, object; mixins/ABC/Generic are checked to define none of the protocol names)
  <C>_resolve    for each protocol name (__reduce_ex__, __reduce__, __copy__, __deepcopy__, __getstate__, __setstate__, __getnewargs__,
                 __getnewargs_ex__, __getinitargs__, __new__, __init__) the first class of the MRO that defines it
  <C>_state      when __reduce_ex__ is pendulum's `return self.__class__, self.<m>(protocol)`: the attribute names of the tuple that
                 <m> (resolved through the MRO) returns, and <C>_state_swap: the `if self.a and self.b: x, y = y, x` it performs, if any
  <C>_deepcopy_pos / _kw   the `self.__class__(self.a, ..., k=self.b, ...)` call of a pendulum __deepcopy__
  <C>_getinitargs          the attribute tuple of __getinitargs__
  <C>_params     parameter names of the pendulum-defined __new__ / __init__ the arguments are fed to
Every other shape raises Unsupported (fail closed: Gen/Reduce.v then does not compile and C14's proofs and model stop building)."""
import ast

from .. import py2gallina as P
from ..gen import HEADER, src, coq_string

CLASSES = [("Date", "date.py"), ("DateTime", "datetime.py"), ("Time", "time.py"), ("Duration", "duration.py"),
           ("AbsoluteDuration", "duration.py"), ("Interval", "interval.py"), ("Timezone", "tz/timezone.py"),
           ("FixedTimezone", "tz/timezone.py")]
AUX = {"FormattableMixin": "mixins/default.py", "PendulumTimezone": "tz/timezone.py"}      # must not define protocol names
PROTO = ["__reduce_ex__", "__reduce__", "__copy__", "__deepcopy__", "__getstate__", "__setstate__", "__getnewargs__",
         "__getnewargs_ex__", "__getinitargs__", "__new__", "__init__"]
# how a base is written in the class statement -> canonical name
BASE_NAMES = {"date": "date", "datetime.datetime": "datetime", "time": "time", "timedelta": "timedelta", "zoneinfo.ZoneInfo": "ZoneInfo",
              "_datetime.tzinfo": "tzinfo", "Generic[_T]": "Generic", "ABC": "ABC", "Date": "Date", "Duration": "Duration",
              "FormattableMixin": "FormattableMixin", "PendulumTimezone": "PendulumTimezone"}
# the native classes: bases and which protocol names CPython's implementation defines (trusted; Model/Pickle.v gives their meaning)
NATIVE_BASES = {"datetime": ["date"], "date": ["object"], "time": ["object"], "timedelta": ["object"], "ZoneInfo": ["tzinfo"],
                "tzinfo": ["object"], "Generic": ["object"], "ABC": ["object"], "object": []}
NATIVE_DEFINES = {"datetime": ["__reduce_ex__", "__reduce__", "__new__"], "date": ["__reduce__", "__new__"],
                  "time": ["__reduce_ex__", "__reduce__", "__new__"], "timedelta": ["__reduce__", "__new__"],
                  "ZoneInfo": ["__reduce__", "__new__"], "tzinfo": ["__reduce__", "__new__"], "Generic": [], "ABC": [],
                  "object": ["__reduce_ex__", "__reduce__", "__getstate__", "__new__", "__init__"]}


def _classdef(rel, name):
    tree = ast.parse(open(src(rel)).read())
    found = [n for n in ast.walk(tree) if isinstance(n, ast.ClassDef) and n.name == name]
    if len(found) != 1:
        raise P.Unsupported(f"class {name} not found exactly once in {rel}")
    return found[0]


def _methods(cd):
    """name -> FunctionDef for plain `def`s directly in the class body; any other way of binding a protocol name is refused."""
    out = {}
    for st in cd.body:
        if isinstance(st, (ast.FunctionDef, ast.AsyncFunctionDef)):
            if st.name in out and st.name in PROTO + ["_getstate", "_get_state"]:
                raise P.Unsupported(f"{cd.name}.{st.name} defined twice")
            if st.decorator_list and st.name in PROTO + ["_getstate", "_get_state"]:
                raise P.Unsupported(f"{cd.name}.{st.name} is decorated")
            out[st.name] = st
        else:
            for n in ast.walk(st):
                if isinstance(n, ast.Name) and isinstance(n.ctx, ast.Store) and (n.id in PROTO or n.id in ("_getstate", "_get_state", "__slots__")):
                    raise P.Unsupported(f"{cd.name} binds {n.id} by a statement that is not a plain def")
                if isinstance(n, (ast.FunctionDef, ast.AsyncFunctionDef)) and n.name in PROTO:
                    raise P.Unsupported(f"{cd.name} defines {n.name} conditionally")
    return out


def _c3(name, bases_of):
    def merge(seqs):
        res = []
        seqs = [list(s) for s in seqs if s]
        while seqs:
            for s in seqs:
                h = s[0]
                if not any(h in t[1:] for t in seqs):
                    break
            else:
                raise P.Unsupported("inconsistent MRO for " + name)
            res.append(h)
            seqs = [[x for x in s if x != h] for s in seqs]
            seqs = [s for s in seqs if s]
        return res
    bs = bases_of(name)
    return [name] + merge([_c3(b, bases_of) for b in bs] + [list(bs)])


def _self_attr(e, env=None):
    if isinstance(e, ast.Attribute) and isinstance(e.value, ast.Name) and e.value.id == "self" and isinstance(e.ctx, ast.Load):
        return e.attr
    if env is not None and isinstance(e, ast.Name) and e.id in env:
        return env[e.id]
    raise P.Unsupported("expression is not `self.<attr>` (or a local bound to one): " + ast.unparse(e))


def _body(fn):
    b = fn.body
    if b and isinstance(b[0], ast.Expr) and isinstance(b[0].value, ast.Constant) and isinstance(b[0].value.value, str):
        b = b[1:]
    return b


def _params(fn, first):
    a = fn.args
    if a.posonlyargs or a.vararg or a.kwarg or a.kwonlyargs:
        raise P.Unsupported(f"{fn.name}: unsupported parameter kinds")
    names = [x.arg for x in a.args]
    if not names or names[0] != first:
        raise P.Unsupported(f"{fn.name}: first parameter is not {first}")
    return names[1:], len(a.defaults)


def _state_tuple(fn):
    """Symbolic reading of a _getstate-like method: straight-line `x = self.a`, `x, y = self.a, self.b`, one optional
    `if self.c and self.d: x, y = y, x`, then `return <tuple of locals / self attributes>`."""
    names, _ = _params(fn, "self")
    env, swap = {}, None
    body = _body(fn)
    if not body or not isinstance(body[-1], ast.Return) or body[-1].value is None:
        raise P.Unsupported(f"{fn.name}: does not end in `return <tuple>`")
    for st in body[:-1]:
        if isinstance(st, ast.Assign) and len(st.targets) == 1:
            t, v = st.targets[0], st.value
            if isinstance(t, ast.Name):
                env[t.id] = _self_attr(v, env)
            elif isinstance(t, ast.Tuple) and isinstance(v, ast.Tuple) and len(t.elts) == len(v.elts) and all(isinstance(x, ast.Name) for x in t.elts):
                vals = [_self_attr(x, env) for x in v.elts]
                for x, val in zip(t.elts, vals):
                    env[x.id] = val
            else:
                raise P.Unsupported(f"{fn.name}: unsupported assignment {ast.unparse(st)}")
        elif isinstance(st, ast.If) and not st.orelse and swap is None:
            tst = st.test
            conds = [_self_attr(x) for x in tst.values] if isinstance(tst, ast.BoolOp) and isinstance(tst.op, ast.And) else [_self_attr(tst)]
            if not (len(st.body) == 1 and isinstance(st.body[0], ast.Assign) and len(st.body[0].targets) == 1):
                raise P.Unsupported(f"{fn.name}: unsupported conditional {ast.unparse(st)}")
            t, v = st.body[0].targets[0], st.body[0].value
            if not (isinstance(t, ast.Tuple) and isinstance(v, ast.Tuple) and len(t.elts) == 2 and len(v.elts) == 2
                    and all(isinstance(x, ast.Name) for x in t.elts + v.elts) and t.elts[0].id == v.elts[1].id and t.elts[1].id == v.elts[0].id
                    and t.elts[0].id != t.elts[1].id):
                raise P.Unsupported(f"{fn.name}: conditional is not a swap of two locals: {ast.unparse(st)}")
            swap = (conds, t.elts[0].id, t.elts[1].id)
        else:
            raise P.Unsupported(f"{fn.name}: unsupported statement {ast.unparse(st)}")
    rv = body[-1].value
    if not isinstance(rv, ast.Tuple):
        raise P.Unsupported(f"{fn.name}: return value is not a tuple display")
    if swap is None:
        return [_self_attr(x, env) for x in rv.elts], None
    # the swap exchanges the bindings of two locals: find their positions in the returned tuple
    conds, a, b = swap
    pos = {}
    fields = []
    for i, x in enumerate(rv.elts):
        if isinstance(x, ast.Name) and x.id in (a, b):
            if x.id in pos:
                raise P.Unsupported(f"{fn.name}: swapped local returned twice")
            pos[x.id] = i
        fields.append(_self_attr(x, env))
    if set(pos) != {a, b}:
        raise P.Unsupported(f"{fn.name}: swapped locals are not both returned")
    # no assignment may follow the swap other than the return (checked: swap is followed only by statements handled above;
    # require it to be the last statement before return)
    if not isinstance(body[-2], ast.If):
        raise P.Unsupported(f"{fn.name}: statements between the swap and the return")
    return fields, (conds, pos[a], pos[b])


def _is_self_class(e):
    return isinstance(e, ast.Attribute) and e.attr == "__class__" and isinstance(e.value, ast.Name) and e.value.id == "self"


def _single_return(fn):
    b = _body(fn)
    if len(b) != 1 or not isinstance(b[0], ast.Return) or b[0].value is None:
        raise P.Unsupported(f"{fn.name}: body is not a single return")
    return b[0].value


def _deepcopy_of_state(name, fn, memo, state_method, nstate, module):
    """The second shape of a pendulum __deepcopy__ (Interval):
         t1, ..., tn = self.<state method>()          # the method __reduce_ex__ takes its state from, called with its defaults
         return self.__class__(a1, ..., an)           # a_i is `t_i` or `copy.deepcopy(t_i, <memo>)`, in order, nothing else
    Returns the list of flags `a_i is deep-copied`, or None when the body is not of this shape (the caller then tries the other shape)."""
    b = _body(fn)
    if len(b) != 2 or not isinstance(b[0], ast.Assign) or not isinstance(b[1], ast.Return) or b[1].value is None:
        return None
    if state_method is None:
        raise P.Unsupported(f"{name}.__deepcopy__ unpacks a state but __reduce_ex__ is not pendulum's")
    m, mfn = state_method
    asg, rv = b[0], b[1].value
    if not (len(asg.targets) == 1 and isinstance(asg.targets[0], ast.Tuple) and all(isinstance(x, ast.Name) for x in asg.targets[0].elts)):
        raise P.Unsupported(f"{name}.__deepcopy__: unsupported assignment {ast.unparse(asg)}")
    locs = [x.id for x in asg.targets[0].elts]
    if len(set(locs)) != len(locs) or memo in locs or "self" in locs or "copy" in locs:
        raise P.Unsupported(f"{name}.__deepcopy__: locals {locs}")
    if ast.unparse(asg.value) != f"self.{m}()":
        raise P.Unsupported(f"{name}.__deepcopy__: state is not self.{m}(): {ast.unparse(asg.value)}")
    margs = mfn.args
    if len(margs.args) - 1 != len(margs.defaults):
        raise P.Unsupported(f"{name}.{m} cannot be called without arguments")
    if len(locs) != nstate:
        raise P.Unsupported(f"{name}.__deepcopy__ unpacks {len(locs)} values from a state of {nstate}")
    if not (isinstance(rv, ast.Call) and _is_self_class(rv.func)) or rv.keywords or len(rv.args) != len(locs):
        raise P.Unsupported(f"{name}.__deepcopy__ does not return self.__class__(<the state, in order>)")
    # `copy` must be the standard-library module, bound once, by a plain top-level import
    binds = [n for n in ast.walk(module) if (isinstance(n, ast.Name) and isinstance(n.ctx, ast.Store) and n.id == "copy")
             or (isinstance(n, (ast.Import, ast.ImportFrom)) and any((a.asname or a.name.split(".")[0]) == "copy" for a in n.names))
             or (isinstance(n, (ast.FunctionDef, ast.ClassDef)) and n.name == "copy") or (isinstance(n, ast.arg) and n.arg == "copy")]
    top = [n for n in module.body if isinstance(n, ast.Import) and [(a.name, a.asname) for a in n.names] == [("copy", None)]]
    if len(binds) != 1 or len(top) != 1 or binds[0] is not top[0]:
        raise P.Unsupported(f"{name}.__deepcopy__: `copy` is not bound exactly once by a top-level `import copy`")
    flags = []
    for loc, a in zip(locs, rv.args):
        if isinstance(a, ast.Name) and a.id == loc:
            flags.append(False)
        elif ast.unparse(a) == f"copy.deepcopy({loc}, {memo})":
            flags.append(True)
        else:
            raise P.Unsupported(f"{name}.__deepcopy__: argument {ast.unparse(a)} is neither {loc} nor copy.deepcopy({loc}, {memo})")
    return flags


def gen_reduce(ctx):
    cds = {n: _classdef(rel, n) for n, rel in CLASSES}
    cds.update({n: _classdef(rel, n) for n, rel in AUX.items()})
    mods = {n: ast.parse(open(src(rel)).read()) for n, rel in list(CLASSES) + list(AUX.items())}
    meths = {n: _methods(cd) for n, cd in cds.items()}
    for n in AUX:
        bad = [m for m in meths[n] if m in PROTO or m in ("_getstate", "_get_state")]
        if bad:
            raise P.Unsupported(f"{n} defines {bad}")

    def bases_of(n):
        if n in cds:
            out = []
            for b in cds[n].bases:
                t = ast.unparse(b)
                if t not in BASE_NAMES:
                    raise P.Unsupported(f"unknown base class {t} of {n}")
                out.append(BASE_NAMES[t])
            if cds[n].keywords:
                raise P.Unsupported(f"class keywords on {n}")
            return out or ["object"]
        if n in NATIVE_BASES:
            return NATIVE_BASES[n]
        raise P.Unsupported("unknown class " + n)

    def defines(cls, m):
        return (m in meths[cls]) if cls in meths else (m in NATIVE_DEFINES[cls])

    def resolve(mro, m):
        for c in mro:
            if defines(c, m):
                return c
        return ""

    out = [HEADER % "src/pendulum/{date,datetime,time,duration,interval,tz/timezone}.py (pickle / copy protocol methods)"]

    def sl(xs):
        return "[" + "; ".join(coq_string(x) for x in xs) + "]"

    for name, _rel in CLASSES:
        mro = _c3(name, bases_of)
        out.append(f"(* ---- {name} *)")
        out.append(f"Definition {name}_mro : list string := {sl(mro)}.")
        res = [(m, resolve(mro, m)) for m in PROTO]
        out.append(f"Definition {name}_resolve : list (string * string) :=\n  [" + "; ".join(f"({coq_string(m)}, {coq_string(c)})" for m, c in res) + "].")
        r = dict(res)
        # __reduce_ex__ written in pendulum: `return self.__class__, self.<m>(protocol)`
        state, swap, state_method = [], None, None
        if r["__reduce_ex__"] in meths:
            fn = meths[r["__reduce_ex__"]]["__reduce_ex__"]
            ps, _ = _params(fn, "self")
            if len(ps) != 1:
                raise P.Unsupported(f"{name}.__reduce_ex__ parameters")
            rv = _single_return(fn)
            if not (isinstance(rv, ast.Tuple) and len(rv.elts) == 2 and _is_self_class(rv.elts[0])):
                raise P.Unsupported(f"{name}.__reduce_ex__ does not return (self.__class__, state)")
            call = rv.elts[1]
            if not (isinstance(call, ast.Call) and isinstance(call.func, ast.Attribute) and isinstance(call.func.value, ast.Name)
                    and call.func.value.id == "self" and len(call.args) == 1 and not call.keywords
                    and isinstance(call.args[0], ast.Name) and call.args[0].id == ps[0]):
                raise P.Unsupported(f"{name}.__reduce_ex__ state is not self.<method>(protocol)")
            m = call.func.attr
            owner = next((c for c in mro if c in meths and m in meths[c]), None)
            if owner is None:
                raise P.Unsupported(f"{name}: state method {m} not found in the pendulum classes of the MRO")
            state, swap = _state_tuple(meths[owner][m])
            state_method = (m, meths[owner][m])
            # __reduce__ must defer to __reduce_ex__ (it is what copyreg / protocol-less callers use)
            if r["__reduce__"] in meths:
                rr = _single_return(meths[r["__reduce__"]]["__reduce__"])
                if ast.unparse(rr) != "self.__reduce_ex__(2)":
                    raise P.Unsupported(f"{name}.__reduce__ is not `return self.__reduce_ex__(2)`")
            else:
                raise P.Unsupported(f"{name}: __reduce_ex__ is pendulum's but __reduce__ is {r['__reduce__']}'s")
        elif r["__reduce__"] in meths:
            raise P.Unsupported(f"{name}: a pendulum __reduce__ without __reduce_ex__ is not modelled")
        out.append(f"Definition {name}_state : list string := {sl(state)}.")
        if swap is None:
            out.append(f"Definition {name}_state_swap : option (list string * Z * Z) := None.")
        else:
            out.append(f"Definition {name}_state_swap : option (list string * Z * Z) := Some ({sl(swap[0])}, {swap[1]}, {swap[2]}).")
        # __deepcopy__ written in pendulum: `return self.__class__(self.a, ..., k=self.b)`, or the state-based shape of _deepcopy_of_state
        pos, kw, deep_state = [], [], None
        if r["__deepcopy__"] in meths:
            fn = meths[r["__deepcopy__"]]["__deepcopy__"]
            ps, _ = _params(fn, "self")
            if len(ps) != 1:
                raise P.Unsupported(f"{name}.__deepcopy__ parameters")
            deep_state = _deepcopy_of_state(name, fn, ps[0], state_method, len(state), mods[r["__deepcopy__"]])
        if deep_state is not None:
            pass
        elif r["__deepcopy__"] in meths:
            rv = _single_return(fn)
            if not (isinstance(rv, ast.Call) and _is_self_class(rv.func)):
                raise P.Unsupported(f"{name}.__deepcopy__ does not return self.__class__(...)")
            for a in rv.args:
                if isinstance(a, ast.Starred):
                    raise P.Unsupported(f"{name}.__deepcopy__ uses *args")
                pos.append(_self_attr(a))
            for k in rv.keywords:
                if k.arg is None:
                    raise P.Unsupported(f"{name}.__deepcopy__ uses **kwargs")
                kw.append((k.arg, _self_attr(k.value)))
        elif r["__deepcopy__"]:
            raise P.Unsupported(f"{name}: __deepcopy__ from {r['__deepcopy__']}")
        out.append(f"Definition {name}_deepcopy_pos : list string := {sl(pos)}.")
        out.append(f"Definition {name}_deepcopy_kw : list (string * string) := [" + "; ".join(f"({coq_string(k)}, {coq_string(v)})" for k, v in kw) + "].")
        out.append(f"Definition {name}_deepcopy_state : option (list bool) := "
                   + ("None" if deep_state is None else "Some [" + "; ".join("true" if b else "false" for b in deep_state) + "]") + ".")
        for m in ("__copy__", "__getstate__", "__setstate__", "__getnewargs_ex__"):
            if r[m] in meths:
                raise P.Unsupported(f"{name}: pendulum defines {m}; not modelled")
        gia = []
        if r["__getinitargs__"] in meths:
            fn = meths[r["__getinitargs__"]]["__getinitargs__"]
            _params(fn, "self")
            rv = _single_return(fn)
            if not isinstance(rv, ast.Tuple):
                raise P.Unsupported(f"{name}.__getinitargs__ does not return a tuple display")
            gia = [_self_attr(x) for x in rv.elts]
        out.append(f"Definition {name}_getinitargs : list string := {sl(gia)}.")
        # constructor parameters (pendulum-defined __new__ / __init__)
        params, ndef = [], 0
        ctor = [(m, r[m]) for m in ("__new__", "__init__") if r[m] in meths]
        for m, c in ctor:
            ps, nd = _params(meths[c][m], "cls" if m == "__new__" else "self")
            if params and (ps, nd) != (params, ndef):
                raise P.Unsupported(f"{name}: __new__ and __init__ take different parameters")
            params, ndef = ps, nd
        out.append(f"Definition {name}_params : list string := {sl(params)}.")
        out.append(f"Definition {name}_params_defaults : Z := {ndef}.")
        out.append("")

    # Timezone.__new__ must hand its key unchanged to ZoneInfo.__new__ (the cached constructor)
    fn = meths["Timezone"].get("__new__")
    if fn is None:
        raise P.Unsupported("Timezone.__new__ missing")
    b = _body(fn)
    ok = (len(b) == 1 and isinstance(b[0], ast.Try) and len(b[0].body) == 1 and isinstance(b[0].body[0], ast.Return)
          and ast.unparse(b[0].body[0].value) == "super().__new__(cls, key)" and not b[0].orelse and not b[0].finalbody)
    if not ok:
        raise P.Unsupported("Timezone.__new__ is not `try: return super().__new__(cls, key) except ...`")
    out.append("Definition Timezone_new_forwards_key : bool := true.")
    # FixedTimezone.__init__: self._offset = offset; self._name = name (after the `if not name:` default)
    fn = meths["FixedTimezone"].get("__init__")
    if fn is None:
        raise P.Unsupported("FixedTimezone.__init__ missing")
    text = [ast.unparse(s) for s in _body(fn)]
    want_tail = ["self._name = name", "self._offset = offset", "self._utcoffset = _datetime.timedelta(seconds=offset)"]
    if text[-3:] != want_tail:
        raise P.Unsupported("FixedTimezone.__init__ no longer ends in the three attribute assignments Model/Pickle.v models")
    want_head = ["sign = '-' if offset < 0 else '+'", "minutes = offset / 60", "hour, minute = divmod(abs(int(minutes)), 60)",
                 "if not name:\n    name = f'{sign}{hour:02d}:{minute:02d}'"]
    if text[:-3] != want_head:
        raise P.Unsupported("FixedTimezone.__init__ default-name computation changed: " + repr(text[:-3]))
    out.append("Definition FixedTimezone_init_shape : bool := true.")
    # Interval.__new__/__init__ are modelled by hand (Model/Pickle.v interval_new); pin the statements that matter for the state
    iv = meths["Interval"]
    for m in ("__new__", "__init__"):
        if m not in iv:
            raise P.Unsupported(f"Interval.{m} missing")
    init_tail = [ast.unparse(s) for s in _body(iv["__init__"])[-6:]]
    want = ["self._invert = False",
            "if start > end:\n    self._invert = True\n    if absolute:\n        end, start = (start, end)\n        _end, _start = (_start, _end)",
            "self._absolute = absolute", "self._start: _T = start", "self._end: _T = end",
            "self._delta: PreciseDiff = precise_diff(_start, _end)"]
    if init_tail != want:
        raise P.Unsupported("Interval.__init__ tail changed: " + repr(init_tail))
    new_src = ast.unparse(iv["__new__"])
    for frag in ["if absolute and start > end:\n        end, start = (start, end)", "delta: timedelta = _end - _start",
                 "return super().__new__(cls, seconds=delta.total_seconds())"]:
        if frag not in new_src:
            raise P.Unsupported("Interval.__new__ changed: missing " + repr(frag))
    for prop, attr in (("start", "_start"), ("end", "_end")):
        cd = cds["Interval"]
        f = [s for s in cd.body if isinstance(s, ast.FunctionDef) and s.name == prop]
        if len(f) != 1 or [ast.unparse(d) for d in f[0].decorator_list] != ["property"] or ast.unparse(_single_return(f[0])) != "self." + attr:
            raise P.Unsupported(f"Interval.{prop} is not the plain property of {attr}")
    out.append("Definition Interval_ctor_shape : bool := true.")
    # accessors used by the state / deepcopy lists that are properties over private fields: pin the ones the model relies on
    # (DateTime.tz / .timezone = Model/Pickle.v `pendulum_tz`: None for a tzinfo that is not a pendulum Timezone / FixedTimezone,
    #  e.g. datetime.timezone.utc or zoneinfo.ZoneInfo(..) - a state / keyword list that names them drops such a tzinfo)
    dcd = cds["DateTime"]
    f = [s for s in dcd.body if isinstance(s, ast.FunctionDef) and s.name in ("tz", "timezone")]
    got = {s.name: [ast.unparse(x) for x in _body(s)] for s in f}
    if got != {"timezone": ["if not isinstance(self.tzinfo, (Timezone, FixedTimezone)):\n    return None", "return self.tzinfo"], "tz": ["return self.timezone"]}:
        raise P.Unsupported("DateTime.tz / timezone changed: " + repr(got))
    out.append("Definition DateTime_tz_shape : bool := true.")
    return "\n".join(out) + "\n"


def steps(ctx):
    return [("Reduce.v", lambda: gen_reduce(ctx))]
