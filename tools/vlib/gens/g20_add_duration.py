"""helpers.add_duration (integer path) translated onto the naive-datetime record of Spec/NativeDT.v."""
from .. import py2gallina as P
from ..gen import HEADER, src


def gen_add_duration(ctx: P.Ctx):
    path = src("helpers.py")
    sub = P.Ctx()
    sub.consts = ctx.consts
    sub.funcs = dict(ctx.funcs)
    sub.funcs["_sign"] = ("py_sign", [P.Z], P.Z, None)            # int(copysign(1, x)) on integers: Spec/NativeDT.py_sign
    sub.attrs = {"year": ("ndt_year", P.Z), "month": ("ndt_month", P.Z), "day": ("ndt_day", P.Z)}
    # named model primitives for the datetime-object operations (meaning: Spec/NativeDT.v)
    sub.opaque = {
        "isinstance(dt, date) and (not isinstance(dt, datetime)) and any([hours, minutes, seconds, microseconds])":
            ("(negb (n_isdt {dt})) && (negb ({hours} =? 0) || negb ({minutes} =? 0) || negb ({seconds} =? 0) || negb ({microseconds} =? 0))", P.B),
        "dt.replace(year=year, month=month, day=day)": ("ndt_replace_ymd {dt} {year} {month} {day}", ("result", "ndt")),
        "dt + timedelta(days=days, hours=hours, minutes=minutes, seconds=seconds, microseconds=microseconds)":
            ("ndt_add_td {dt} {days} {hours} {minutes} {seconds} {microseconds}", ("result", "ndt")),
    }
    P.translate_function(sub, path, "add_duration", argtypes={"dt": "ndt", "seconds": P.Z})
    text = HEADER % "src/pendulum/helpers.py" + "From PV Require Import Spec.Cal Spec.NativeDT Gen.Constants Gen.Helpers.\n\n" + "\n".join(sub.out)
    ctx.funcs["add_duration"] = sub.funcs["add_duration"]
    return text


def steps(ctx):
    return [("AddDuration.v", lambda: gen_add_duration(ctx))]
