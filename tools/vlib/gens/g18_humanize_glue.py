"""Gen/HumanizeGlue.v — pendulum's locale SESSION code translated from /repo on every run (property C18).

coq/Model/LocaleSession.v is the hand-written state machine over the configured locale (set_locale / get_locale / locale / Locale.load /
Locale.normalize_locale / the `locale is None -> get_locale()` default of format_diff); Proofs/HumanizeGlueFacts.v proves it EQUAL to this
translation (Props/C18.v model_is_code_*), and proves that Locale._cache is a TRANSPARENT memo instead of assuming it.

TRANSLATED: src/pendulum/locales/locale.py Locale.normalize_locale, Locale.load; src/pendulum/helpers.py locale, set_locale, get_locale, format_diff.
STATE: the module global pendulum._LOCALE and the class attribute Locale._cache are explicit values threaded through the functions
  (RECOGNISED REWRITES: `pendulum._LOCALE` -> the parameter st_; `pendulum._LOCALE = e` as the last statement -> the new state is returned;
  `cls._cache` -> the parameter cache_; `cls._cache[k] = v` -> cache_ = cache_set(cache_, k, v); every `return e` of a function that can touch the
  cache -> `return (e, cache_)`; a call statement of such a function rebinds cache_).
OTHER RECOGNISED SHAPES (anything else fails closed): cast(T, e) -> e; isinstance(locale, Locale) = False (ASSUMPTION: the argument is a str);
  re.match("([a-z]{2})[-_]([a-z]{2})", locale, re.I) -> the hand primitive re_match_locale; f"{a}_{b}" -> join_underscore a b;
  resources.files(__package__).joinpath(n) -> n (a path is its last component), .exists() -> dir_exists;
  the loop `while not locale_path.exists(): if actual_locale == locale: raise ValueError(..); actual_locale = actual_locale.split("_")[0]`
  directly after `actual_locale = locale` -> `if not locale_path.exists(): raise ValueError` (its first iteration raises: locale_path is not
  recomputed and actual_locale == locale holds on entry; both facts are checked on the source);
  import_module(f"pendulum.locales.{actual_locale}.locale") -> locale_module actual_locale, `.locale` of it -> itself; cls(name, data) -> the record;
  difference_formatter.format(...) -> g_fmt: the translated Locale.load then the hand model Model/DiffFormat.v format (the formatter is NOT translated).
HAND MODEL: coq/Model/HumanizeObj.v.
"""
import ast
import copy

from .. import py2gallina as P
from ..gen import HEADER, src
from .g13_stdlib_zone import Specialise
from .g15_tz_glue import _tr

Z, B = P.Z, P.B
S, LOC, CACHE, MATCH = "list", "gloc", "gcache", ("opt", "gmatch")
WHILE_SHAPE = ("while not locale_path.exists():\n    if actual_locale == locale:\n        raise ValueError(f'Locale [{locale}] does not exist.')\n"
               "    actual_locale = actual_locale.split('_')[0]")


def _name(i):
    return ast.Name(id=i, ctx=ast.Load())


class HRw(ast.NodeTransformer):
    def visit_Call(self, node):
        f = ast.unparse(node.func)
        if f == "import_module" and len(node.args) == 1 and ast.unparse(node.args[0]) == "f'pendulum.locales.{actual_locale}.locale'":
            return ast.copy_location(ast.Call(func=_name("_locale_module"), args=[_name("actual_locale")], keywords=[]), node)
        self.generic_visit(node)
        if f == "cast" and len(node.args) == 2 and not node.keywords:
            return node.args[1]
        return node

    def visit_JoinedStr(self, node):
        v = node.values
        if (len(v) == 3 and isinstance(v[0], ast.FormattedValue) and isinstance(v[2], ast.FormattedValue) and isinstance(v[1], ast.Constant)
                and v[1].value == "_" and v[0].conversion == -1 and v[2].conversion == -1 and v[0].format_spec is None and v[2].format_spec is None):
            return ast.copy_location(ast.Call(func=_name("_join_underscore"), args=[self.visit(v[0].value), self.visit(v[2].value)], keywords=[]), node)
        raise P.Unsupported(f"unrecognised f-string: {ast.unparse(node)}")

    def visit_Attribute(self, node):
        self.generic_visit(node)
        if ast.unparse(node) == "cls._cache":
            return ast.copy_location(_name("cache_"), node)
        if ast.unparse(node) == "pendulum._LOCALE" and isinstance(node.ctx, ast.Load):
            return ast.copy_location(_name("st_"), node)
        return node


def _thread_cache(fn):
    """cache_ becomes the first parameter; cache_[k] = v -> cache_ = _cache_set(cache_, k, v); return e -> return (e, cache_)"""
    class T(ast.NodeTransformer):
        def visit_Assign(self, node):
            self.generic_visit(node)
            t = node.targets[0]
            if len(node.targets) == 1 and isinstance(t, ast.Subscript) and ast.unparse(t.value) == "cache_":
                return ast.copy_location(ast.Assign(targets=[ast.Name(id="cache_", ctx=ast.Store())],
                                                    value=ast.Call(func=_name("_cache_set"), args=[_name("cache_"), t.slice, node.value], keywords=[])), node)
            return node

        def visit_Return(self, node):
            self.generic_visit(node)
            if node.value is None:
                raise P.Unsupported("bare return in a cache-threading function")
            return ast.copy_location(ast.Return(value=ast.Tuple(elts=[node.value, _name("cache_")], ctx=ast.Load())), node)
    fn = T().visit(fn)
    fn.args.args.insert(0, ast.arg(arg="cache_"))
    ast.fix_missing_locations(fn)
    return fn


def gen(_shared):
    loc_tree = ast.parse(open(src("locales/locale.py")).read())
    hlp_tree = ast.parse(open(src("helpers.py")).read())
    cls = next((n for n in loc_tree.body if isinstance(n, ast.ClassDef) and n.name == "Locale"), None)
    if cls is None or "_cache: ClassVar[dict[str, Locale]] = {}" not in [ast.unparse(n) for n in cls.body]:
        raise P.Unsupported("locale.py: Locale._cache is not the class-level dict")
    uses = [ast.unparse(n) for n in ast.walk(loc_tree) if isinstance(n, ast.Attribute) and n.attr == "_cache"]
    if sorted(uses) != ["cls._cache"] * 4:
        raise P.Unsupported(f"locale.py: Locale._cache is used outside Locale.load: {uses}")
    out = [HEADER % "src/pendulum/locales/locale.py, src/pendulum/helpers.py (locale session)"]
    out.append("From PV Require Import Model.LocaleBase Gen.Locales Model.DiffFormat Model.LocaleSession Model.HumanizeObj.\n"
               "(* See tools/vlib/gens/g18_humanize_glue.py: what is translated, how the mutable state is threaded, the recognised shapes. *)\n")
    c = P.Ctx()
    c.int_boolop = c.obj_fragment = c.conservative_exit = True
    c.cmpops[("Eq", S, S)] = "pstr_eqb {l} {r}"
    c.cmpops[("In", S, CACHE)] = "cache_has {r} {l}"
    c.truth[MATCH] = "match_truth {x}"
    c.kwmethods[("group", MATCH)] = ("match_group", ["n"], {}, [Z], S, None)
    c.kwmethods[("lower", S)] = ("lower", [], {}, [], S, None)
    c.kwmethods[("exists", S)] = ("dir_exists", [], {}, [], B, None)
    c.funcs["_join_underscore"] = ("join_underscore", [S, S], S, None)
    c.opaque["re.match('([a-z]{2})[-_]([a-z]{2})', locale, re.I)"] = ("re_match_locale {locale}", MATCH)

    # ---------------- Locale.normalize_locale
    fn = copy.deepcopy(P.find_function(loc_tree, "Locale.normalize_locale"))
    if [ast.unparse(d) for d in fn.decorator_list] != ["classmethod"]:
        raise P.Unsupported("normalize_locale is not a classmethod")
    fn.args.args = fn.args.args[1:]
    fn = HRw().visit(fn)
    ast.fix_missing_locations(fn)
    text, rett, monad = _tr(c, fn, "glue_normalize_locale", {"locale": S}, None, "translated from src/pendulum/locales/locale.py :: Locale.normalize_locale")
    if rett != S or monad is not None:
        raise P.Unsupported("normalize_locale: unexpected type")
    out.append(text)
    c.funcs["cls.normalize_locale"] = ("glue_normalize_locale", [S], S, None)

    # ---------------- Locale.load with the cache threaded
    sp = Specialise("Locale.load", {"isinstance(locale, Locale)": False})
    fn = sp.visit(copy.deepcopy(P.find_function(loc_tree, "Locale.load")))
    if sp.used != {"isinstance(locale, Locale)"}:
        raise P.Unsupported("Locale.load: the isinstance test disappeared")
    fn.args.args = fn.args.args[1:]
    body = [s for s in fn.body if not (isinstance(s, ast.Expr) and isinstance(s.value, ast.Constant))]
    idx = next((i for i, s in enumerate(body) if isinstance(s, ast.While)), None)
    if idx is None or idx < 2 or ast.unparse(body[idx]) != WHILE_SHAPE or ast.unparse(body[idx - 2]) != "actual_locale = locale" \
            or ast.unparse(body[idx - 1]) != "locale_path = cast(Path, resources.files(__package__).joinpath(actual_locale))":
        raise P.Unsupported("Locale.load: the existence loop does not have the recognised shape")
    body[idx] = ast.parse("if not locale_path.exists():\n    raise ValueError('does not exist')").body[0]
    fn.body = body
    fn = HRw().visit(fn)
    ast.fix_missing_locations(fn)
    fn = _thread_cache(fn)
    c.opaque["resources.files(__package__).joinpath(actual_locale)"] = ("{actual_locale}", S)
    c.opaque["cache_[locale]"] = ("cache_get {cache_} {locale}", LOC)
    c.funcs["_cache_set"] = ("cache_set", [CACHE, S, LOC], CACHE, None)
    c.funcs["_locale_module"] = ("locale_module", [S], "locale", None)
    c.funcs["cls"] = ("mkgloc", [S, "locale"], LOC, None)
    c.attrs["locale"] = ("(fun x : locale => x)", "locale")
    text, rett, monad = _tr(c, fn, "glue_Locale_load", {"cache_": CACHE, "locale": S}, None,
                            "translated from src/pendulum/locales/locale.py :: Locale.load (a str argument), Locale._cache threaded as cache_")
    if rett != (LOC, CACHE) or monad != "result":
        raise P.Unsupported(f"Locale.load: unexpected type {rett} {monad}")
    out.append(text)

    # ---------------- helpers.locale / set_locale / get_locale / format_diff
    imps = [ast.unparse(n) for n in hlp_tree.body if isinstance(n, ast.ImportFrom)]
    if "from pendulum.locales.locale import Locale" not in imps:
        raise P.Unsupported("helpers.py: Locale is not imported from pendulum.locales.locale")
    h = P.Ctx()
    h.int_boolop = h.obj_fragment = h.conservative_exit = True
    h.funcs["Locale.load"] = ("glue_Locale_load", [CACHE, S], (LOC, CACHE), "result")

    fn = copy.deepcopy(P.find_function(hlp_tree, "locale"))
    if [ast.unparse(s) for s in fn.body] != ["return Locale.load(name)"]:
        raise P.Unsupported("helpers.locale is not `return Locale.load(name)`")
    fn = ast.parse("def locale(cache_, name):\n    return _load(cache_, name)").body[0]
    h.funcs["_load"] = h.funcs["Locale.load"]
    text, rett, monad = _tr(h, fn, "glue_locale", {"cache_": CACHE, "name": S}, None, "translated from src/pendulum/helpers.py :: locale (cache threaded)",
                            force_result=True)
    out.append(text)
    h.funcs["_locale"] = ("glue_locale", [CACHE, S], (LOC, CACHE), "result")

    fn = P.find_function(hlp_tree, "set_locale")
    if [ast.unparse(s) for s in fn.body] != ["locale(name)", "pendulum._LOCALE = name"]:
        raise P.Unsupported(f"helpers.set_locale changed: {[ast.unparse(s) for s in fn.body]}")
    fn = ast.parse("def set_locale(cache_, name):\n    _r, cache_ = _locale(cache_, name)\n    return (name, cache_)").body[0]
    text, rett, monad = _tr(h, fn, "glue_set_locale", {"cache_": CACHE, "name": S}, None,
                            "translated from src/pendulum/helpers.py :: set_locale: `locale(name)` (may raise; rebinds the cache) THEN "
                            "`pendulum._LOCALE = name`: returns (new configured name, cache)", force_result=True)
    out.append(text)

    fn = P.find_function(hlp_tree, "get_locale")
    if [ast.unparse(s) for s in fn.body] != ["return pendulum._LOCALE"]:
        raise P.Unsupported("helpers.get_locale changed")
    fn = ast.parse("def get_locale(st_):\n    return st_").body[0]
    text, rett, monad = _tr(h, fn, "glue_get_locale", {"st_": S}, None, "translated from src/pendulum/helpers.py :: get_locale (pendulum._LOCALE = st_)")
    out.append(text)
    h.funcs["get_locale"] = ("glue_get_locale", [S], S, None)

    out.append("(* BY HAND: difference_formatter.format(diff, is_now, absolute, locale) with a locale NAME: Locale.load(locale) (the translation above, cache\n"
               "   threaded), then Model/DiffFormat.v format on the loaded data; a diff is its components and invert *)\n"
               "Record gdiff := mkgdiff { gdf_comp : comp; gdf_invert : bool }.\n"
               "Definition g_fmt (cache_ : gcache) (d : gdiff) (is_now absolute : bool) (name : pstr) : result (pstr * gcache) :=\n"
               "  match glue_Locale_load cache_ name with\n  | Raise e => Raise e\n  | Ok (L, c') =>\n"
               "    match format (gl_data L) (gdf_comp d) is_now absolute (gdf_invert d) with Ok s => Ok (s, c') | Raise e => Raise e end\n  end.\n")
    fn = copy.deepcopy(P.find_function(hlp_tree, "format_diff"))
    if [a.arg for a in fn.args.args] != ["diff", "is_now", "absolute", "locale"] or [ast.unparse(d) for d in fn.args.defaults] != ["True", "False", "None"]:
        raise P.Unsupported("helpers.format_diff: unexpected signature")
    got = [ast.unparse(s) for s in fn.body]
    if got != ["if locale is None:\n    locale = get_locale()", "return difference_formatter.format(diff, is_now, absolute, locale)"]:
        raise P.Unsupported(f"helpers.format_diff changed: {got}")
    fn = ast.parse("def format_diff(cache_, st_, diff, is_now, absolute, locale):\n    if locale is None:\n        locale = get_locale(st_)\n"
                   "    return _fmt(cache_, diff, is_now, absolute, locale)").body[0]
    h.funcs["_fmt"] = ("g_fmt", [CACHE, "gdiff", B, B, S], (S, CACHE), "result")
    text, rett, monad = _tr(h, fn, "glue_format_diff", {"cache_": CACHE, "st_": S, "diff": "gdiff", "is_now": B, "absolute": B, "locale": ("opt", S)}, None,
                            "translated from src/pendulum/helpers.py :: format_diff (state and cache threaded)", force_result=True)
    out.append(text)
    return "\n".join(out) + "\n"


def steps(ctx):
    return [("HumanizeGlue.v", lambda: gen(ctx))]
