"""Gen/HumanizeGlue.v — pendulum's locale SESSION code translated from /repo on every run (property C18).

coq/Model/LocaleSession.v is the hand-written state machine over the configured locale (set_locale / get_locale / locale / Locale.load /
Locale.normalize_locale / the `locale is None -> get_locale()` default of format_diff); Proofs/HumanizeGlueFacts.v proves it EQUAL to this
translation (Props/C18.v model_is_code_*), and proves that Locale._cache is a TRANSPARENT memo instead of assuming it.

TRANSLATED: src/pendulum/locales/locale.py Locale.normalize_locale, Locale.load; src/pendulum/helpers.py locale, set_locale, get_locale, format_diff.
STATE: the module global pendulum._LOCALE and the class attribute Locale._cache are explicit values threaded through the functions
  (RECOGNISED REWRITES: `pendulum._LOCALE` -> the parameter st_; `pendulum._LOCALE = e` as the last statement -> the new state is returned;
  `cls._cache` -> the parameter cache_; `cls._cache[k] = v` -> cache_ = cache_set(cache_, k, v); every `return e` of a function that can touch the
  cache -> `return (e, cache_)`; a call statement of such a function rebinds cache_).
OTHER RECOGNISED SHAPES (anything else fails closed): cast(T, e) -> e; isinstance(locale, Locale) = False (ASSUMPTION: the argument is a str);
  re.match("([a-z]{2})[-_]([a-z]{2})", locale, re.I) -> the hand primitive re_match_locale; f"{a}_{b}" -> join_underscore a b;
  resources.files(__package__).joinpath(n) -> n (a path is its last component), .exists() -> dir_exists;
  the loop `while not locale_path.exists(): if actual_locale == locale: raise ValueError(..); actual_locale = actual_locale.split("_")[0]`
  directly after `actual_locale = locale` -> `if not locale_path.exists(): raise ValueError` (its first iteration raises: locale_path is not
  recomputed and actual_locale == locale holds on entry; both facts are checked on the source);
  import_module(f"pendulum.locales.{actual_locale}.locale") -> locale_module actual_locale, `.locale` of it -> itself; cls(name, data) -> the record;
  difference_formatter.format(...) -> g_fmt: the translated Locale.load then the hand model Model/DiffFormat.v format (the formatter is NOT translated).
ALSO TRANSLATED (second part of the file): duration.py Duration.in_words, interval.py Interval.in_words (the `intervals` literal -> a generated list; the
  BODY of the for loop -> glue_*_step, the loop -> its left fold (hand template); parts.append -> functional append; dotted f-string keys -> their
  components, Locale.get/translation's split-and-walk stays the hand primitive loc_translation), datetime.py DateTime.diff_for_humans and date.py
  Date.diff_for_humans (self.now()/self.today() -> the explicit input clock_; self.diff(other) -> h_diff = Model/DiffHumans.v diff_comps),
  locales/locale.py Locale.plural / ordinal / ordinalize.
  THIRD PART: locales/locale.py Locale.get / Locale.translation: self._key_cache threaded as kc_ (transparency proved), key.split(".") -> psplit 46,
  d[k] -> node_getitem, the for loop -> the left fold of its translated body, `try ... except KeyError: result = default` -> a match on the exception
  kind (class GetTr, the idea of g84_parse_chain.py's TryTr, for a body AND a handler that fall through).
HAND MODEL: coq/Model/HumanizeObj.v.
"""
import ast
import copy

from .. import py2gallina as P
from ..gen import HEADER, src
from .g13_stdlib_zone import Specialise
from .g15_tz_glue import _tr

Z, B = P.Z, P.B
S, LOC, CACHE, MATCH = "list", "gloc", "gcache", ("opt", "gmatch")
WHILE_SHAPE = ("while not locale_path.exists():\n    if actual_locale == locale:\n        raise ValueError(f'Locale [{locale}] does not exist.')\n"
               "    actual_locale = actual_locale.split('_')[0]")


def _name(i):
    return ast.Name(id=i, ctx=ast.Load())


class HRw(ast.NodeTransformer):
    def visit_Call(self, node):
        f = ast.unparse(node.func)
        if f == "import_module" and len(node.args) == 1 and ast.unparse(node.args[0]) == "f'pendulum.locales.{actual_locale}.locale'":
            return ast.copy_location(ast.Call(func=_name("_locale_module"), args=[_name("actual_locale")], keywords=[]), node)
        self.generic_visit(node)
        if f == "cast" and len(node.args) == 2 and not node.keywords:
            return node.args[1]
        return node

    def visit_JoinedStr(self, node):
        v = node.values
        if (len(v) == 3 and isinstance(v[0], ast.FormattedValue) and isinstance(v[2], ast.FormattedValue) and isinstance(v[1], ast.Constant)
                and v[1].value == "_" and v[0].conversion == -1 and v[2].conversion == -1 and v[0].format_spec is None and v[2].format_spec is None):
            return ast.copy_location(ast.Call(func=_name("_join_underscore"), args=[self.visit(v[0].value), self.visit(v[2].value)], keywords=[]), node)
        raise P.Unsupported(f"unrecognised f-string: {ast.unparse(node)}")

    def visit_Attribute(self, node):
        self.generic_visit(node)
        if ast.unparse(node) == "cls._cache":
            return ast.copy_location(_name("cache_"), node)
        if ast.unparse(node) == "pendulum._LOCALE" and isinstance(node.ctx, ast.Load):
            return ast.copy_location(_name("st_"), node)
        return node


def _thread_cache(fn, var="cache_", setter="_cache_set"):
    """cache_ (var) becomes the first parameter; cache_[k] = v -> cache_ = _cache_set(cache_, k, v); return e -> return (e, cache_)"""
    class T(ast.NodeTransformer):
        def visit_Assign(self, node):
            self.generic_visit(node)
            t = node.targets[0]
            if len(node.targets) == 1 and isinstance(t, ast.Subscript) and ast.unparse(t.value) == var:
                return ast.copy_location(ast.Assign(targets=[ast.Name(id=var, ctx=ast.Store())],
                                                    value=ast.Call(func=_name(setter), args=[_name(var), t.slice, node.value], keywords=[])), node)
            return node

        def visit_Return(self, node):
            self.generic_visit(node)
            if node.value is None:
                raise P.Unsupported("bare return in a cache-threading function")
            return ast.copy_location(ast.Return(value=ast.Tuple(elts=[node.value, _name(var)], ctx=ast.Load())), node)
    fn = T().visit(fn)
    fn.args.args.insert(0, ast.arg(arg=var))
    ast.fix_missing_locations(fn)
    return fn


def gen(_shared):
    loc_tree = ast.parse(open(src("locales/locale.py")).read())
    hlp_tree = ast.parse(open(src("helpers.py")).read())
    cls = next((n for n in loc_tree.body if isinstance(n, ast.ClassDef) and n.name == "Locale"), None)
    if cls is None or "_cache: ClassVar[dict[str, Locale]] = {}" not in [ast.unparse(n) for n in cls.body]:
        raise P.Unsupported("locale.py: Locale._cache is not the class-level dict")
    uses = [ast.unparse(n) for n in ast.walk(loc_tree) if isinstance(n, ast.Attribute) and n.attr == "_cache"]
    if sorted(uses) != ["cls._cache"] * 4:
        raise P.Unsupported(f"locale.py: Locale._cache is used outside Locale.load: {uses}")
    out = [HEADER % "src/pendulum/locales/locale.py, src/pendulum/helpers.py (locale session)"]
    out.append("From PV Require Import Model.LocaleBase Gen.Locales Model.DiffFormat Model.LocaleSession Model.HumanizeObj.\n"
               "(* See tools/vlib/gens/g18_humanize_glue.py: what is translated, how the mutable state is threaded, the recognised shapes. *)\n")
    c = P.Ctx()
    c.int_boolop = c.obj_fragment = c.conservative_exit = True
    c.cmpops[("Eq", S, S)] = "pstr_eqb {l} {r}"
    c.cmpops[("In", S, CACHE)] = "cache_has {r} {l}"
    c.truth[MATCH] = "match_truth {x}"
    c.kwmethods[("group", MATCH)] = ("match_group", ["n"], {}, [Z], S, None)
    c.kwmethods[("lower", S)] = ("lower", [], {}, [], S, None)
    c.kwmethods[("exists", S)] = ("dir_exists", [], {}, [], B, None)
    c.funcs["_join_underscore"] = ("join_underscore", [S, S], S, None)
    c.opaque["re.match('([a-z]{2})[-_]([a-z]{2})', locale, re.I)"] = ("re_match_locale {locale}", MATCH)

    # ---------------- Locale.normalize_locale
    fn = copy.deepcopy(P.find_function(loc_tree, "Locale.normalize_locale"))
    if [ast.unparse(d) for d in fn.decorator_list] != ["classmethod"]:
        raise P.Unsupported("normalize_locale is not a classmethod")
    fn.args.args = fn.args.args[1:]
    fn = HRw().visit(fn)
    ast.fix_missing_locations(fn)
    text, rett, monad = _tr(c, fn, "glue_normalize_locale", {"locale": S}, None, "translated from src/pendulum/locales/locale.py :: Locale.normalize_locale")
    if rett != S or monad is not None:
        raise P.Unsupported("normalize_locale: unexpected type")
    out.append(text)
    c.funcs["cls.normalize_locale"] = ("glue_normalize_locale", [S], S, None)

    # ---------------- Locale.load with the cache threaded
    sp = Specialise("Locale.load", {"isinstance(locale, Locale)": False})
    fn = sp.visit(copy.deepcopy(P.find_function(loc_tree, "Locale.load")))
    if sp.used != {"isinstance(locale, Locale)"}:
        raise P.Unsupported("Locale.load: the isinstance test disappeared")
    fn.args.args = fn.args.args[1:]
    body = [s for s in fn.body if not (isinstance(s, ast.Expr) and isinstance(s.value, ast.Constant))]
    idx = next((i for i, s in enumerate(body) if isinstance(s, ast.While)), None)
    if idx is None or idx < 2 or ast.unparse(body[idx]) != WHILE_SHAPE or ast.unparse(body[idx - 2]) != "actual_locale = locale" \
            or ast.unparse(body[idx - 1]) != "locale_path = cast(Path, resources.files(__package__).joinpath(actual_locale))":
        raise P.Unsupported("Locale.load: the existence loop does not have the recognised shape")
    body[idx] = ast.parse("if not locale_path.exists():\n    raise ValueError('does not exist')").body[0]
    fn.body = body
    fn = HRw().visit(fn)
    ast.fix_missing_locations(fn)
    fn = _thread_cache(fn)
    c.opaque["resources.files(__package__).joinpath(actual_locale)"] = ("{actual_locale}", S)
    c.opaque["cache_[locale]"] = ("cache_get {cache_} {locale}", LOC)
    c.funcs["_cache_set"] = ("cache_set", [CACHE, S, LOC], CACHE, None)
    c.funcs["_locale_module"] = ("locale_module", [S], "locale", None)
    c.funcs["cls"] = ("mkgloc", [S, "locale"], LOC, None)
    c.attrs["locale"] = ("(fun x : locale => x)", "locale")
    text, rett, monad = _tr(c, fn, "glue_Locale_load", {"cache_": CACHE, "locale": S}, None,
                            "translated from src/pendulum/locales/locale.py :: Locale.load (a str argument), Locale._cache threaded as cache_")
    if rett != (LOC, CACHE) or monad != "result":
        raise P.Unsupported(f"Locale.load: unexpected type {rett} {monad}")
    out.append(text)

    # ---------------- helpers.locale / set_locale / get_locale / format_diff
    imps = [ast.unparse(n) for n in hlp_tree.body if isinstance(n, ast.ImportFrom)]
    if "from pendulum.locales.locale import Locale" not in imps:
        raise P.Unsupported("helpers.py: Locale is not imported from pendulum.locales.locale")
    h = P.Ctx()
    h.int_boolop = h.obj_fragment = h.conservative_exit = True
    h.funcs["Locale.load"] = ("glue_Locale_load", [CACHE, S], (LOC, CACHE), "result")

    fn = copy.deepcopy(P.find_function(hlp_tree, "locale"))
    if [ast.unparse(s) for s in fn.body] != ["return Locale.load(name)"]:
        raise P.Unsupported("helpers.locale is not `return Locale.load(name)`")
    fn = ast.parse("def locale(cache_, name):\n    return _load(cache_, name)").body[0]
    h.funcs["_load"] = h.funcs["Locale.load"]
    text, rett, monad = _tr(h, fn, "glue_locale", {"cache_": CACHE, "name": S}, None, "translated from src/pendulum/helpers.py :: locale (cache threaded)",
                            force_result=True)
    out.append(text)
    h.funcs["_locale"] = ("glue_locale", [CACHE, S], (LOC, CACHE), "result")

    fn = P.find_function(hlp_tree, "set_locale")
    if [ast.unparse(s) for s in fn.body] != ["locale(name)", "pendulum._LOCALE = name"]:
        raise P.Unsupported(f"helpers.set_locale changed: {[ast.unparse(s) for s in fn.body]}")
    fn = ast.parse("def set_locale(cache_, name):\n    _r, cache_ = _locale(cache_, name)\n    return (name, cache_)").body[0]
    text, rett, monad = _tr(h, fn, "glue_set_locale", {"cache_": CACHE, "name": S}, None,
                            "translated from src/pendulum/helpers.py :: set_locale: `locale(name)` (may raise; rebinds the cache) THEN "
                            "`pendulum._LOCALE = name`: returns (new configured name, cache)", force_result=True)
    out.append(text)

    fn = P.find_function(hlp_tree, "get_locale")
    if [ast.unparse(s) for s in fn.body] != ["return pendulum._LOCALE"]:
        raise P.Unsupported("helpers.get_locale changed")
    fn = ast.parse("def get_locale(st_):\n    return st_").body[0]
    text, rett, monad = _tr(h, fn, "glue_get_locale", {"st_": S}, None, "translated from src/pendulum/helpers.py :: get_locale (pendulum._LOCALE = st_)")
    out.append(text)
    h.funcs["get_locale"] = ("glue_get_locale", [S], S, None)

    out.append("(* BY HAND: difference_formatter.format(diff, is_now, absolute, locale) with a locale NAME: Locale.load(locale) (the translation above, cache\n"
               "   threaded), then Model/DiffFormat.v format on the loaded data; a diff is its components and invert *)\n"
               "Record gdiff := mkgdiff { gdf_comp : comp; gdf_invert : bool }.\n"
               "Definition g_fmt (cache_ : gcache) (d : gdiff) (is_now absolute : bool) (name : pstr) : result (pstr * gcache) :=\n"
               "  match glue_Locale_load cache_ name with\n  | Raise e => Raise e\n  | Ok (L, c') =>\n"
               "    match format (gl_data L) (gdf_comp d) is_now absolute (gdf_invert d) with Ok s => Ok (s, c') | Raise e => Raise e end\n  end.\n")
    fn = copy.deepcopy(P.find_function(hlp_tree, "format_diff"))
    if [a.arg for a in fn.args.args] != ["diff", "is_now", "absolute", "locale"] or [ast.unparse(d) for d in fn.args.defaults] != ["True", "False", "None"]:
        raise P.Unsupported("helpers.format_diff: unexpected signature")
    got = [ast.unparse(s) for s in fn.body]
    if got != ["if locale is None:\n    locale = get_locale()", "return difference_formatter.format(diff, is_now, absolute, locale)"]:
        raise P.Unsupported(f"helpers.format_diff changed: {got}")
    fn = ast.parse("def format_diff(cache_, st_, diff, is_now, absolute, locale):\n    if locale is None:\n        locale = get_locale(st_)\n"
                   "    return _fmt(cache_, diff, is_now, absolute, locale)").body[0]
    h.funcs["_fmt"] = ("g_fmt", [CACHE, "gdiff", B, B, S], (S, CACHE), "result")
    text, rett, monad = _tr(h, fn, "glue_format_diff", {"cache_": CACHE, "st_": S, "diff": "gdiff", "is_now": B, "absolute": B, "locale": ("opt", S)}, None,
                            "translated from src/pendulum/helpers.py :: format_diff (state and cache threaded)", force_result=True)
    out.append(text)
    h.funcs["_load"] = h.funcs["Locale.load"]

    # ---------------- Duration.in_words / Interval.in_words / DateTime.diff_for_humans / Date.diff_for_humans
    out.append("From PV Require Import Model.PdBase Model.DiffHumans.\n")
    _gen_locale_methods(out, loc_tree)
    out.append("(* BY HAND: a loaded Locale object (gloc) is its name and its data; its plural method is the translation above on the data *)\n"
               "Definition loc_plural (L : gloc) (n : Z) : string := glue_Locale_plural (gl_data L) n.\n")
    _gen_words(out, h, ast.parse(open(src("duration.py")).read()), "Duration.in_words", "Duration_in_words", "src/pendulum/duration.py")
    _gen_words(out, h, ast.parse(open(src("interval.py")).read()), "Interval.in_words", "Interval_in_words", "src/pendulum/interval.py")
    out.append("(* BY HAND: self.diff(other) of diff_for_humans: Model/DiffHumans.v diff_comps (Interval's ordering of the endpoints, precise_diff with\n"
               "   the pure-Python (rs = false) or the compiled (rs = true) backend, the components), as the diff object format_diff reads.\n"
               "   diff(None) would read the clock itself; diff_for_humans never does that (a theorem), so it is not modelled *)\n"
               "Definition h_diff (rs : bool) (a : pdt) (b : option pdt) : result gdiff :=\n"
               "  match b with\n  | None => Raise E_NotImplemented\n"
               "  | Some b => match diff_comps rs a b with Ok ci => Ok (mkgdiff (fst ci) (snd ci)) | Raise e => Raise e end\n  end.\n")
    _gen_dfh(out, h, ast.parse(open(src("datetime.py")).read()), "DateTime.diff_for_humans", "DateTime_diff_for_humans", "self.now", "src/pendulum/datetime.py")
    _gen_dfh(out, h, ast.parse(open(src("date.py")).read()), "Date.diff_for_humans", "Date_diff_for_humans", "self.today", "src/pendulum/date.py")
    _gen_locale_get(out, loc_tree)
    return "\n".join(out) + "\n"


# ---------------------------------------------------------------------------------------------------------------- in_words / diff_for_humans
NODE = ("opt", "node")
WORD_ATTRS = {"years": "c_years", "months": "c_months", "weeks": "c_weeks", "remaining_days": "c_rdays", "hours": "c_hours",
              "minutes": "c_minutes", "remaining_seconds": "c_rsecs"}
FMT2 = "f'{abs(self.microseconds) / 1000000.0:.2f}'"


def _call(f, *args):
    return ast.Call(func=_name(f), args=list(args), keywords=[])


class WRw(ast.NodeTransformer):
    """the recognised shapes of Duration.in_words / Interval.in_words (anything else fails closed)"""

    def visit_JoinedStr(self, node):
        if ast.unparse(node) == FMT2:
            return ast.copy_location(_call("_fmt2", ast.parse("self.microseconds").body[0].value), node)
        v = node.values

        def plain(x):
            return isinstance(x, ast.FormattedValue) and x.conversion == -1 and x.format_spec is None
        if len(v) == 4 and isinstance(v[0], ast.Constant) and v[0].value == "units." and plain(v[1]) and isinstance(v[2], ast.Constant) \
                and v[2].value == "." and plain(v[3]):
            return ast.copy_location(_call("_ukey", self.visit(v[1].value), self.visit(v[3].value)), node)
        if len(v) == 2 and isinstance(v[0], ast.Constant) and v[0].value in ("units.second.", "units.microsecond.") and plain(v[1]):
            return ast.copy_location(_call("_ukey", _name("_s_" + v[0].value.split(".")[1]), self.visit(v[1].value)), node)
        raise P.Unsupported(f"unrecognised f-string: {ast.unparse(node)}")

    def visit_Call(self, node):
        f = ast.unparse(node.func)
        if f == "pendulum.get_locale" and not node.args and not node.keywords:
            return ast.copy_location(_call("get_locale", _name("st_")), node)
        self.generic_visit(node)
        if f == "translation.format" and len(node.args) == 1 and not node.keywords and isinstance(node.args[0], ast.Name):
            which = {"interval_count": "_format_int", "count": "_format_str"}.get(node.args[0].id)
            if which is None:
                raise P.Unsupported(f"unrecognised format call: {ast.unparse(node)}")
            return ast.copy_location(_call(which, _name("translation"), node.args[0]), node)
        return node

    def visit_BoolOp(self, node):
        if isinstance(node.op, ast.Or) and len(node.values) == 2 and ast.unparse(node.values[0]) == "locale":
            return ast.copy_location(_call("_or_str", _name("locale"), self.visit(node.values[1])), node)
        self.generic_visit(node)
        return node

    def visit_Expr(self, node):
        c = node.value
        if isinstance(c, ast.Call) and ast.unparse(c.func) == "parts.append" and len(c.args) == 1 and not c.keywords:
            return ast.copy_location(ast.Assign(targets=[ast.Name(id="parts", ctx=ast.Store())],
                                                value=_call("_append", _name("parts"), self.visit(c.args[0]))), node)
        self.generic_visit(node)
        return node

    def visit_AnnAssign(self, node):
        if ast.unparse(node) in ("count: int | str = 0", "count: str | int = 0"):
            return ast.copy_location(ast.Assign(targets=[ast.Name(id="count", ctx=ast.Store())], value=_call("_str_of_int", ast.Constant(value=0))), node)
        self.generic_visit(node)
        return node


def _words_ctx(h):
    w = P.Ctx()
    w.int_boolop = w.obj_fragment = w.conservative_exit = True
    w.funcs.update({k: h.funcs[k] for k in ("_locale", "_load", "get_locale")})
    w.kwmethods[("translation", LOC)] = ("loc_translation", ["key"], {}, ["ukey"], NODE, "result")
    w.kwmethods[("plural", LOC)] = ("loc_plural", ["number"], {}, [Z], "string", None)
    w.kwmethods[("join", S)] = ("join", ["parts"], {}, ["lpstr"], S, None)
    w.funcs["_ukey"] = ("mk_ukey", ["string", "string"], "ukey", None)
    w.funcs["_append"] = ("lp_append", ["lpstr", S], "lpstr", None)
    w.funcs["_format_int"] = ("fmt_count", [NODE, Z], S, "result")
    w.funcs["_format_str"] = ("node_format", [NODE, S], S, "result")
    w.funcs["_fmt2"] = ("fmt2", [Z], S, None)
    w.funcs["_str_of_int"] = ("str_of_Z", [Z], S, None)
    w.funcs["_or_str"] = ("opt_str_or", [("opt", S), S], S, None)
    w.consts["_nil"] = ("lp_nil", "lpstr")
    w.consts["_s_second"] = ('"second"%string', "string")
    w.consts["_s_microsecond"] = ('"microsecond"%string', "string")
    w.truth["lpstr"] = "lp_truth {x}"
    w.attrs["microseconds"] = ("gw_us", Z)
    return w


def _gen_words(out, h, tree, qual, tag, where):
    """Duration.in_words / Interval.in_words: the `intervals` literal -> a generated list; the loop body -> glue_<tag>_step; the loop -> its left fold
    (hand template); the rest -> glue_<tag> with pendulum._LOCALE and Locale._cache threaded"""
    fn = copy.deepcopy(P.find_function(tree, qual))
    if [a.arg for a in fn.args.args] != ["self", "locale", "separator"] or [ast.unparse(d) for d in fn.args.defaults] != ["None", "' '"]:
        raise P.Unsupported(f"{qual}: unexpected signature")
    body = [s for s in fn.body if not (isinstance(s, ast.Expr) and isinstance(s.value, ast.Constant))]
    body = [s for s in body if ast.unparse(s) != "from pendulum.locales.locale import Locale"]
    # --- intervals = [("year", self.years), ...]
    lit = body[0]
    if not (isinstance(lit, ast.Assign) and ast.unparse(lit.targets[0]) == "intervals" and isinstance(lit.value, ast.List)):
        raise P.Unsupported(f"{qual}: the first statement is not the intervals literal")
    rows = []
    for e in lit.value.elts:
        if not (isinstance(e, ast.Tuple) and len(e.elts) == 2 and isinstance(e.elts[0], ast.Constant) and isinstance(e.elts[0].value, str)
                and e.elts[0].value.isalpha() and isinstance(e.elts[1], ast.Attribute) and ast.unparse(e.elts[1].value) == "self"
                and e.elts[1].attr in WORD_ATTRS):
            raise P.Unsupported(f"{qual}: unrecognised intervals row {ast.unparse(e)}")
        rows.append(f'("{e.elts[0].value}"%string, {WORD_ATTRS[e.elts[1].attr]} (gw_comp self))')
    out.append(f"(* translated from {where} :: {qual}: the literal `intervals` (self.<property> = the component value of the receiver)\n"
               f"     {ast.unparse(lit.value)} *)\n"
               f"Definition glue_{tag}_intervals (self : gwords) : list (string * Z) :=\n  [" + ";\n   ".join(rows) + "].\n")
    # --- the loop
    idx = next((i for i, s in enumerate(body) if isinstance(s, ast.For)), None)
    if idx is None or sum(isinstance(s, ast.For) for s in ast.walk(fn)) != 1:
        raise P.Unsupported(f"{qual}: not exactly one for loop")
    loop = body[idx]
    if not (ast.unparse(loop.target) == "interval" and ast.unparse(loop.iter) == "intervals" and not loop.orelse and len(loop.body) >= 2
            and ast.unparse(loop.body[0]) == "unit, interval_count = interval" and ast.unparse(body[idx - 1]) == "parts = []"):
        raise P.Unsupported(f"{qual}: the loop does not have the recognised shape")
    if any(isinstance(n, (ast.Break, ast.Continue, ast.Return)) for n in ast.walk(loop)):
        raise P.Unsupported(f"{qual}: the loop has an exit")
    if sum(isinstance(n, ast.Name) and n.id == "intervals" for n in ast.walk(fn)) != 2:
        raise P.Unsupported(f"{qual}: `intervals` is used elsewhere")
    pn = [n for n in ast.walk(fn) if isinstance(n, ast.Name) and n.id == "parts"]
    w = _words_ctx(h)
    step = ast.parse("def step(loaded_locale, parts, unit, interval_count):\n    pass").body[0]
    step.body = [WRw().visit(s) for s in copy.deepcopy(loop.body[1:])] + [ast.parse("return parts").body[0]]
    ast.fix_missing_locations(step)
    text, rett, monad = _tr(w, step, f"glue_{tag}_step", {"loaded_locale": LOC, "parts": "lpstr", "unit": "string", "interval_count": Z}, None,
                            f"translated from {where} :: {qual}: the BODY of `for interval in intervals:` after `unit, interval_count = interval`,\n"
                            "   as a function of the variables it reads; returns the variable it updates (parts)", force_result=True)
    if rett != "lpstr":
        raise P.Unsupported(f"{qual}: unexpected step type {rett}")
    out.append(text)
    out.append(f"(* BY HAND: `for interval in intervals: unit, interval_count = interval; BODY` = the left fold of BODY over the list *)\n"
               f"Fixpoint glue_{tag}_loop (L : gloc) (parts : lpstr) (l : list (string * Z)) : result lpstr :=\n"
               f"  match l with\n  | [] => Ok parts\n  | (u, c) :: r => match glue_{tag}_step L parts u c with Raise e => Raise e | Ok p => glue_{tag}_loop L p r end\n  end.\n")
    w.funcs["_intervals"] = (f"glue_{tag}_intervals", ["gwords"], "livs", None)
    w.funcs["_loop"] = (f"glue_{tag}_loop", [LOC, "lpstr", "livs"], "lpstr", "result")
    # --- the rest
    body[0] = ast.parse("intervals = _intervals(self)").body[0]
    body[idx - 1] = ast.parse("parts = _nil").body[0]
    body[idx] = ast.parse("parts = _loop(loaded_locale, parts, intervals)").body[0]
    seen_load = 0
    for i, s in enumerate(body):
        u = ast.unparse(s)
        if u == "loaded_locale = pendulum.locale(locale)":
            body[i] = ast.parse("loaded_locale, cache_ = _locale(cache_, locale)").body[0]
            seen_load += 1
        elif isinstance(s, ast.AnnAssign) and ast.unparse(s.target) == "loaded_locale" and ast.unparse(s.annotation) == "Locale" \
                and isinstance(s.value, ast.Call) and ast.unparse(s.value.func) == "Locale.load" and len(s.value.args) == 1 and not s.value.keywords:
            t = ast.parse("loaded_locale, cache_ = _load(cache_, X)").body[0]
            t.value.args[1] = s.value.args[0]
            body[i] = t
            seen_load += 1
    if seen_load != 1:
        raise P.Unsupported(f"{qual}: the locale is not loaded by the recognised statement")
    last = body[-1]
    if not (isinstance(last, ast.Return) and sum(isinstance(n, ast.Return) for n in ast.walk(fn)) == 1):
        raise P.Unsupported(f"{qual}: not a single final return")
    body[-1] = ast.Return(value=ast.Tuple(elts=[last.value, _name("cache_")], ctx=ast.Load()))
    fn.body = [WRw().visit(s) for s in body]
    fn.args.args = [ast.arg(arg=a) for a in ("cache_", "st_", "self", "locale", "separator")]
    fn.args.defaults = []
    ast.fix_missing_locations(fn)
    text, rett, monad = _tr(w, fn, f"glue_{tag}", {"cache_": CACHE, "st_": S, "locale": ("opt", S), "separator": S}, "gwords",
                            f"translated from {where} :: {qual} (state and cache threaded; the loop is glue_{tag}_loop)", force_result=True)
    if rett != (S, CACHE):
        raise P.Unsupported(f"{qual}: unexpected type {rett}")
    out.append(text)


def _gen_dfh(out, h, tree, qual, tag, clock, where):
    """DateTime.diff_for_humans / Date.diff_for_humans: the clock reading self.now() / self.today() is the explicit input clock_"""
    fn = copy.deepcopy(P.find_function(tree, qual))
    if [a.arg for a in fn.args.args] != ["self", "other", "absolute", "locale"] or [ast.unparse(d) for d in fn.args.defaults] != ["None", "False", "None"]:
        raise P.Unsupported(f"{qual}: unexpected signature")
    body = [s for s in fn.body if not (isinstance(s, ast.Expr) and isinstance(s.value, ast.Constant))]

    class D(ast.NodeTransformer):
        n = 0

        def visit_Call(self, node):
            f = ast.unparse(node.func)
            if f == clock and not node.args and not node.keywords:
                D.n += 1
                return ast.copy_location(_call("_some", _name("clock_")), node)     # a value stored in the Optional variable `other`
            self.generic_visit(node)
            if f == "self.diff" and len(node.args) == 1 and not node.keywords:
                return ast.copy_location(_call("_diff", _name("rs_"), _name("self"), node.args[0]), node)
            if f == "pendulum.format_diff" and len(node.args) == 4 and not node.keywords:
                return ast.copy_location(_call("_format_diff", _name("cache_"), _name("st_"), *node.args), node)
            return node
    fn.body = [D().visit(s) for s in body]
    if D.n != 1:
        raise P.Unsupported(f"{qual}: {clock}() is not read exactly once")
    fn.args.args = [ast.arg(arg=a) for a in ("cache_", "st_", "clock_", "rs_", "self", "other", "absolute", "locale")]
    fn.args.defaults = []
    ast.fix_missing_locations(fn)
    d = P.Ctx()
    d.int_boolop = d.obj_fragment = d.conservative_exit = True
    d.funcs["_format_diff"] = ("glue_format_diff", [CACHE, S, "gdiff", B, B, ("opt", S)], (S, CACHE), "result")
    d.funcs["_some"] = ("Some", ["pdt"], ("opt", "pdt"), None)
    d.funcs["_diff"] = ("h_diff", [B, "pdt", ("opt", "pdt")], "gdiff", "result")
    text, rett, monad = _tr(d, fn, f"glue_{tag}", {"cache_": CACHE, "st_": S, "clock_": "pdt", "rs_": B, "other": ("opt", "pdt"),
                                                   "absolute": B, "locale": ("opt", S)}, "pdt",
                            f"translated from {where} :: {qual} (state and cache threaded; {clock}() = the input clock_; self.diff(other) = h_diff)",
                            force_result=True)
    out.append(text)


def _gen_locale_methods(out, loc_tree):
    """Locale.plural / Locale.ordinal / Locale.ordinalize (locales/locale.py) over the generated locale record"""
    where = "src/pendulum/locales/locale.py"
    m = P.Ctx()
    m.int_boolop = m.obj_fragment = m.conservative_exit = True
    m.opaque["self._data['plural'](number)"] = ("lplural {self} {number}", "string")
    m.opaque["self._data['ordinal'](number)"] = ("lordinal {self} {number}", "string")
    for name in ("plural", "ordinal"):
        fn = copy.deepcopy(P.find_function(loc_tree, "Locale." + name))
        if [a.arg for a in fn.args.args] != ["self", "number"]:
            raise P.Unsupported(f"Locale.{name}: unexpected signature")
        fn = HRw().visit(fn)          # cast(str, e) -> e
        ast.fix_missing_locations(fn)
        text, rett, monad = _tr(m, fn, f"glue_Locale_{name}", {"number": Z}, "locale",
                                f"translated from {where} :: Locale.{name} (self._data[{name!r}] = the generated expression of the locale, applied by l{name})")
        if rett != "string" or monad is not None:
            raise P.Unsupported(f"Locale.{name}: unexpected type")
        out.append(text)
    m.kwmethods[("ordinal", "locale")] = ("glue_Locale_ordinal", ["number"], {}, [Z], "string", None)
    m.funcs["_get_custom_ordinal"] = ("loc_get_custom_ordinal", ["locale", "string"], NODE, "result")
    m.funcs["_str_int"] = ("str_of_Z", [Z], S, None)
    m.funcs["_str_node"] = ("node_str", [NODE], S, "result")
    m.funcs["_cat"] = ("pcat", [S, S], S, None)
    m.truth[NODE] = "truthy {x}"

    class O(ast.NodeTransformer):
        def visit_Call(self, node):
            self.generic_visit(node)
            if ast.unparse(node.func) == "self.get" and len(node.args) == 1 and not node.keywords and isinstance(node.args[0], ast.Call) \
                    and ast.unparse(node.args[0].func) == "_fs_custom_ordinal":
                return ast.copy_location(_call("_get_custom_ordinal", _name("self"), node.args[0].args[0]), node)
            return node

        def visit_JoinedStr(self, node):
            v = node.values

            def plain(x):
                return isinstance(x, ast.FormattedValue) and x.conversion == -1 and x.format_spec is None and isinstance(x.value, (ast.Name, ast.Call))
            if len(v) == 2 and isinstance(v[0], ast.Constant) and v[0].value == "custom.ordinal." and plain(v[1]):
                return ast.copy_location(_call("_fs_custom_ordinal", self.visit(v[1].value)), node)
            if len(v) == 1 and plain(v[0]) and ast.unparse(v[0].value) == "number":
                return ast.copy_location(_call("_str_int", v[0].value), node)
            if len(v) == 2 and plain(v[0]) and plain(v[1]) and ast.unparse(v[0].value) == "number" and ast.unparse(v[1].value) == "ordinal":
                return ast.copy_location(_call("_cat", _call("_str_int", v[0].value), _call("_str_node", v[1].value)), node)
            raise P.Unsupported(f"unrecognised f-string: {ast.unparse(node)}")
    fn = copy.deepcopy(P.find_function(loc_tree, "Locale.ordinalize"))
    if [a.arg for a in fn.args.args] != ["self", "number"]:
        raise P.Unsupported("Locale.ordinalize: unexpected signature")
    fn = O().visit(fn)
    ast.fix_missing_locations(fn)
    if "_fs_custom_ordinal" in ast.unparse(fn):
        raise P.Unsupported("Locale.ordinalize: the key f-string is not the argument of self.get")
    text, rett, monad = _tr(m, fn, "glue_Locale_ordinalize", {"number": Z}, "locale",
                            f"translated from {where} :: Locale.ordinalize (self.get(f'custom.ordinal.{{c}}') = loc_get_custom_ordinal; f'{{number}}' = str_of_Z;\n"
                            "   f'{number}{ordinal}' = str(number) + str(ordinal))", force_result=True)
    if rett != S:
        raise P.Unsupported("Locale.ordinalize: unexpected type")
    out.append(text)


# ---------------------------------------------------------------------------------------------------------------- Locale.get / Locale.translation
KC = "gkcache"
GET_TRY = ("try:\n    result = self._data[parts[0]]\n    for part in parts[1:]:\n        result = result[part]\nexcept KeyError:\n    result = default")


class GetTr(P.FunTr):
    """py2gallina.FunTr + `try: <body that falls through> except KeyError: <handler that falls through>; <rest that returns>` (the idea of the
    TryTr of g84_parse_chain.py: the result monad carries the exception kind):
        match (<body>; Ok (the variable it assigns)) with
        | Ok v => <rest> | Raise e => if e is KeyError then (<handler>; <rest>) else Raise e end
    The handler is translated in the environment BEFORE the try (it may not read what the body assigned).  Anything else fails closed."""

    def block(self, stmts, k):
        if stmts and isinstance(stmts[0], ast.Try):
            s, rest = stmts[0], stmts[1:]
            if self.monad != "result" or self.in_loop:
                self.fail(s, "try in a function that is not in the result monad / inside a loop")
            if s.orelse or s.finalbody or len(s.handlers) != 1:
                self.fail(s, "try: else / finally / not exactly one handler")
            h = s.handlers[0]
            if h.name is not None or not isinstance(h.type, ast.Name) or h.type.id != "KeyError":
                self.fail(s, "except: not `except KeyError:`")
            if any(isinstance(n, (ast.Return, ast.Raise, ast.Try)) for x in s.body + h.body for n in ast.walk(x)):
                self.fail(s, "try: return / raise / nested try inside")
            if not self.terminates(rest):
                self.fail(s, "try: the statements after it do not end in return / raise")
            names = self.assigned(s.body)
            if len(names) != 1:
                self.fail(s, "try: the body does not assign exactly one variable")
            env0 = dict(self.env)
            got = {}

            def k_body():
                got[names[0]] = self.env[names[0]]
                return f"Ok {self.v(names[0])}"
            body = self.block(s.body, k_body)
            self.env = dict(env0)
            hcode = self.block(h.body + rest, k)
            self.env = dict(env0)
            self.env[names[0]] = got[names[0]]
            cont = self.block(rest, k)
            return (f"match (\n  {body}) with\n  | Ok {self.v(names[0])} =>\n  {cont}\n  | Raise exn_ =>\n"
                    f"  if (match exn_ with E_KeyError => true | _ => false end) then (\n  {hcode})\n  else Raise exn_\n  end")
        return super().block(stmts, k)


def _tr_get(ctx, fn, coq, argtypes, self_type, what, **kw):
    tr = GetTr(ctx, fn, coq, argtypes=argtypes, self_type=self_type, **kw)
    text, argt, rett, monad = tr.translate()
    shown = "\n".join(ast.unparse(s) for s in fn.body).replace("(*", "( *").replace("*)", "* )").replace("\n", "\n     ")
    return f"(* {what}\n   What is translated (after the recognised rewrites):\n     {shown} *)\n" + text, rett, monad


class GRw(ast.NodeTransformer):
    """recognised shapes of Locale.get / Locale.translation"""

    def visit_Attribute(self, node):
        if ast.unparse(node) == "self._key_cache":
            return ast.copy_location(_name("kc_"), node)
        self.generic_visit(node)
        return node

    def visit_Call(self, node):
        self.generic_visit(node)
        if ast.unparse(node) == "key.split('.')":
            return ast.copy_location(_call("_split_dot", _name("key")), node)
        return node

    def visit_Subscript(self, node):
        self.generic_visit(node)
        u, v = ast.unparse(node), ast.unparse(node.value)
        if isinstance(node.ctx, ast.Load):
            if u == "parts[0]":
                return ast.copy_location(_call("_head", _name("parts")), node)
            if u == "parts[1:]":
                return ast.copy_location(_call("_tail", _name("parts")), node)
            if v in ("self._data", "result") and not isinstance(node.slice, ast.Slice):
                return ast.copy_location(_call("_getitem", node.value, node.slice), node)
        return node

    def visit_JoinedStr(self, node):
        if ast.unparse(node) == "f'translations.{key}'":
            return ast.copy_location(_call("_cat", _name("_s_translations_dot"), _name("key")), node)
        raise P.Unsupported(f"unrecognised f-string: {ast.unparse(node)}")


def _gen_locale_get(out, loc_tree):
    where = "src/pendulum/locales/locale.py"
    cls = next(n for n in loc_tree.body if isinstance(n, ast.ClassDef) and n.name == "Locale")
    init = P.find_function(loc_tree, "Locale.__init__")
    if "self._key_cache: dict[str, str] = {}" not in [ast.unparse(x) for x in init.body]:
        raise P.Unsupported("locale.py: Locale.__init__ does not start self._key_cache as an empty dict")
    uses = {}
    for f in cls.body:
        if isinstance(f, ast.FunctionDef):
            n = sum(isinstance(x, ast.Attribute) and x.attr == "_key_cache" for x in ast.walk(f))
            if n:
                uses[f.name] = n
    if set(uses) != {"__init__", "get"} or uses["__init__"] != 1:
        raise P.Unsupported(f"locale.py: _key_cache is used outside __init__ / get: {uses}")
    g = P.Ctx()
    g.int_boolop = g.obj_fragment = g.conservative_exit = True
    g.attrs["_data"] = ("l_data", "node")
    g.funcs["_getitem"] = ("node_getitem", ["node", S], "node", "result")
    g.funcs["_head"] = ("lp_head", ["lpstr"], S, None)
    g.funcs["_tail"] = ("lp_tail", ["lpstr"], "lpstr", None)
    g.funcs["_split_dot"] = ("psplit 46", [S], "lpstr", None)
    g.kwfuncs["_kc_set"] = ("kc_set", ["c", "k", "v"], {}, [KC, S, NODE], KC, None)      # a node stored where Any | None is expected: coerced (Some)
    g.funcs["_cat"] = ("pcat", [S, S], S, None)
    g.consts["_s_translations_dot"] = ("s_translations_dot", S)
    g.cmpops[("In", S, KC)] = "kc_has {r} {l}"
    g.opaque["kc_[key]"] = ("kc_get {kc_} {key}", NODE)

    fn = copy.deepcopy(P.find_function(loc_tree, "Locale.get"))
    if [a.arg for a in fn.args.args] != ["self", "key", "default"] or [ast.unparse(d) for d in fn.args.defaults] != ["None"]:
        raise P.Unsupported("Locale.get: unexpected signature")
    body = [s for s in fn.body if not (isinstance(s, ast.Expr) and isinstance(s.value, ast.Constant))]
    idx = next((i for i, s in enumerate(body) if isinstance(s, ast.Try)), None)
    if idx is None or sum(isinstance(n, (ast.Try, ast.For)) for n in ast.walk(fn)) != 2:
        raise P.Unsupported("Locale.get: not exactly one try with one loop")
    t = body[idx]
    loop = t.body[-1] if t.body else None
    if not (isinstance(loop, ast.For) and ast.unparse(loop.target) == "part" and ast.unparse(loop.iter) == "parts[1:]" and not loop.orelse
            and len(loop.body) == 1 and isinstance(loop.body[0], ast.Assign) and ast.unparse(loop.body[0].targets[0]) == "result"
            and not any(isinstance(n, ast.Name) and n.id == "part" for s in body[idx + 1:] for n in ast.walk(s))):
        raise P.Unsupported("Locale.get: the loop does not have the recognised shape (`for part in parts[1:]: result = <e>` at the end of the try body)")
    step = ast.parse("def step(result, part):\n    pass").body[0]
    step.body = [GRw().visit(copy.deepcopy(loop.body[0])), ast.parse("return result").body[0]]
    ast.fix_missing_locations(step)
    text, rett, monad = _tr(g, step, "glue_Locale_get_step", {"result": "node", "part": S}, None,
                            f"translated from {where} :: Locale.get: the BODY of `for part in parts[1:]:`, as a function of the variables it reads;\n"
                            "   returns the variable it updates (result)", force_result=True)
    if rett != "node":
        raise P.Unsupported(f"Locale.get: unexpected step type {rett}")
    out.append(text)
    out.append("(* BY HAND: `for part in <list>: BODY` = the left fold of BODY over the list *)\n"
               "Fixpoint glue_Locale_get_loop (r : node) (l : lpstr) : result node :=\n"
               "  match l with\n  | [] => Ok r\n  | p :: t => match glue_Locale_get_step r p with Raise e => Raise e | Ok r' => glue_Locale_get_loop r' t end\n  end.\n")
    g.funcs["_loop"] = ("glue_Locale_get_loop", ["node", "lpstr"], "node", "result")
    t.body[-1] = ast.parse("result = _loop(result, parts[1:])").body[0]
    fn.body = [GRw().visit(s) for s in body]
    ast.fix_missing_locations(fn)
    fn = _thread_cache(fn, "kc_", "_kc_set")
    text, rett, monad = _tr_get(g, fn, "glue_Locale_get", {"kc_": KC, "key": S, "default": NODE}, "locale",
                                f"translated from {where} :: Locale.get (self._key_cache threaded as kc_; the loop is glue_Locale_get_loop)", force_result=True)
    if rett != (NODE, KC):
        raise P.Unsupported(f"Locale.get: unexpected type {rett}")
    out.append(text)

    fn = copy.deepcopy(P.find_function(loc_tree, "Locale.translation"))
    if [ast.unparse(x) for x in fn.body] != ["return self.get(f'translations.{key}')"]:
        raise P.Unsupported("Locale.translation changed")
    fn = ast.parse("def translation(kc_, self, key):\n    return _get(kc_, self, X)").body[0]
    fn.body[0].value.args[2] = GRw().visit(ast.parse("f'translations.{key}'").body[0].value)
    ast.fix_missing_locations(fn)
    g.kwfuncs["_get"] = ("glue_Locale_get", ["kc_", "self", "key", "default"], {"default": "None"}, [KC, "locale", S, NODE], (NODE, KC), "result")   # get's own default (checked above)
    text, rett, monad = _tr(g, fn, "glue_Locale_translation", {"kc_": KC, "key": S}, "locale",
                            f"translated from {where} :: Locale.translation: `return self.get(f'translations.{{key}}')` (kc_ threaded; default = None)", force_result=True)
    out.append(text)


def steps(ctx):
    return [("HumanizeGlue.v", lambda: gen(ctx))]
