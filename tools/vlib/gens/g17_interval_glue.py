"""Gen/IntervalGlue.v — pendulum's Interval construction and the `-` / diff entry points translated from /repo on every run.

coq/Model/IntervalLen.v is the hand-written model of this code (C05; C06 C18 C19 build on it); Proofs/IntervalGlueFacts.v proves the
hand model EQUAL to this translation (Props/C05.v model_is_code_interval_new, _sub_datetime, _rsub_datetime, _diff, ...).

TRANSLATED (py2gallina object fragment):
  src/pendulum/interval.py  Interval.__new__ up to `delta` (type checks, naive/aware check, the `absolute and start > end` swap, the native
                            rebuilds WITH fold, the same-tzinfo-OBJECT branch that removes the offsets by hand, the native subtraction)
  src/pendulum/datetime.py  DateTime.diff (dt given), DateTime.__sub__ and __rsub__ with a datetime operand (operand normalisation through
                            pendulum.naive / DateTime.instance)
  src/pendulum/date.py      Date.diff (dt given), Date.__sub__ with a date operand
  src/pendulum/__init__.py  naive
RECOGNISED SHAPES (anything else fails closed): cast(T, e) -> e; datetime(...) / date(...) in interval.py -> the NATIVE constructors,
  DateTime(...) / Date(...) / self.__class__(...) -> the same constructors producing a pendulum object (neither class defines __new__);
  `if a and x > y: body` (no else) -> `if a: if x > y: body` (x > y can raise, so it gets its own statement);
  the last statement of Interval.__new__, `return super().__new__(cls, seconds=delta.total_seconds())`, -> `return delta`: the tail
  (timedelta.total_seconds and Duration.__new__ on a float) is Spec/TdFloat.v total_seconds + Model/Duration.v (Props/C09.v model_is_code_duration_new);
  Interval(a, b, absolute=c) -> the translated __new__ (so diff / `-` are stated for the DELTA of the Interval they build; __init__ is not translated).
ASSUMPTIONS: the dt argument of diff is given (None = now() is out of scope); `isinstance(other, self.__class__)` with self an exact DateTime is
  "other is a pendulum DateTime"; tzinfo objects are None or pendulum timezone objects (as in g15); DateTime.instance is the translation of Gen/TzGlue.v.
HAND MODEL: coq/Model/IntervalObj.v (objects WITH their class tag, isinstance as tests on the tag, the native comparison / subtraction /
  utcoffset / constructors, each tied to a spec_is_stdlib theorem of C11).
"""
import ast
import copy

from .. import py2gallina as P
from ..gen import HEADER, src
from .g13_stdlib_zone import Specialise
from .g15_tz_glue import FIELDS, _tr

Z, B = P.Z, P.B
OB, TZ = "gobj", "gtz"
OTZ, OZ = ("opt", TZ), ("opt", Z)


class IRw(ast.NodeTransformer):
    def __init__(self, qual, native_ctors):
        self.qual, self.native = qual, native_ctors

    def visit_Call(self, node):
        self.generic_visit(node)
        f = ast.unparse(node.func)
        if f == "cast" and len(node.args) == 2 and not node.keywords:
            return node.args[1]
        ren = {"DateTime": "_o_pdt_new", "Date": "_o_pdate_new"}
        if self.native:
            ren.update({"datetime": "_o_dt_new", "date": "_o_date_new"})
        if f in ren:
            return ast.copy_location(ast.Call(func=ast.Name(id=ren[f], ctx=ast.Load()), args=node.args, keywords=node.keywords), node)
        return node

    def visit_If(self, node):
        self.generic_visit(node)
        t = node.test
        if (not node.orelse and isinstance(t, ast.BoolOp) and isinstance(t.op, ast.And) and len(t.values) == 2
                and isinstance(t.values[1], ast.Compare) and isinstance(t.values[1].ops[0], ast.Gt) and isinstance(t.values[0], ast.Name)):
            inner = ast.copy_location(ast.If(test=t.values[1], body=node.body, orelse=[]), node)
            return ast.copy_location(ast.If(test=t.values[0], body=[inner], orelse=[]), node)
        return node


def _prep(tree, qual, assume=None, native=False, drop_first=None):
    fn = copy.deepcopy(P.find_function(tree, qual))
    if assume is not None:
        sp = Specialise(qual, assume)
        fn = sp.visit(fn)
        if sp.used != set(assume):
            raise P.Unsupported(f"{qual}: assumptions used {sorted(sp.used)} differ from the expected {sorted(assume)}")
    if drop_first:
        if not fn.args.args or fn.args.args[0].arg != drop_first:
            raise P.Unsupported(f"{qual}: first parameter is not {drop_first}")
        fn.args.args = fn.args.args[1:]
    fn = IRw(qual, native).visit(fn)
    ast.fix_missing_locations(fn)
    return fn


def _ctx():
    c = P.Ctx()
    c.int_boolop = c.obj_fragment = c.conservative_exit = True
    c.attrs.update({f: ("o_" + f, Z) for f in FIELDS})
    c.attrs.update({"tzinfo": ("o_tz", OTZ), "fold": ("o_fold", Z)})
    for v in ("start", "end", "_start", "_end", "other", "dt"):
        c.opaque[f"isinstance({v}, datetime)"] = ("is_dt {" + v + "}", B)
        c.opaque[f"isinstance({v}, pendulum.DateTime)"] = ("is_pdt {" + v + "}", B)
        c.opaque[f"isinstance({v}, pendulum.Date)"] = ("is_pdate {" + v + "}", B)
    c.cmpops[("Is", OTZ, OTZ)] = "opt_gtz_is {l} {r}"
    c.cmpops[("Gt", OB, OB)] = ("obj_gt {l} {r}", "result")
    c.binops[("Sub", OB, OZ)] = ("o_sub_opt_td {l} {r}", OB, "result")
    c.binops[("Sub", OB, OB)] = ("o_sub {l} {r}", Z, "result")
    c.kwmethods[("utcoffset", OB)] = ("o_utcoffset", [], {}, [], OZ, None)
    c.kwtemplates[("replace", OB, ("tzinfo",))] = ("o_replace_tz {self} {tzinfo}", {"tzinfo": OTZ}, OB, None)
    dtp = FIELDS + ["tzinfo", "fold"]
    dtd = {"hour": "0", "minute": "0", "second": "0", "microsecond": "0", "tzinfo": "None", "fold": "0"}
    for name, coq in (("_o_dt_new", "o_dt_new"), ("_o_pdt_new", "o_pdt_new")):
        c.kwfuncs[name] = (coq, dtp, dtd, [Z] * 7 + [OTZ, Z], OB, "result")
    for name, coq in (("_o_date_new", "o_date_new"), ("_o_pdate_new", "o_pdate_new")):
        c.kwfuncs[name] = (coq, ["year", "month", "day"], {}, [Z, Z, Z], OB, "result")
    return c


def gen(_shared):
    iv_tree = ast.parse(open(src("interval.py")).read())
    dt_tree = ast.parse(open(src("datetime.py")).read())
    date_tree = ast.parse(open(src("date.py")).read())
    init_tree = ast.parse(open(src("__init__.py")).read())
    imps = [ast.unparse(n) for n in iv_tree.body if isinstance(n, ast.ImportFrom)]
    for want in ("from datetime import date", "from datetime import datetime", "from datetime import timedelta", "from typing import cast"):
        if want not in imps:
            raise P.Unsupported(f"interval.py: missing `{want}`")
    ivc = next((n for n in iv_tree.body if isinstance(n, ast.ClassDef) and n.name == "Interval"), None)
    if ivc is None or ast.unparse(ivc.bases[0]) != "Duration":
        raise P.Unsupported("interval.py: class Interval(Duration) not found")
    out = [HEADER % "src/pendulum/interval.py, datetime.py, date.py, __init__.py (Interval construction, `-`, diff)"]
    out.append("From PV Require Import Spec.Cal Spec.Zone Model.TzGlueObj Gen.TzGlue Model.IntervalObj.\n"
               "(* See tools/vlib/gens/g17_interval_glue.py: what is translated, the recognised rewrites, the assumptions and the hand model. *)\n")

    # ---------------- Interval.__new__ up to delta
    c = _ctx()
    fn = _prep(iv_tree, "Interval.__new__", native=True, drop_first="cls")
    if [a.arg for a in fn.args.args] != ["start", "end", "absolute"] or [ast.unparse(d) for d in fn.args.defaults] != ["False"]:
        raise P.Unsupported("Interval.__new__: unexpected signature")
    if ast.unparse(fn.body[-1]) != "return super().__new__(cls, seconds=delta.total_seconds())":
        raise P.Unsupported("Interval.__new__: the last statement is not `return super().__new__(cls, seconds=delta.total_seconds())`")
    fn.body[-1] = ast.parse("return delta").body[0]
    ast.fix_missing_locations(fn)
    text, rett, monad = _tr(c, fn, "glue_Interval_new_delta", {"start": OB, "end": OB, "absolute": B}, None,
                            "translated from src/pendulum/interval.py :: Interval.__new__ up to `delta` (the tail Duration.__new__(cls, "
                            "seconds=delta.total_seconds()) is Spec/TdFloat.v + Model/Duration.v)")
    if rett != Z or monad != "result":
        raise P.Unsupported("Interval.__new__: unexpected type of the translation")
    out.append(text)
    c.kwfuncs["Interval"] = ("glue_Interval_new_delta", ["start", "end", "absolute"], {"absolute": "false"}, [OB, OB, B], Z, "result")

    # ---------------- pendulum.naive, diff, __sub__, __rsub__
    fn = _prep(init_tree, "naive")
    if [a.arg for a in fn.args.args] != FIELDS + ["fold"] or [ast.unparse(d) for d in fn.args.defaults] != ["0", "0", "0", "0", "1"]:
        raise P.Unsupported("pendulum.naive: unexpected signature")
    text, rett, monad = _tr(c, fn, "glue_pendulum_naive", {p: Z for p in FIELDS + ["fold"]}, None, "translated from src/pendulum/__init__.py :: naive",
                            force_result=True)
    out.append(text)
    c.funcs["pendulum.naive"] = ("glue_pendulum_naive_7", [Z] * 7, OB, "result")
    out.append("Definition glue_pendulum_naive_7 (y m d h mi s us : Z) : result gobj := glue_pendulum_naive y m d h mi s us 1.   (* the default fold = 1 *)\n"
               "(* BY HAND: DateTime.instance(other) (tz defaults to UTC) on an object with its class: the translation Gen/TzGlue.v glue_DateTime_instance *)\n"
               "Definition o_instance (self other : gobj) : result gobj := o_of_gdt 3 (glue_DateTime_instance (o_gdt other) (Some g_UTC)).\n")
    c.kwmethods[("instance", OB)] = ("o_instance", ["dt"], {}, [OB], OB, "result")

    fn = _prep(dt_tree, "DateTime.diff", {"dt is None": False})
    text, rett, monad = _tr(c, fn, "glue_DateTime_diff_delta", {"dt": OB, "abs": B}, OB,
                            "translated from src/pendulum/datetime.py :: DateTime.diff (dt given); the DELTA of the Interval it builds", force_result=True)
    out.append(text)
    c.kwmethods[("diff", OB)] = ("glue_DateTime_diff_delta", ["dt", "abs"], {"abs": "true"}, [OB, B], Z, "result")
    c.opaque["isinstance(other, self.__class__)"] = ("is_pdt {other}", B)
    subf = [n for n in next(k for k in dt_tree.body if isinstance(k, ast.ClassDef) and k.name == "DateTime").body
            if isinstance(n, ast.FunctionDef) and n.name == "__sub__" and not P._is_overload(n)]
    if len(subf) != 1:
        raise P.Unsupported("DateTime.__sub__ not found exactly once")
    tmp = ast.Module(body=[ast.ClassDef(name="DateTime", bases=[], keywords=[], body=subf, decorator_list=[])], type_ignores=[])
    fn = _prep(tmp, "DateTime.__sub__", {"isinstance(other, datetime.timedelta)": False, "isinstance(other, datetime.datetime)": True})
    text, rett, monad = _tr(c, fn, "glue_DateTime___sub___datetime", {"other": OB}, OB,
                            "translated from src/pendulum/datetime.py :: DateTime.__sub__ SPECIALISED to a datetime operand", force_result=True)
    out.append(text)
    fn = _prep(dt_tree, "DateTime.__rsub__", {"isinstance(other, datetime.datetime)": True})
    text, rett, monad = _tr(c, fn, "glue_DateTime___rsub__", {"other": OB}, OB,
                            "translated from src/pendulum/datetime.py :: DateTime.__rsub__ SPECIALISED to a datetime operand", force_result=True)
    out.append(text)

    # ---------------- Date.diff, Date.__sub__ (date operand)
    cdte = _ctx()
    cdte.kwfuncs["Interval"] = c.kwfuncs["Interval"]
    cdte.kwfuncs["_o_pdate_new"] = c.kwfuncs["_o_pdate_new"]
    fn = _prep(date_tree, "Date.diff", {"dt is None": False})
    text, rett, monad = _tr(cdte, fn, "glue_Date_diff_delta", {"dt": OB, "abs": B}, OB,
                            "translated from src/pendulum/date.py :: Date.diff (dt given); the DELTA of the Interval it builds", force_result=True)
    out.append(text)
    cdte.kwmethods[("diff", OB)] = ("glue_Date_diff_delta", ["dt", "abs"], {"abs": "true"}, [OB, B], Z, "result")
    dsub = [n for n in next(k for k in date_tree.body if isinstance(k, ast.ClassDef) and k.name == "Date").body
            if isinstance(n, ast.FunctionDef) and n.name == "__sub__" and not P._is_overload(n)]
    tmp = ast.Module(body=[ast.ClassDef(name="Date", bases=[], keywords=[], body=dsub, decorator_list=[])], type_ignores=[])
    cdte.kwfuncs["self.__class__"] = cdte.kwfuncs["_o_pdate_new"]
    fn = _prep(tmp, "Date.__sub__", {"isinstance(other, timedelta)": False, "isinstance(other, date)": True})

    class SelfCls(ast.NodeTransformer):
        def visit_Call(self, node):
            self.generic_visit(node)
            if ast.unparse(node.func) == "self.__class__":
                return ast.copy_location(ast.Call(func=ast.Name(id="_o_pdate_new", ctx=ast.Load()), args=node.args, keywords=node.keywords), node)
            return node
    fn = SelfCls().visit(fn)
    ast.fix_missing_locations(fn)
    text, rett, monad = _tr(cdte, fn, "glue_Date___sub___date", {"other": OB}, OB,
                            "translated from src/pendulum/date.py :: Date.__sub__ SPECIALISED to a date operand (self an exact Date)", force_result=True)
    out.append(text)
    # ---------------- pendulum.instance / pendulum.date (objects that are dates or datetimes), Interval.__init__ up to precise_diff
    ci = _ctx()
    ci.kwfuncs["_o_pdate_new"] = c.kwfuncs["_o_pdate_new"]
    fn = _prep(init_tree, "date")
    text, rett, monad = _tr(ci, fn, "glue_pendulum_date", {"year": Z, "month": Z, "day": Z}, None, "translated from src/pendulum/__init__.py :: date",
                            force_result=True)
    out.append(text)
    ci.funcs["date"] = ("glue_pendulum_date", [Z, Z, Z], OB, "result")
    ci.funcs["pendulum.date"] = ci.funcs["date"]
    ci.opaque["isinstance(obj, (DateTime, Date, Time))"] = ("is_pdate {obj}", B)
    ci.opaque["isinstance(obj, _datetime.date)"] = ("true", B)
    ci.opaque["isinstance(obj, _datetime.datetime)"] = ("is_dt {obj}", B)
    out.append("(* BY HAND: DateTime.instance(obj, tz=tz) on a class-tagged object: the translation Gen/TzGlue.v glue_DateTime_instance *)\n"
               "Definition o_dt_instance (obj : gobj) (tz : option gtz) : result gobj := o_of_gdt 3 (glue_DateTime_instance (o_gdt obj) tz).\n")
    ci.kwfuncs["DateTime.instance"] = ("o_dt_instance", ["dt", "tz"], {"tz": "(Some g_UTC)"}, [OB, OTZ], OB, "result")
    insts = [n for n in init_tree.body if isinstance(n, ast.FunctionDef) and n.name == "instance" and not P._is_overload(n)]
    if len(insts) != 1:
        raise P.Unsupported("__init__.py: pendulum.instance not found exactly once")
    sp = Specialise("instance", {"isinstance(obj, _datetime.time)": False})
    fn = sp.visit(copy.deepcopy(insts[0]))
    if sp.used != {"isinstance(obj, _datetime.time)"}:
        raise P.Unsupported("pendulum.instance: the time branch disappeared")

    class InstRw(ast.NodeTransformer):
        def visit_Call(self, node):
            self.generic_visit(node)
            if ast.unparse(node.func) == "DateTime.instance":
                return ast.copy_location(ast.Call(func=ast.Name(id="DateTime.instance", ctx=ast.Load()), args=node.args, keywords=node.keywords), node)
            return node
    fn = InstRw().visit(IRw("instance", False).visit(fn))
    ast.fix_missing_locations(fn)
    if [a.arg for a in fn.args.args] != ["obj", "tz"] or [ast.unparse(d) for d in fn.args.defaults] != ["UTC"]:
        raise P.Unsupported("pendulum.instance: unexpected signature")
    ci.consts["UTC"] = ("g_UTC", TZ)
    text, rett, monad = _tr(ci, fn, "glue_pendulum_instance", {"obj": OB, "tz": OTZ}, None,
                            "translated from src/pendulum/__init__.py :: instance SPECIALISED to an object that is a date or a datetime "
                            "(isinstance(obj, _datetime.time) = False; isinstance(obj, _datetime.date) = True)", force_result=True)
    if rett != OB or monad != "result":
        raise P.Unsupported("pendulum.instance: unexpected type")
    out.append(text)
    ci.kwfuncs["pendulum.instance"] = ("glue_pendulum_instance", ["obj", "tz"], {"tz": "(Some g_UTC)"}, [OB, OTZ], OB, "result")

    fn = _prep(iv_tree, "Interval.__init__", native=True)
    if [a.arg for a in fn.args.args] != ["self", "start", "end", "absolute"]:
        raise P.Unsupported("Interval.__init__: unexpected signature")
    body = fn.body
    if ast.unparse(body[0]) != "super().__init__()" or ast.unparse(body[-1]) != "self._delta: PreciseDiff = precise_diff(_start, _end)":
        raise P.Unsupported("Interval.__init__: first / last statement changed")
    stores = []

    class SelfStores(ast.NodeTransformer):
        def visit_Assign(self, node):
            self.generic_visit(node)
            if len(node.targets) == 1 and isinstance(node.targets[0], ast.Attribute) and ast.unparse(node.targets[0].value) == "self":
                stores.append(node.targets[0].attr)
                return ast.copy_location(ast.Assign(targets=[ast.Name(id="s" + node.targets[0].attr, ctx=ast.Store())], value=node.value), node)
            return node

        def visit_AnnAssign(self, node):
            self.generic_visit(node)
            if isinstance(node.target, ast.Attribute) and ast.unparse(node.target.value) == "self":
                stores.append(node.target.attr)
                return ast.copy_location(ast.Assign(targets=[ast.Name(id="s" + node.target.attr, ctx=ast.Store())], value=node.value), node)
            if node.value is None:
                return None          # a bare annotation `_start: _T`
            return node
    fn.body = body[1:-1]
    fn = SelfStores().visit(fn)
    if sorted(set(stores)) != ["_absolute", "_end", "_invert", "_start"]:
        raise P.Unsupported(f"Interval.__init__: unexpected attribute stores {sorted(set(stores))}")
    fn.body.append(ast.parse("return (s_invert, s_start, s_end, _start, _end)").body[0])
    fn.args.args = fn.args.args[1:]
    ast.fix_missing_locations(fn)

    class PInst(ast.NodeTransformer):
        def visit_Call(self, node):
            self.generic_visit(node)
            if ast.unparse(node.func) == "pendulum.instance":
                return ast.copy_location(ast.Call(func=ast.Name(id="pendulum.instance", ctx=ast.Load()), args=node.args, keywords=node.keywords), node)
            return node
    fn = PInst().visit(fn)
    ast.fix_missing_locations(fn)
    text, rett, monad = _tr(ci, fn, "glue_Interval_init", {"start": OB, "end": OB, "absolute": B}, None,
                            "translated from src/pendulum/interval.py :: Interval.__init__ up to precise_diff; RECOGNISED SHAPE: the attribute stores "
                            "self._invert / _absolute / _start / _end become locals and the function returns (invert, start, end, _start, _end): the "
                            "state it stores and the two NATIVE values it hands to precise_diff (self._delta = precise_diff(_start, _end) is the last "
                            "statement, checked)", force_result=True)
    out.append(text)

    # ---------------- the component properties that read the PreciseDiff (`self._delta`) and Duration._days / _sign
    out.append("From PV Require Import Model.PdBase.\n(* an Interval as far as its component properties read it: the PreciseDiff and Duration._days; "
               "BY HAND: Duration._sign(x) = -1 if x < 0 else 1 (checked by shape) *)\n"
               "Record givs := mkgivs { gi_delta : pdiff; gi_days : Z }.\nDefinition g_sign (x : Z) : Z := if x <? 0 then -1 else 1.\n")
    dur_tree = ast.parse(open(src("duration.py")).read())
    sg = P.find_function(dur_tree, "Duration._sign")
    sgb = [ast.unparse(st) for st in sg.body if not (isinstance(st, ast.Expr) and isinstance(st.value, ast.Constant))]
    if sgb != ["if value < 0:\n    return -1", "return 1"]:
        raise P.Unsupported(f"Duration._sign changed: {sgb}")
    cp = P.Ctx()
    cp.int_boolop = cp.obj_fragment = True
    cp.attrs.update({"_delta": ("gi_delta", "pdiff"), "_days": ("gi_days", Z), "years": ("pd_years", Z), "months": ("pd_months", Z),
                     "days": ("pd_days", Z), "hours": ("pd_hours", Z), "minutes": ("pd_minutes", Z), "total_days": ("pd_total_days", Z)})
    cp.kwmethods[("_sign", "givs")] = ("(fun _ : givs => g_sign)", ["value"], {}, [Z], Z, None)
    mpy = [n for n in ast.parse(open(src("constants.py")).read()).body if isinstance(n, ast.Assign) and ast.unparse(n) == "MONTHS_PER_YEAR = 12"]
    if len(mpy) != 1:
        raise P.Unsupported("constants.py: MONTHS_PER_YEAR is not 12")
    cp.consts["MONTHS_PER_YEAR"] = ("12", Z)
    props = ("years", "months", "weeks", "remaining_days", "hours", "minutes")
    for name in props:
        f_ = copy.deepcopy(P.find_function(iv_tree, "Interval." + name))
        if [ast.unparse(d) for d in f_.decorator_list] != ["property"]:
            raise P.Unsupported(f"Interval.{name} is not a property")
        text, rett, monad = _tr(cp, f_, "glue_Interval_" + name, {}, "givs", f"translated from src/pendulum/interval.py :: Interval.{name} (property)")
        out.append(text)
    # in_* read the properties of the same object
    cp2 = copy.copy(cp)
    cp2.attrs = dict(cp.attrs)
    cp2.attrs.update({"years": ("glue_Interval_years", Z), "months": ("glue_Interval_months", Z)})
    for name in ("in_years", "in_months", "in_days"):
        f_ = copy.deepcopy(P.find_function(iv_tree, "Interval." + name))
        text, rett, monad = _tr(cp2, f_, "glue_Interval_" + name, {}, "givs", f"translated from src/pendulum/interval.py :: Interval.{name}")
        out.append(text)
    cp2.kwmethods = dict(cp.kwmethods)
    cp2.kwmethods[("in_days", "givs")] = ("glue_Interval_in_days", [], {}, [], Z, None)
    f_ = copy.deepcopy(P.find_function(iv_tree, "Interval.in_weeks"))
    text, rett, monad = _tr(cp2, f_, "glue_Interval_in_weeks", {}, "givs", "translated from src/pendulum/interval.py :: Interval.in_weeks")
    out.append(text)
    # ---------------- Interval.__abs__ / __neg__ (the DELTA of the Interval they build)
    out.append("(* an existing Interval as far as __abs__ / __neg__ read it: its stored endpoints and _absolute *)\n"
               "Record giv := mkgiv { gv_start : gobj; gv_end : gobj; gv_abs : bool }.\n")
    cv = _ctx()
    cv.kwfuncs["Interval"] = c.kwfuncs["Interval"]
    cv.attrs.update({"start": ("gv_start", OB), "end": ("gv_end", OB), "_absolute": ("gv_abs", B)})
    for prop, slot in (("start", "_start"), ("end", "_end")):
        pf = P.find_function(iv_tree, "Interval." + prop)
        if [ast.unparse(st) for st in pf.body] != [f"return self.{slot}"] or [ast.unparse(d) for d in pf.decorator_list] != ["property"]:
            raise P.Unsupported(f"Interval.{prop} is not the property returning self.{slot}")

    class ClsIv(ast.NodeTransformer):
        def visit_Call(self, node):
            self.generic_visit(node)
            if ast.unparse(node.func) == "self.__class__":
                return ast.copy_location(ast.Call(func=ast.Name(id="Interval", ctx=ast.Load()), args=node.args, keywords=node.keywords), node)
            return node
    for meth in ("__abs__", "__neg__"):
        f_ = ClsIv().visit(copy.deepcopy(P.find_function(iv_tree, "Interval." + meth)))
        ast.fix_missing_locations(f_)
        text, rett, monad = _tr(cv, f_, f"glue_Interval_{meth}_delta", {}, "giv",
                                f"translated from src/pendulum/interval.py :: Interval.{meth} (self.__class__ = Interval); the DELTA of the Interval it builds",
                                force_result=True)
        out.append(text)
    return "\n".join(out) + "\n"


def steps(ctx):
    return [("IntervalGlue.v", lambda: gen(ctx))]
