"""Gen/WeekdayNav.v — the loop skeletons of Date/DateTime.next and .previous translated from /repo (property C16).

A small monadic (result) statement translator for exactly the shapes these four methods use; anything else raises
P.Unsupported (fail closed).  The generated definitions are proved equal to the hand model in Proofs/C16Gen.v, so a change of
the loop, of its direction, of the weekday range check or of the keep_time handling breaks that proof.
Primitives (named in Model/Weekday.v): X.add(days=k) -> date_add_days / t_add_days, X.subtract(days=k) -> the same with -k
(Date.subtract/DateTime.subtract negate every argument; checked structurally below), X.day_of_week -> dow,
self.start_of("day") -> t_start_of_day, WeekDay.<NAME> -> the IntEnum value read from day.py.
The while loop becomes a Fixpoint on explicit fuel 7 (Props/C16.v next_fuel_7 / previous_fuel_7: never exhausted)."""
import ast

from .. import py2gallina as P
from ..gen import HEADER, src

FUEL = 7


def _weekday_values():
    tree = ast.parse(open(src("day.py")).read())
    cls = next((n for n in tree.body if isinstance(n, ast.ClassDef) and n.name == "WeekDay"), None)
    if cls is None:
        raise P.Unsupported("day.py: class WeekDay not found")
    vals = {}
    for n in cls.body:
        if isinstance(n, ast.Assign) and len(n.targets) == 1 and isinstance(n.targets[0], ast.Name) and isinstance(n.value, ast.Constant) \
                and isinstance(n.value.value, int):
            vals[n.targets[0].id] = n.value.value
        else:
            raise P.Unsupported("day.py: unexpected statement in WeekDay")
    return vals


def _check_subtract_negates(path, cls):
    """X.subtract(...) must be `return self.add(a=-a, ...)` for every parameter"""
    fn = P.find_function(ast.parse(open(path).read()), cls + ".subtract")
    body = [s for s in fn.body if not (isinstance(s, ast.Expr) and isinstance(s.value, ast.Constant))]
    ok = (len(body) == 1 and isinstance(body[0], ast.Return) and isinstance(body[0].value, ast.Call)
          and ast.unparse(body[0].value.func) == "self.add" and not body[0].value.args)
    if ok:
        params = [a.arg for a in fn.args.args if a.arg != "self"]
        kws = {k.arg: ast.unparse(k.value) for k in body[0].value.keywords}
        ok = kws == {p: "-" + p for p in params}
    if not ok:
        raise P.Unsupported(f"{cls}.subtract is not `return self.add(<every argument negated>)`")


class Nav:
    def __init__(self, cls, fn, wdvals):
        self.cls, self.fn, self.wd = cls, fn, wdvals
        self.is_dt = cls == "DateTime"
        self.obj = "pdt" if self.is_dt else "pdate"
        self.name = f"py_{cls}_{fn.name}"
        self.env = {}
        self.loops = []

    def fail(self, node, why):
        raise P.Unsupported(f"{self.cls}.{self.fn.name}: line {getattr(node, 'lineno', '?')}: {why}: {ast.unparse(node)[:80]}")

    # expressions -> (coq, type, monadic)
    def expr(self, e):
        if isinstance(e, ast.Name):
            if e.id not in self.env:
                self.fail(e, "unknown name")
            return ("v_" + e.id, self.env[e.id], False)
        if isinstance(e, ast.Attribute) and isinstance(e.value, ast.Name):
            if e.value.id == "WeekDay":
                if e.attr not in self.wd:
                    self.fail(e, "unknown WeekDay member")
                return (str(self.wd[e.attr]), "Z", False)
            if e.attr == "day_of_week" and self.env.get(e.value.id) == self.obj:
                return (f"(dow (t_date v_{e.value.id}))" if self.is_dt else f"(dow v_{e.value.id})", "Z", False)
        if isinstance(e, ast.Compare) and len(e.ops) == 1:
            a, ta, ma = self.expr(e.left)
            b, tb, mb = self.expr(e.comparators[0])
            if ma or mb or ta != "Z" or tb != "Z":
                self.fail(e, "comparison of non-integers")
            op = e.ops[0]
            if isinstance(op, ast.Lt):
                return (f"({a} <? {b})", "bool", False)
            if isinstance(op, ast.Gt):
                return (f"({a} >? {b})", "bool", False)
            if isinstance(op, ast.Eq):
                return (f"({a} =? {b})", "bool", False)
            if isinstance(op, ast.NotEq):
                return (f"(negb ({a} =? {b}))", "bool", False)
            self.fail(e, "comparison operator")
        if isinstance(e, ast.BoolOp):
            parts = [self.expr(x) for x in e.values]
            if any(m or t != "bool" for _, t, m in parts):
                self.fail(e, "boolean operator on non-booleans")
            return ("(" + (" || " if isinstance(e.op, ast.Or) else " && ").join(p[0] for p in parts) + ")", "bool", False)
        if isinstance(e, ast.IfExp):
            c, tc, mc = self.expr(e.test)
            a, ta, ma = self.expr(e.body)
            b, tb, mb = self.expr(e.orelse)
            if mc or tc != "bool" or ta != tb:
                self.fail(e, "conditional expression")
            if ma or mb:
                a = a if ma else f"(Ok {a})"
                b = b if mb else f"(Ok {b})"
            return (f"(if {c} then {a} else {b})", ta, ma or mb)
        if isinstance(e, ast.Call) and isinstance(e.func, ast.Attribute) and isinstance(e.func.value, ast.Name) \
                and self.env.get(e.func.value.id) == self.obj:
            x = "v_" + e.func.value.id
            m = e.func.attr
            if m in ("add", "subtract") and not e.args and len(e.keywords) == 1 and e.keywords[0].arg == "days" \
                    and isinstance(e.keywords[0].value, ast.Constant) and isinstance(e.keywords[0].value.value, int):
                k = e.keywords[0].value.value * (1 if m == "add" else -1)
                ks = f"({k})" if k < 0 else str(k)
                return (f"({'t_add_days' if self.is_dt else 'date_add_days'} {x} {ks})", self.obj, True)
            if m == "start_of" and self.is_dt and len(e.args) == 1 and isinstance(e.args[0], ast.Constant) and e.args[0].value == "day" \
                    and not e.keywords:
                return (f"(t_start_of_day {x})", self.obj, True)
        self.fail(e, "unsupported expression")

    def block(self, stmts):
        if not stmts:
            self.fail(self.fn, "a path falls off the end")
        s, rest = stmts[0], stmts[1:]
        if isinstance(s, ast.Expr) and isinstance(s.value, ast.Constant) and isinstance(s.value.value, str):
            return self.block(rest)
        if isinstance(s, ast.If) and not s.orelse and len(s.body) == 1:
            b = s.body[0]
            t = s.test
            # if v is None: v = <default>
            if (isinstance(t, ast.Compare) and isinstance(t.left, ast.Name) and len(t.ops) == 1 and isinstance(t.ops[0], ast.Is)
                    and isinstance(t.comparators[0], ast.Constant) and t.comparators[0].value is None
                    and isinstance(b, ast.Assign) and len(b.targets) == 1 and isinstance(b.targets[0], ast.Name)
                    and b.targets[0].id == t.left.id and self.env.get(t.left.id) == "option Z"):
                d, td, md = self.expr(b.value)
                if md or td != "Z":
                    self.fail(s, "default of an optional integer")
                v = "v_" + t.left.id
                self.env[t.left.id] = "Z"
                return f"let {v} := match {v} with None => {d} | Some w => w end in\n  " + self.block(rest)
            if isinstance(b, ast.Raise):
                c, tc, mc = self.expr(t)
                if mc or tc != "bool":
                    self.fail(s, "condition")
                kind = b.exc.func.id if isinstance(b.exc, ast.Call) and isinstance(b.exc.func, ast.Name) else None
                if kind not in ("ValueError", "TypeError", "OverflowError"):
                    self.fail(s, "exception kind")
                return f"if {c} then Raise E_{kind} else\n  " + self.block(rest)
        if isinstance(s, ast.Assign) and len(s.targets) == 1 and isinstance(s.targets[0], ast.Name):
            e, t, m = self.expr(s.value)
            x = s.targets[0].id
            self.env[x] = t
            if m:
                return f"bind {e} (fun v_{x} =>\n  " + self.block(rest) + ")"
            return f"let v_{x} := {e} in\n  " + self.block(rest)
        if isinstance(s, ast.While) and not s.orelse and len(s.body) == 1 and isinstance(s.body[0], ast.Assign) \
                and len(s.body[0].targets) == 1 and isinstance(s.body[0].targets[0], ast.Name):
            x = s.body[0].targets[0].id
            if self.env.get(x) != self.obj:
                self.fail(s, "loop variable")
            c, tc, mc = self.expr(s.test)
            e, te, me = self.expr(s.body[0].value)
            if mc or tc != "bool" or not me or te != self.obj:
                self.fail(s, "loop shape")
            reads = sorted({n.id for n in ast.walk(s) if isinstance(n, ast.Name) and n.id in self.env and n.id != x})
            lname = f"{self.name}_loop"
            if self.loops:
                self.fail(s, "second loop")
            sig = " ".join(f"(v_{r} : {self.env[r]})" for r in reads)
            args = " ".join("v_" + r for r in reads)
            self.loops.append(
                f"Fixpoint {lname} (fuel : nat) {sig} (v_{x} : {self.obj}) {{struct fuel}} : result {self.obj} :=\n"
                f"  match fuel with\n  | O => Raise E_OutOfFuel\n  | S fuel' =>\n"
                f"    if {c} then bind {e} ({lname} fuel' {args}) else Ok v_{x}\n  end.\n")
            return f"bind ({lname} {FUEL}%nat {args} v_{x}) (fun v_{x} =>\n  " + self.block(rest) + ")"
        if isinstance(s, ast.Return) and s.value is not None:
            e, t, m = self.expr(s.value)
            if t != self.obj:
                self.fail(s, "return type")
            return e if m else f"Ok {e}"
        self.fail(s, "unsupported statement")

    def translate(self):
        params = []
        for a in self.fn.args.args:
            ann = ast.unparse(a.annotation) if a.annotation else ""
            if a.arg == "self":
                t = self.obj
            elif ann == "WeekDay | None":
                t = "option Z"
            elif ann == "bool":
                t = "bool"
            else:
                self.fail(a, "parameter type")
            self.env[a.arg] = t
            params.append(f"(v_{a.arg} : {t})")
        body = self.block(self.fn.body)
        return "".join(self.loops) + f"Definition {self.name} {' '.join(params)} : result {self.obj} :=\n  {body}.\n"


def gen(ctx):
    wd = _weekday_values()
    out = [HEADER % "src/pendulum/date.py, src/pendulum/datetime.py, src/pendulum/day.py (next/previous loop skeletons)",
           "From PV Require Import Spec.Cal Model.Weekday.\n"]
    for cls, rel in (("Date", "date.py"), ("DateTime", "datetime.py")):
        path = src(rel)
        _check_subtract_negates(path, cls)
        tree = ast.parse(open(path).read())
        for m in ("next", "previous"):
            fn = P.find_function(tree, f"{cls}.{m}")
            out.append(f"(* translated from src/pendulum/{rel} :: {cls}.{m} *)\n" + Nav(cls, fn, wd).translate())
    return "\n".join(out)


def steps(ctx):
    return [("WeekdayNav.v", lambda: gen(ctx))]
