"""C13: the regex AST of parsing/iso8601.py::ISO8601_DURATION, obtained from the pattern string in /repo through CPython's own
pattern parser (re._parser) and printed as a term of Model/C07Regex.v (same printer as g30_iso8601 for ISO8601_DT).

The pattern uses unbounded repetitions (`\\d+`); the matcher of Model/C07Regex.v has bounded ones (`RRep a mn mx`, structural on
mx).  The AST is therefore a FUNCTION of a bound n: every unbounded repetition is printed `RRep a mn n`.  On an input of
length <= n this is the unbounded repetition (a repetition body consumes at least one character here: the generator checks that
every unbounded repetition has a body that cannot match the empty string), and the models instantiate n with the input length.
Fails closed (P.Unsupported) on any construct outside this fragment."""
import re
import re._parser as sre_parser
import re._constants as sre_c

from .. import py2gallina as P
from ..gen import HEADER, src
from .g30_iso8601 import _pattern_of, _seq, _set


def _min_width(sub):
    return sub.getwidth()[0]


def _re(sub):
    items = []
    for op, av in sub:
        if op is sre_c.LITERAL:
            items.append(f"(RLit {av})")
        elif op is sre_c.IN:
            items.append(_set(av))
        elif op is sre_c.MAX_REPEAT:
            mn, mx, body = av
            if mx is sre_c.MAXREPEAT:
                if _min_width(body) < 1:
                    raise P.Unsupported("regex: unbounded repetition of a body that can match the empty string")
                items.append(f"(RRep {_re(body)} {mn}%nat n)")
            elif mx > 64:
                raise P.Unsupported("regex: large bounded repetition")
            else:
                items.append(f"(RRep {_re(body)} {mn}%nat {mx}%nat)")
        elif op is sre_c.SUBPATTERN:
            g, addf, delf, body = av
            if addf or delf:
                raise P.Unsupported("regex: inline flags")
            items.append(_re(body) if g is None else f"(RGrp {g}%nat {_re(body)})")
        elif op is sre_c.BRANCH:
            alts = [_re(b) for b in av[1]]
            out = alts[-1]
            for a in reversed(alts[:-1]):
                out = f"(RAlt {a} {out})"
            items.append(out)
        elif op is sre_c.AT and av is sre_c.AT_BEGINNING:
            items.append("RBeg")
        elif op is sre_c.AT and av is sre_c.AT_END:
            items.append("REnd")
        else:
            raise P.Unsupported(f"regex: construct {op} {av}")
    return _seq(items)


def gen_dur_ast(ctx):
    pat = _pattern_of(src("parsing/iso8601.py"), "ISO8601_DURATION")
    p = sre_parser.parse(pat, re.VERBOSE)
    lines = [f"Definition DUR_RE (n : nat) : re :=\n  {_re(p)}.",
             f"Definition DUR_NGROUPS : nat := {p.state.groups - 1}%nat."]
    for name, idx in sorted(p.state.groupdict.items(), key=lambda kv: kv[1]):
        lines.append(f"Definition G_DUR_{name} : nat := {idx}%nat.")
    return (HEADER % "src/pendulum/parsing/iso8601.py::ISO8601_DURATION (regex AST; unbounded repetitions bounded by n)"
            + "From PV Require Import Model.C07Regex.\n\n" + "\n".join(lines) + "\n")


def steps(ctx):
    return [("DurRegexAst.v", lambda: gen_dur_ast(ctx))]
