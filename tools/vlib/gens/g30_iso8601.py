"""C07: generated files for the ISO 8601 parsers.

Gen/IsoRegex.v  — the regex ASTs of parsing/iso8601.py::ISO8601_DT and parsing/__init__.py::COMMON, obtained from the pattern
                  strings in /repo through CPython's own pattern parser (re._parser) and printed as terms of Model/C07Regex.v.
Gen/IsoPost.v   — the integer post-match code of parsing/iso8601.py translated with py2gallina:
                  * the ordinal-day loop of parse_iso8601 (`for i in range(1, 14): if ordinal <= months_offsets[i]: ...`),
                    cut out of the function body and wrapped as  py_iso_ordinal_md(year, ordinal) -> (month, day);
                  * the integer core of _get_iso_8601_week (range checks, ordinal arithmetic, year adjustment), i.e. the
                    statements between the str->int conversions and the strptime call, wrapped as
                    py_iso_week_core(year, week, weekday) -> (year, ordinal).
Everything fails closed (P.Unsupported) when the source no longer has the expected shape."""
import ast
import copy
import re
import re._parser as sre_parser
import re._constants as sre_c

from .. import py2gallina as P
from ..gen import HEADER, src, zlit


# ------------------------------------------------------------------ regex -> Gallina
def _pattern_of(path, name):
    tree = ast.parse(open(path).read())
    for n in tree.body:
        if isinstance(n, ast.Assign) and len(n.targets) == 1 and isinstance(n.targets[0], ast.Name) and n.targets[0].id == name:
            call = n.value
            if not (isinstance(call, ast.Call) and ast.unparse(call.func) == "re.compile" and len(call.args) == 2
                    and ast.unparse(call.args[1]) == "re.VERBOSE" and isinstance(call.args[0], ast.Constant)
                    and isinstance(call.args[0].value, str)):
                raise P.Unsupported(f"{name}: not re.compile(<string literal>, re.VERBOSE)")
            return call.args[0].value
    raise P.Unsupported(f"{name}: pattern not found in {path}")


def _seq(items):
    if not items:
        return "REps"
    out = items[-1]
    for it in reversed(items[:-1]):
        out = f"(RSeq {it} {out})"
    return out


def _set(av):
    neg = False
    rs = []
    for op, a in av:
        if op is sre_c.NEGATE:
            neg = True
        elif op is sre_c.LITERAL:
            rs.append((a, a))
        elif op is sre_c.RANGE:
            rs.append((a[0], a[1]))
        elif op is sre_c.CATEGORY and a is sre_c.CATEGORY_DIGIT:
            rs.append((48, 57))      # ASCII inputs (recorded assumption)
        else:
            raise P.Unsupported(f"regex: set item {op} {a}")
    return f"(RIn {'true' if neg else 'false'} [" + "; ".join(f"({zlit(a)}, {zlit(b)})" for a, b in rs) + "])"


def _re(sub):
    items = []
    for op, av in sub:
        if op is sre_c.LITERAL:
            items.append(f"(RLit {av})")
        elif op is sre_c.IN:
            items.append(_set(av))
        elif op is sre_c.MAX_REPEAT:
            mn, mx, body = av
            if mx is sre_c.MAXREPEAT or mx > 64:
                raise P.Unsupported("regex: unbounded repetition")
            items.append(f"(RRep {_re(body)} {mn}%nat {mx}%nat)")
        elif op is sre_c.SUBPATTERN:
            g, addf, delf, body = av
            if addf or delf:
                raise P.Unsupported("regex: inline flags")
            items.append(_re(body) if g is None else f"(RGrp {g}%nat {_re(body)})")
        elif op is sre_c.BRANCH:
            alts = [_re(b) for b in av[1]]
            out = alts[-1]
            for a in reversed(alts[:-1]):
                out = f"(RAlt {a} {out})"
            items.append(out)
        elif op is sre_c.AT and av is sre_c.AT_BEGINNING:
            items.append("RBeg")
        elif op is sre_c.AT and av is sre_c.AT_END:
            items.append("REnd")
        else:
            raise P.Unsupported(f"regex: construct {op} {av}")
    return _seq(items)


def _regex_def(path, pyname, prefix):
    pat = _pattern_of(path, pyname)
    p = sre_parser.parse(pat, re.VERBOSE)
    lines = [f"Definition {prefix}_RE : re :=\n  {_re(p)}.",
             f"Definition {prefix}_NGROUPS : nat := {p.state.groups - 1}%nat."]
    for name, idx in sorted(p.state.groupdict.items(), key=lambda kv: kv[1]):
        lines.append(f"Definition G_{prefix}_{name} : nat := {idx}%nat.")
    return "\n".join(lines) + "\n"


def gen_regex(ctx):
    return (HEADER % "src/pendulum/parsing/iso8601.py::ISO8601_DT and src/pendulum/parsing/__init__.py::COMMON"
            + "From PV Require Import Model.C07Regex.\n\n"
            + _regex_def(src("parsing/iso8601.py"), "ISO8601_DT", "ISO") + "\n"
            + _regex_def(src("parsing/__init__.py"), "COMMON", "COMMON"))


# ------------------------------------------------------------------ integer post-match code
def _for_to_while(node):
    """for i in range(a, b): body   ->   i = a; while i < b: body'; i += 1   (body' = body, `break` kept)"""
    if not (isinstance(node.target, ast.Name) and isinstance(node.iter, ast.Call) and ast.unparse(node.iter.func) == "range"
            and len(node.iter.args) == 2 and not node.orelse):
        raise P.Unsupported("ordinal loop: not `for i in range(a, b)`")
    i = node.target.id
    a, b = node.iter.args
    init = ast.Assign(targets=[ast.Name(id=i, ctx=ast.Store())], value=a, lineno=node.lineno)
    inc = ast.AugAssign(target=ast.Name(id=i, ctx=ast.Store()), op=ast.Add(), value=ast.Constant(value=1), lineno=node.lineno)
    wh = ast.While(test=ast.Compare(left=ast.Name(id=i, ctx=ast.Load()), ops=[ast.Lt()], comparators=[b]),
                   body=list(node.body) + [inc], orelse=[], lineno=node.lineno)
    return [init, wh]


def _mkfun(name, params, body):
    args = ast.arguments(posonlyargs=[], args=[ast.arg(arg=p, annotation=ast.Name(id="int", ctx=ast.Load())) for p in params],
                         vararg=None, kwonlyargs=[], kw_defaults=[], kwarg=None, defaults=[])
    fn = ast.FunctionDef(name=name, args=args, body=body, decorator_list=[], returns=None, lineno=1)
    ast.fix_missing_locations(fn)
    return fn


def gen_post(ctx):
    path = src("parsing/iso8601.py")
    tree = ast.parse(open(path).read())
    # helpers translated in Gen/Helpers.v must be registered (g10_base runs first and shares ctx)
    for f in ("is_leap", "is_long_year", "week_day", "days_in_year"):
        if f not in ctx.funcs:
            raise P.Unsupported(f"helper {f} not translated")
    if "MONTHS_OFFSETS" not in ctx.consts:
        raise P.Unsupported("MONTHS_OFFSETS not translated")
    out = []

    # --- ordinal loop inside parse_iso8601
    fn = P.find_function(tree, "parse_iso8601")
    hit = [n for n in ast.walk(fn) if isinstance(n, ast.If)
           and ast.unparse(n.test) == "not m.group('daysep') and len(m.group('day')) == 1"]
    if len(hit) != 1:
        raise P.Unsupported("parse_iso8601: ordinal branch not found")
    body = hit[0].body
    if not (len(body) == 5 and ast.unparse(body[0]) == "ordinal = int(m.group('month') + m.group('day'))"
            and isinstance(body[4], ast.For)):
        raise P.Unsupported("parse_iso8601: ordinal branch has an unexpected shape: " + ast.unparse(hit[0])[:200])
    if ast.unparse(hit[0].orelse) != "month = int(m.group('month'))\nday = int(m.group('day'))":
        raise P.Unsupported("parse_iso8601: month/day branch has an unexpected shape")
    pre = ast.parse("month = 1\nday = 1").body          # the defaults set at the top of parse_iso8601
    tops = [ast.unparse(s) for s in fn.body]
    if "month = 1" not in tops or "day = 1" not in tops:
        raise P.Unsupported("parse_iso8601: defaults month = 1 / day = 1 not found")
    stmts = pre + [copy.deepcopy(s) for s in body[1:4]] + _for_to_while(copy.deepcopy(body[4])) + ast.parse("return (month, day)").body
    f1 = _mkfun("iso_ordinal_md", ["year", "ordinal"], stmts)
    tr = P.FunTr(ctx, f1, "py_iso_ordinal_md")
    text, argt, rett, monad = tr.translate()
    out.append("(* translated from src/pendulum/parsing/iso8601.py :: parse_iso8601, the `# Ordinal day` branch *)\n" + text)

    # --- integer core of _get_iso_8601_week
    fw = P.find_function(tree, "_get_iso_8601_week")
    b = fw.body
    head = [ast.unparse(s) for s in b[:3]]
    tail = [ast.unparse(s) for s in b[-4:]]
    if head != ["weekday = 1 if not weekday else int(weekday)", "year = int(year)", "week = int(week)"]:
        raise P.Unsupported("_get_iso_8601_week: conversions have an unexpected shape: " + repr(head))
    if tail != ["fmt = '%Y-%j'", "string = f'{year}-{ordinal}'", "dt = datetime.datetime.strptime(string, fmt)",
                "return {'year': dt.year, 'month': dt.month, 'day': dt.day}"]:
        raise P.Unsupported("_get_iso_8601_week: strptime tail has an unexpected shape: " + repr(tail))
    stmts = [copy.deepcopy(s) for s in b[3:-4]] + ast.parse("return (year, ordinal)").body
    f2 = _mkfun("iso_week_core", ["year", "week", "weekday"], stmts)
    tr = P.FunTr(ctx, f2, "py_iso_week_core")
    text, argt, rett, monad = tr.translate()
    out.append("(* translated from src/pendulum/parsing/iso8601.py :: _get_iso_8601_week, statements between the int() conversions and strptime *)\n" + text)

    return (HEADER % "src/pendulum/parsing/iso8601.py (integer post-match code)"
            + "From PV Require Import Gen.Constants Gen.Helpers.\n\n" + "\n".join(out))


def steps(ctx):
    return [("IsoRegex.v", lambda: gen_regex(ctx)), ("IsoPost.v", lambda: gen_post(ctx))]
