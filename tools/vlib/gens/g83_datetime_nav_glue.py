"""C16 — Gen/DateTimeNavGlue.v: the weekday navigation of pendulum.DateTime TRANSLATED from /repo's src/pendulum/datetime.py on every run, on the
object model gdt of coq/Model/TzGlueObj.v and on top of the translated timezone glue (Gen/TzGlue.v: set / on / add; Gen/StartEndGlue.v:
_start_of_day, subtract), which are CALLED, not re-modelled.  Proofs/DateTimeNavGlueFacts.v proves the hand models of coq/Model/Weekday.v (t_*) and
coq/Model/WeekdayZone.v (z_*) EQUAL to this translation (Props/C16.v model_is_code_datetime_*).

TRANSLATED: DateTime.next, previous (day_of_week optional, keep_time a parameter), _first_of_month, _last_of_month, _first_of_quarter,
  _last_of_quarter, _first_of_year, _last_of_year, _nth_of_month, _nth_of_quarter, _nth_of_year
RECOGNISED SHAPES: those of g82_weekday_glue.py (first_of / last_of with a literal unit, the month table, WeekDay.<NAME>, start_of('day')) and
  `check = dt.format("%Y-%M")` ... `dt.format("%Y-%M") == check` -> _same_ym(dt, check);
  `dt = self if keep_time else self.start_of("day")` -> `if keep_time: dt = self / else: dt = self.start_of("day")` (statement form);
  next / previous: statements before the loop, loop test and loop step translated; the `while` skeleton is a TEMPLATE on fuel 7.
HAND PRIMITIVES (coq/Model/StartEndGlueObj.v, coq/Model/DateTimeNavGlueObj.v): day_of_week, days_in_month, quarter, _same_ym; mc_get (native).
"""
import ast
import copy

from .. import py2gallina as P
from ..gen import HEADER, src
from . import g15_tz_glue as G
from . import g81_start_end_glue as S
from . import g82_weekday_glue as W

Z, B = P.Z, P.B
DT, OZ = G.DT, G.OZ
ODT = ("opt", DT)
NAV_FUEL = 7


class KeepRw(ast.NodeTransformer):
    """dt = self if keep_time else <e>   ->   if keep_time: dt = self  else: dt = <e>"""
    def __init__(self):
        self.used = 0

    def visit_Assign(self, node):
        v = node.value
        if isinstance(v, ast.IfExp) and isinstance(v.test, ast.Name) and v.test.id == "keep_time" and len(node.targets) == 1:
            self.used += 1
            t = ast.unparse(node.targets[0])
            new = ast.parse(f"if keep_time:\n    {t} = {ast.unparse(v.body)}\nelse:\n    {t} = {ast.unparse(v.orelse)}").body[0]
            return ast.copy_location(new, node)
        return node


def _dfn(tree, qual):
    f_ = G.Rw(qual).visit(copy.deepcopy(P.find_function(tree, qual)))
    f_ = W.DefaultRw().visit(S.UnitRw().visit(W.NavRw().visit(f_)))
    ast.fix_missing_locations(f_)
    return W._strip(f_)


def _ctx(shared):
    c = S._ctx(shared)
    c.consts.update({k: v for k, v in shared.consts.items() if k in ("MONTHS_PER_YEAR",)})
    c.attrs["quarter"] = ("g_quarter", Z)
    c.kwfuncs["_mdc"] = ("mc_get", ["y", "m", "i", "c"], {}, [Z, Z, Z, Z], Z, "result")
    c.kwfuncs["_same_ym"] = ("g_same_ym", ["a", "b"], {}, [DT, DT], B, None)
    c.kwmethods[("_start_of_day", DT)] = ("sglue_start_of_day", [], {}, [], DT, "result")
    aparams = ["years", "months", "weeks", "days", "hours", "minutes", "seconds", "microseconds"]
    c.kwmethods[("subtract", DT)] = ("sglue_subtract", aparams, {p_: "0" for p_ in aparams}, [Z] * 8, DT, "result")
    c.kwmethods[("on", DT)] = ("glue_DateTime_on", ["year", "month", "day"], {}, [Z] * 3, DT, "result")
    return c


def _check(tree):
    for nm, pre in (("first_of", "first_of"), ("last_of", "last_of")):
        got = S._body(P.find_function(tree, "DateTime." + nm))
        if got != [s.format(pre) for s in W.NAV_DISPATCH]:
            raise P.Unsupported(f"DateTime.{nm} is not the recognised getattr dispatch: {got}")
    S._check(tree)
    on = P.find_function(tree, "DateTime.on")
    if [a.arg for a in on.args.args] != ["self", "year", "month", "day"] or on.args.defaults:
        raise P.Unsupported("DateTime.on: unexpected signature")
    sub = P.find_function(tree, "DateTime.subtract")
    if [ast.unparse(d) for d in sub.args.defaults] != ["0"] * 8:
        raise P.Unsupported("DateTime.subtract: unexpected defaults")


def _t(c, fn, coq, argtypes, what, want=DT, **kw):
    text, rett, monad = G._tr(c, fn, coq, argtypes, DT, what, force_result=True, **kw)
    if rett != want or monad != "result":
        raise P.Unsupported(f"{coq}: unexpected type {rett} / {monad}")
    return text


def _walk(c, tree, name, wd):
    kr = KeepRw()
    fn = S.WeekDayRw(wd).visit(kr.visit(_dfn(tree, "DateTime." + name)))
    ast.fix_missing_locations(fn)
    if kr.used != 1:
        raise P.Unsupported(f"DateTime.{name}: `... if keep_time else ...` not found exactly once")
    if [a.arg for a in fn.args.args] != ["self", "day_of_week", "keep_time"] or [ast.unparse(d) for d in fn.args.defaults] != ["None", "False"]:
        raise P.Unsupported(f"DateTime.{name}: unexpected signature")
    fn.args.defaults = []
    body = fn.body
    if len(body) < 3 or not isinstance(body[-2], ast.While) or ast.unparse(body[-1]) != "return dt":
        raise P.Unsupported(f"DateTime.{name}: does not end with `while ...: ...` / `return dt`")
    loop = body[-2]
    if loop.orelse or len(loop.body) != 1 or not isinstance(loop.body[0], ast.Assign) or ast.unparse(loop.body[0].targets[0]) != "dt":
        raise P.Unsupported(f"DateTime.{name}: the loop body is not a single assignment to dt")
    used = {n.id for n in ast.walk(loop) if isinstance(n, ast.Name)}
    if not used <= {"dt", "day_of_week"}:
        raise P.Unsupported(f"DateTime.{name}: the loop reads {sorted(used)}")
    init = copy.deepcopy(fn)
    init.body = body[:-2] + [ast.parse("return (dt, day_of_week)").body[0]]
    cond = ast.parse(f"def cond(dt, day_of_week):\n    return {ast.unparse(loop.test)}").body[0]
    step = ast.parse(f"def step(dt):\n    return {ast.unparse(loop.body[0].value)}").body[0]
    for f_ in (init, cond, step):
        ast.fix_missing_locations(f_)
    out = []
    out.append(_t(c, init, f"nglue_{name}_init", {"day_of_week": OZ, "keep_time": B},
                  f"translated from src/pendulum/datetime.py :: DateTime.{name} — the statements BEFORE the loop; returns (dt, day_of_week)", want=(DT, Z)))
    text, rett, monad = G._tr(c, cond, f"nglue_{name}_cond", {"dt": DT, "day_of_week": Z}, None, f"translated: the loop TEST of DateTime.{name}")
    if rett != B or monad is not None:
        raise P.Unsupported(f"DateTime.{name}: unexpected type of the loop test")
    out.append(text)
    text, rett, monad = G._tr(c, step, f"nglue_{name}_step", {"dt": DT}, None, f"translated: the loop STEP of DateTime.{name}", force_result=True)
    if rett != DT or monad != "result":
        raise P.Unsupported(f"DateTime.{name}: unexpected type of the loop step")
    out.append(text)
    out.append(f"(* TEMPLATE: `while <test>: dt = <step>` then `return dt`, on explicit fuel (out of fuel = the real loop does not terminate) *)\n"
               f"Fixpoint nglue_{name}_loop (fuel : nat) (v_day_of_week : Z) (v_dt : gdt) {{struct fuel}} : result gdt :=\n"
               f"  match fuel with\n  | O => Raise E_OutOfFuel\n  | S fuel' =>\n"
               f"    if nglue_{name}_cond v_dt v_day_of_week then\n"
               f"      match nglue_{name}_step v_dt with Raise e => Raise e | Ok d => nglue_{name}_loop fuel' v_day_of_week d end\n"
               f"    else Ok v_dt\n  end.\n"
               f"Definition nglue_{name} (v_self : gdt) (v_day_of_week : option Z) (v_keep_time : bool) : result gdt :=\n"
               f"  match nglue_{name}_init v_self v_day_of_week v_keep_time with Raise e => Raise e | Ok (d, w) => nglue_{name}_loop {NAV_FUEL}%nat w d end.\n")
    c.kwmethods[(name, DT)] = (f"nglue_{name}", ["day_of_week", "keep_time"], {"day_of_week": "None", "keep_time": "false"}, [OZ, B], DT, "result")
    return out


def gen(shared):
    tree = ast.parse(open(src("datetime.py")).read())
    _check(tree)
    c = _ctx(shared)
    wd = S._weekday_values()
    out = [HEADER % "src/pendulum/datetime.py (weekday navigation on the translated timezone glue)"]
    out.append("From PV Require Import Spec.Cal Spec.Zone Gen.Constants Model.TzGlueObj Gen.TzGlue Model.StartEndGlueObj Gen.StartEndGlue Model.Weekday "
               "Model.DateTimeNavGlueObj.\n"
               "(* See tools/vlib/gens/g83_datetime_nav_glue.py: what is translated, the recognised rewrites and the hand primitives. *)\n")
    out += _walk(c, tree, "next", wd)
    out += _walk(c, tree, "previous", wd)
    for nm in ("_first_of_month", "_last_of_month"):
        m = W.MdcRw()
        fn = m.run(_dfn(tree, "DateTime." + nm))
        if [a.arg for a in fn.args.args] != ["self", "day_of_week"] or m.used != 3:
            raise P.Unsupported(f"DateTime.{nm}: unexpected signature / uses of the month table")
        fn.args.defaults = []
        ast.fix_missing_locations(fn)
        out.append(_t(c, fn, "nglue" + nm, {"day_of_week": OZ}, f"translated from src/pendulum/datetime.py :: DateTime.{nm}"))
        c.kwmethods[(nm, DT)] = ("nglue" + nm, ["day_of_week"], {}, [OZ], DT, "result")
    for nm in ("_first_of_quarter", "_last_of_quarter", "_first_of_year", "_last_of_year"):
        fn = _dfn(tree, "DateTime." + nm)
        if [a.arg for a in fn.args.args] != ["self", "day_of_week"]:
            raise P.Unsupported(f"DateTime.{nm}: unexpected signature")
        fn.args.defaults = []
        out.append(_t(c, fn, "nglue" + nm, {"day_of_week": OZ}, f"translated from src/pendulum/datetime.py :: DateTime.{nm}"))
        c.kwmethods[(nm, DT)] = ("nglue" + nm, ["day_of_week"], {}, [OZ], DT, "result")
    c.list_fragment = True
    for nm in ("_nth_of_month", "_nth_of_quarter", "_nth_of_year"):
        fr = W.FormatRw("%Y-%M")
        fn = fr.visit(_dfn(tree, "DateTime." + nm))
        if fr.used != (2 if nm == "_nth_of_month" else 0) or ".format(" in ast.unparse(fn):
            raise P.Unsupported(f"DateTime.{nm}: unexpected uses of format")
        if [a.arg for a in fn.args.args] != ["self", "nth", "day_of_week"]:
            raise P.Unsupported(f"DateTime.{nm}: unexpected signature")
        fn.args.defaults = []
        ast.fix_missing_locations(fn)
        out.append(_t(c, fn, "nglue" + nm, {"nth": Z, "day_of_week": Z}, f"translated from src/pendulum/datetime.py :: DateTime.{nm}", want=ODT, ret_decl=ODT))
    return "\n".join(out) + "\n"


def steps(ctx):
    return [("DateTimeNavGlue.v", lambda: gen(ctx))]
