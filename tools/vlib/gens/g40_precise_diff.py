"""C06: _helpers.precise_diff and helpers.add_duration translated onto the operand record of Model/PdBase.v.

The datetime-object operations of precise_diff are named model primitives (ctx.opaque / attrs / methods) whose Gallina
meaning is hand-written in Model/PdBase.v; every other statement (the ordering swap, the UTC shift decision, the borrow
chain, the three-way month-length branch, the final month borrow) is translated.  If the source text of one of the
object-level expressions changes, its key no longer matches and the translation fails closed."""
from .. import py2gallina as P
from ..gen import HEADER, src

DT_ATTRS = {"year": ("p_year", P.Z), "month": ("p_month", P.Z), "day": ("p_day", P.Z), "hour": ("p_hour", P.Z),
            "minute": ("p_minute", P.Z), "second": ("p_second", P.Z), "microsecond": ("p_microsecond", P.Z)}


def gen_precise_diff(ctx: P.Ctx):
    sub = P.Ctx()
    sub.consts = ctx.consts
    sub.funcs = {k: v for k, v in ctx.funcs.items() if k in ("is_leap", "_day_number")}
    if len(sub.funcs) != 2:
        raise P.Unsupported("precise_diff: is_leap/_day_number were not translated (Gen/Helpers.v)")
    sub.attrs = dict(DT_ATTRS)
    sub.methods = {"utcoffset": ("p_utcoffset", P.Z, None)}
    sub.funcs["_get_tzinfo_name"] = ("tz_name_of", ["tzi"], "tzname", None)
    sub.funcs["PreciseDiff"] = ("mkPD", None, "pdiff", None)
    sub.none_for = {"tz1": ("tzname_none", "tzname"), "tz2": ("tzname_none", "tzname")}
    sub.opaque = {
        "d1 == d2": ("p_eqb {d1} {d2}", P.B),
        "d1 > d2": ("p_gtb {d1} {d2}", P.B),
        "d1.tzinfo if isinstance(d1, datetime.datetime) else None": ("tzinfo_of {d1}", "tzi"),
        "d2.tzinfo if isinstance(d2, datetime.datetime) else None": ("tzinfo_of {d2}", "tzi"),
        "tzinfo1 is None": ("tz_is_none {tzinfo1}", P.B),
        "tzinfo2 is None": ("tz_is_none {tzinfo2}", P.B),
        "tzinfo1 is not None": ("negb (tz_is_none {tzinfo1})", P.B),
        "tzinfo2 is not None": ("negb (tz_is_none {tzinfo2})", P.B),
        "tzinfo1 and tzinfo2": ("tz_truthy {tzinfo1} && tz_truthy {tzinfo2}", P.B),
        "tz1 == tz2 and tz1 is not None": ("tzname_same {tz1} {tz2}", P.B),
        "isinstance(d1, datetime.datetime)": ("p_is_dt {d1}", P.B),
        "isinstance(d2, datetime.datetime)": ("p_is_dt {d2}", P.B),
        "d1 - offset1": ("p_shift {d1} {offset1}", "pdt"),
        "d2 - offset2": ("p_shift {d2} {offset2}", "pdt"),
    }
    P.translate_function(sub, src("_helpers.py"), "precise_diff", argtypes={"d1": "pdt", "d2": "pdt"})

    # helpers.add_duration
    add = P.Ctx()
    add.consts = ctx.consts
    add.funcs = {"is_leap": ctx.funcs["is_leap"], "_sign": ("py_sign", [P.Z], P.Z, None)}
    add.attrs = dict(DT_ATTRS)
    add.opaque = {
        "isinstance(dt, date) and (not isinstance(dt, datetime)) and any([hours, minutes, seconds, microseconds])":
            ("(negb (p_is_dt {dt})) && (negb ({hours} =? 0) || negb ({minutes} =? 0) || negb ({seconds} =? 0) || negb ({microseconds} =? 0))", P.B),
        "dt.replace(year=year, month=month, day=day)": ("p_replace_ymd {dt} {year} {month} {day}", ("result", "pdt")),
        "dt + timedelta(days=days, hours=hours, minutes=minutes, seconds=seconds, microseconds=microseconds)":
            ("p_add_td {dt} {days} {hours} {minutes} {seconds} {microseconds}", ("result", "pdt")),
    }
    P.translate_function(add, src("helpers.py"), "add_duration", coq_name="pd_add_duration", argtypes={"dt": "pdt", "seconds": P.Z})

    text = (HEADER % "src/pendulum/_helpers.py (precise_diff) and src/pendulum/helpers.py (add_duration)"
            + "From PV Require Import Spec.Cal Gen.Constants Gen.Helpers Model.PdBase.\n\n" + "\n".join(sub.out + add.out))
    return text


def steps(ctx):
    return [("PreciseDiff.v", lambda: gen_precise_diff(ctx))]
