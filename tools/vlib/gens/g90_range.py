"""Interval.range (a generator function), Interval.__iter__ and Interval.__contains__ translated onto Model/IntervalRange.v (C19).

A generator function becomes a function from explicit nat fuel to `gen_out` = (list of the yielded values, how it ended):
`yield v` conses v in front of the rest of the run, falling off the end is `GDone`, an exception raised by a model primitive is
`GRaise e`, running out of fuel is `GFuel`.  A `while` becomes a Fixpoint on the fuel that returns the rest of the run.
This is a subclass of the shared translator (py2gallina.FunTr is untouched); anything outside the supported shape raises
Unsupported and the generated file does not compile (fail closed)."""
import ast

from .. import py2gallina as P
from ..gen import HEADER, src

UNITS = ["years", "months", "weeks", "days", "hours", "minutes", "seconds", "microseconds"]
DTV, METH, CMPOP, GEN = "dtv", "meth", "cmpop", "gen_out"
# `except <class>` catches the class and its subclasses: the exception kinds of Lib/PyBase.v each builtin class covers
# (pendulum: ParserError(ValueError), TimezoneError(ValueError) > NonExistingTime, AmbiguousTime)
EXN_CTOR = {"OverflowError": ["E_OverflowError"], "ValueError": ["E_ValueError", "E_ParserError", "E_NonExistingTime", "E_AmbiguousTime"],
            "TypeError": ["E_TypeError"]}


class GenTr(P.FunTr):
    def __init__(self, ctx, fn, coq_name, range_defaults=None, **kw):
        super().__init__(ctx, fn, coq_name, **kw)
        self.is_gen = any(isinstance(n, (ast.Yield, ast.YieldFrom)) for n in ast.walk(fn))
        self.monad = None
        self.range_defaults = range_defaults
        self.uses_fuel = self.is_gen

    # ---- expressions
    def expr(self, e):
        if isinstance(e, ast.Constant) and isinstance(e.value, str):
            if e.value == "add":
                return ("M_add", METH)
            if e.value == "subtract":
                return ("M_subtract", METH)
            if e.value in UNITS:
                return ("U_" + e.value, P.Z)
            self.fail(e, "string constant")
        if isinstance(e, (ast.Yield, ast.YieldFrom)):
            self.fail(e, "yield in expression position")
        return super().expr(e)

    def cmp(self, left, op, right, node):
        l, lt = self.expr(left)
        r, rt = self.expr(right)
        if lt == DTV or rt == DTV:
            if lt != rt:
                self.fail(node, "comparison of a date value with something else")
            names = {ast.LtE: "dt_le", ast.Lt: "dt_lt", ast.GtE: "dt_ge", ast.Gt: "dt_gt"}
            for k, n in names.items():
                if isinstance(op, k):
                    return f"({n} {l} {r})"
            self.fail(node, "comparison of date values")
        return super().cmp(left, op, right, node)

    def call(self, e):
        f = e.func
        # op(start, end): a comparison operator held in a local
        if isinstance(f, ast.Name) and self.env.get(f.id) == CMPOP:
            if e.keywords or len(e.args) != 2:
                self.fail(e, "operator call shape")
            a, at = self.expr(e.args[0])
            b, bt = self.expr(e.args[1])
            if at != DTV or bt != DTV:
                self.fail(e, "operator applied to non-date values")
            return (f"(apply_op {self.v(f.id)} {a} {b})", P.B)
        # getattr(obj, method)(**{unit: i})
        if isinstance(f, ast.Call) and isinstance(f.func, ast.Name) and f.func.id == "getattr":
            kw = e.keywords
            if (len(f.args) != 2 or f.keywords or e.args or len(kw) != 1 or kw[0].arg is not None
                    or not isinstance(kw[0].value, ast.Dict) or len(kw[0].value.keys) != 1 or kw[0].value.keys[0] is None):
                self.fail(e, "getattr call shape")
            obj, ot = self.expr(f.args[0])
            m, mt = self.expr(f.args[1])
            k, kt = self.expr(kw[0].value.keys[0])
            v, vt = self.expr(kw[0].value.values[0])
            if (ot, mt, kt, vt) != (DTV, METH, P.Z, P.Z):
                self.fail(e, f"getattr call types {(ot, mt, kt, vt)}")
            return (f"(call_method {obj} {m} {k} {v})", ("result", DTV))
        # self.range(unit[, amount]) from another method
        if isinstance(f, ast.Attribute) and f.attr == "range" and isinstance(f.value, ast.Name) and f.value.id == "self":
            if self.range_defaults is None or e.keywords or not (1 <= len(e.args) <= 2):
                self.fail(e, "call of self.range")
            args = [self.expr(a) for a in e.args]
            if any(t != P.Z for _, t in args):
                self.fail(e, "self.range argument types")
            vals = [a for a, _ in args]
            if len(vals) == 1:
                vals.append(self.range_defaults["amount"])
            self.uses_fuel = True
            return (f"(py_range fuel {self.v('self')} {vals[0]} {vals[1]})", GEN)
        return super().call(e)

    # ---- statements
    def block(self, stmts, k):
        if stmts:
            s, rest = stmts[0], stmts[1:]
            if isinstance(s, ast.Expr) and isinstance(s.value, ast.Yield):
                if s.value.value is None:
                    self.fail(s, "bare yield")
                v, t = self.expr(s.value.value)
                if t != DTV:
                    self.fail(s, "yield of a non-date value")
                return f"gcons {v} (\n  " + self.block(rest, k) + ")"
            if isinstance(s, ast.Assign) and len(s.targets) == 1 and isinstance(s.targets[0], ast.Name) and self.is_gen:
                e, t = self.expr(s.value)
                if isinstance(t, tuple) and len(t) == 2 and t[0] == "result":
                    n = s.targets[0].id
                    self.env[n] = t[1]
                    return (f"match {e} with\n  | Raise exn_ => ([], GRaise exn_)\n  | Ok {self.v(n)} =>\n  " + self.block(rest, k) + "\n  end")
            if isinstance(s, ast.Try) and self.is_gen:
                # try: <name> = <call that may raise>  except (E1, E2, ...): return      -- the generator finishes when one of the named
                # exceptions is raised by the call; any other exception still ends the run with GRaise
                h = s.handlers
                if (len(s.body) != 1 or s.orelse or s.finalbody or len(h) != 1 or h[0].name is not None or h[0].type is None
                        or len(h[0].body) != 1 or not isinstance(h[0].body[0], ast.Return) or h[0].body[0].value is not None):
                    self.fail(s, "try statement shape")
                a = s.body[0]
                if not (isinstance(a, ast.Assign) and len(a.targets) == 1 and isinstance(a.targets[0], ast.Name)):
                    self.fail(s, "try body is not a single assignment to a name")
                types = h[0].type.elts if isinstance(h[0].type, ast.Tuple) else [h[0].type]
                if not types or not all(isinstance(t_, ast.Name) and t_.id in EXN_CTOR for t_ in types):
                    self.fail(s, "exception classes of the handler")
                e, t = self.expr(a.value)
                if not (isinstance(t, tuple) and len(t) == 2 and t[0] == "result"):
                    self.fail(s, "try around an expression that cannot raise in the model")
                n = a.targets[0].id
                self.env[n] = t[1]
                pats = " | ".join(dict.fromkeys(c_ for t_ in types for c_ in EXN_CTOR[t_.id]))
                return (f"match {e} with\n  | Raise exn_ => match exn_ with {pats} => ([], GDone) | _ => ([], GRaise exn_) end\n"
                        f"  | Ok {self.v(n)} =>\n  " + self.block(rest, k) + "\n  end")
            if isinstance(s, (ast.Return, ast.Raise)) and self.is_gen:
                self.fail(s, "return/raise inside a generator")
        return super().block(stmts, k)

    def loop(self, s, rest, k):
        if not self.is_gen:
            self.fail(s, "loop outside a generator")
        if s.orelse or rest or k is None:
            self.fail(s, "only a final while loop is supported in a generator")
        if any(isinstance(n, (ast.Break, ast.Continue)) for n in ast.walk(s)):
            self.fail(s, "break/continue in a generator loop")
        self.nloop += 1
        lname = f"{self.name}_loop{self.nloop}"
        carried = [n for n in self.assigned(s.body) if n in self.env]
        if not carried:
            self.fail(s, "loop carries no variable")
        reads = [n for n in self.read_names([s]) if n in self.env and n not in carried]
        params = reads + carried
        sig = " ".join(f"({self.v(n_)} : {P._tname(self.env[n_])})" for n_ in params)
        env0 = dict(self.env)
        cond = self.cond(s.test)
        rec = lambda: f"{lname} fuel' " + " ".join(self.v(n_) for n_ in params)
        body = self.loop_body(s.body, rec, "(* no break *)")
        self.env = env0
        done = k()
        self.loops.append(f"Fixpoint {lname} (fuel : nat) {sig} {{struct fuel}} : {GEN} :=\n"
                          f"  match fuel with\n  | O => ([], GFuel)\n  | S fuel' =>\n"
                          f"    if {cond} then (\n  {body})\n    else {done}\n  end.\n")
        return f"{lname} fuel " + " ".join(self.v(n_) for n_ in params)

    # ---- whole function
    def translate(self):
        fn = self.fn
        params = []
        for a in fn.args.args:
            if a.arg == "self":
                self.env["self"] = self.self_type
                params.append(("self", self.self_type))
                continue
            t = self.argtypes.get(a.arg)
            if t is None:
                t = {"int": P.Z, "bool": P.B}.get(ast.unparse(a.annotation) if a.annotation else "")
            if t is None:
                raise P.Unsupported(f"{fn.name}: parameter {a.arg} has no model type")
            self.env[a.arg] = t
            params.append((a.arg, t))
        if fn.args.vararg or fn.args.kwarg or fn.args.kwonlyargs:
            raise P.Unsupported(f"{fn.name}: varargs")
        if self.is_gen:
            body = self.block(fn.body, lambda: "([], GDone)")
            rts = GEN
        else:
            body = self.block(fn.body, None)
            rts = P._tname(self.rettype)
        sig = " ".join(f"({self.v(n_)} : {P._tname(t)})" for n_, t in params)
        fuel = "(fuel : nat) " if self.uses_fuel else ""
        return "".join(self.loops) + f"Definition {self.name} {fuel}{sig} : {rts} :=\n  {body}.\n"


def _defaults(fn):
    """keyword defaults of a method as Gallina integer literals"""
    args = fn.args.args
    out = {}
    for a, d in zip(args[len(args) - len(fn.args.defaults):], fn.args.defaults):
        if isinstance(d, ast.Constant) and isinstance(d.value, int) and not isinstance(d.value, bool):
            out[a.arg] = f"({d.value})" if d.value < 0 else str(d.value)
        else:
            raise P.Unsupported(f"{fn.name}: default of {a.arg} is not an integer literal")
    return out


def gen_interval_range(ctx):
    path = src("interval.py")
    tree = ast.parse(open(path).read())
    sub = P.Ctx()
    sub.attrs = {"start": ("iv_start", DTV), "end": ("iv_end", DTV), "_absolute": ("iv_absolute", P.B), "invert": ("iv_invert", P.B)}
    sub.opaque = {"operator.le": ("OP_le", CMPOP), "operator.ge": ("OP_ge", CMPOP)}
    out = []
    f_range = P.find_function(tree, "Interval.range")
    dfl = _defaults(f_range)
    if "amount" not in dfl:
        raise P.Unsupported("Interval.range: amount has no default")
    out.append("(* translated from src/pendulum/interval.py :: Interval.range (generator: yielded values, termination) *)\n"
               + GenTr(sub, f_range, "py_range", argtypes={"unit": P.Z, "amount": P.Z}, self_type="interval").translate())
    out.append("(* translated from src/pendulum/interval.py :: Interval.__iter__ *)\n"
               + GenTr(sub, P.find_function(tree, "Interval.__iter__"), "py_iter", range_defaults=dfl, self_type="interval").translate())
    out.append("(* translated from src/pendulum/interval.py :: Interval.__contains__ *)\n"
               + GenTr(sub, P.find_function(tree, "Interval.__contains__"), "py_contains", argtypes={"item": DTV}, self_type="interval").translate())
    out.append(f"(* default step of Interval.range *)\nDefinition range_default_amount : Z := {dfl['amount']}.\n")
    return HEADER % "src/pendulum/interval.py" + "From PV Require Import Spec.Zone Model.IntervalRange.\n\n" + "\n".join(out)


def steps(ctx):
    return [("IntervalRange.v", lambda: gen_interval_range(ctx))]
