"""Gen/StdlibZone.v — the lookups of CPython's pure-Python zoneinfo (`zoneinfo/_zoneinfo.py` of the STAGED interpreter) translated.

coq/Spec/Zone.v is a hand-written model of "a tz-database zone as zoneinfo presents it"; this file is the machine translation of
the stdlib source, and Proofs/StdlibZoneFacts.v proves the two equal (Props/C02.v spec_is_stdlib_*).

TRANSLATED (py2gallina with the list fragment, statement by statement):
  ZoneInfo._ts_to_local        whole body (nested in-place list updates -> functional updates, IndexError outside; the `for` loop ->
                               a function recursive on the iteration count)
  ZoneInfo._get_local_timestamp whole body
  ZoneInfo._find_trans, ZoneInfo.utcoffset, ZoneInfo.fromutc
                               SPECIALISED first by partial evaluation under the ASSUMPTIONS below (an `if` whose test becomes constant
                               is replaced by the branch taken; every assumption must be used, nothing else is removed), then translated
  ASSUMPTIONS: dt is not None; isinstance(dt, datetime); dt.tzinfo is self; self._tz_after is a _ttinfo (not a _TZStr):
               the POSIX-rule tail is OUT OF SCOPE (the harness expands rule transitions into the table).
  EPOCHORDINAL                 its defining statement is checked to be `datetime(1970, 1, 1).toordinal()`; the value is the one the staged
                               interpreter reports (Proofs: = Spec ymd2ord 1970 1 1 = translated stdlib _ymd2ord)
HAND MODEL (coq/Model/StdlibZoneObj.v, coq/Lib/PyList.v): the objects (ZoneInfo = record of 5 attributes, _ttinfo = utcoff seconds,
  datetime = ordinal/hour/minute/second/fold, timedelta = seconds), `dt + timedelta` and `dt.replace(fold=1)`, and the library
  function bisect.bisect_right (contract for sorted input).  `bisect.py`'s own loop is translated separately as sl_bisect_right_py
  (recognised shape: the `key is None` loop of bisect_right with lo = 0, hi = len(a)) and proved equal to that model on sorted lists.
CHECKED BY SHAPE (not translated): the lines of ZoneInfo._load_file that store the attributes (so that the encoding of a table used in
  the theorems is what _load_file builds), _ttinfo.__slots__.
"""
import ast
import copy
import json
import subprocess

from .. import py2gallina as P
from ..gen import HEADER, zlit
from ..stage import PY

Z, B = P.Z, P.B

PROBE = ("import zoneinfo._zoneinfo as m, bisect, json; "
         "print(json.dumps({'file': m.__file__, 'bisect': bisect.__file__, 'EPOCHORDINAL': m.EPOCHORDINAL}))")

ASSUME = {   # unparsed expression -> value it has under the stated assumptions
    "dt is None": False,
    "isinstance(dt, datetime)": True,
    "dt.tzinfo is not self": False,
    "isinstance(self._tz_after, _TZStr)": False,
    "isinstance(self._tz_after, _ttinfo)": True,
}

LOAD_FILE_LINES = [
    "trans_local = self._ts_to_local(trans_idx, trans_utc, utcoff)",
    "self._trans_utc = trans_utc",
    "self._trans_local = trans_local",
    "self._ttinfos = [_ttinfo_list[idx] for idx in trans_idx]",
    "self._tz_after = self._ttinfos[-1]",
    "self._tti_before = _ttinfo_list[i]",
]

BISECT_LOOP_SHAPE = """
while lo < hi:
    mid = (lo + hi) // 2
    if x < a[mid]:
        hi = mid
    else:
        lo = mid + 1
"""


def _probe():
    try:
        p = subprocess.run([PY, "-c", PROBE], capture_output=True, text=True, timeout=120)
    except Exception as e:  # noqa
        raise P.Unsupported(f"staged interpreter could not be asked for zoneinfo._zoneinfo: {e}")
    if p.returncode != 0:
        raise P.Unsupported("staged interpreter has no importable zoneinfo._zoneinfo: " + p.stderr[-300:])
    return json.loads(p.stdout)


class Specialise(ast.NodeTransformer):
    """partial evaluation of a function body under ASSUME"""

    def __init__(self, fname, assume=None, int_floats=False):
        self.fname = fname
        self.used = set()
        self.assume = ASSUME if assume is None else assume
        self.int_floats = int_floats     # integral float literals become int literals (g14: timedelta.__new__, see there)

    def fail(self, node, why):
        raise P.Unsupported(f"{self.fname}: line {getattr(node, 'lineno', '?')}: specialisation: {why}: {ast.unparse(node)[:80]}")

    def fold(self, e):
        """e with assumed subexpressions replaced and not/and/or over constants folded (test positions only)"""
        key = ast.unparse(e)
        if key in self.assume:
            self.used.add(key)
            return ast.copy_location(ast.Constant(value=self.assume[key]), e)
        if isinstance(e, ast.UnaryOp) and isinstance(e.op, ast.Not):
            x = self.fold(e.operand)
            if isinstance(x, ast.Constant) and isinstance(x.value, bool):
                return ast.copy_location(ast.Constant(value=not x.value), e)
            return ast.copy_location(ast.UnaryOp(op=ast.Not(), operand=x), e)
        if isinstance(e, ast.BoolOp):
            vals = [self.fold(x) for x in e.values]
            absorbing = isinstance(e.op, ast.Or)          # True absorbs `or`, False absorbs `and`
            out = []
            for i, x in enumerate(vals):
                if isinstance(x, ast.Constant) and isinstance(x.value, bool):
                    if x.value == absorbing:
                        # the operands before it are still evaluated by Python: they must be effect-free (no call at all)
                        if any(isinstance(n, ast.Call) for y in out for n in ast.walk(y)):
                            self.fail(e, "an operand with a call is evaluated before a constant operand")
                        return ast.copy_location(ast.Constant(value=absorbing), e)
                    continue                               # neutral element: dropped
                out.append(x)
            if not out:
                return ast.copy_location(ast.Constant(value=not absorbing), e)
            if len(out) == 1:
                return out[0]
            return ast.copy_location(ast.BoolOp(op=e.op, values=out), e)
        return e

    def stmts(self, body):
        out = []
        for s in body:
            r = self.visit(s)
            if isinstance(r, list):
                out += r
            elif r is not None:
                out.append(r)
        return out

    def visit_If(self, node):
        test = self.fold(node.test)
        body, orelse = self.stmts(node.body), self.stmts(node.orelse)
        if isinstance(test, ast.Constant) and isinstance(test.value, bool):
            return body if test.value else orelse
        if not body:
            self.fail(node, "empty branch after specialisation")
        return ast.copy_location(ast.If(test=test, body=body, orelse=orelse), node)

    def visit_Assert(self, node):
        test = self.fold(node.test)
        if isinstance(test, ast.Constant) and test.value is True:
            return None                      # an assertion that holds under the assumptions
        return ast.copy_location(ast.Assert(test=test, msg=node.msg), node)

    def visit_Constant(self, node):
        if self.int_floats and isinstance(node.value, float):
            if node.value != int(node.value):
                self.fail(node, "non-integral float literal")
            return ast.copy_location(ast.Constant(value=int(node.value)), node)
        return node

    def visit_FunctionDef(self, node):
        new = copy.copy(node)
        new.body = self.stmts(node.body)
        return new


def _specialised(tree, qual, expect):
    fn = P.find_function(tree, qual)
    sp = Specialise(qual)
    new = sp.visit(copy.deepcopy(fn))
    ast.fix_missing_locations(new)
    if sp.used != set(expect):
        raise P.Unsupported(f"{qual}: assumptions used {sorted(sp.used)} differ from the expected {sorted(expect)}")
    left = ast.unparse(new)
    for word in ("isinstance", " is None", " is not ", "_TZStr"):
        if word in left:
            raise P.Unsupported(f"{qual}: `{word.strip()}` is left after specialisation")
    return new


def _translate(ctx, fn, coq, argtypes, self_type, what):
    tr = P.FunTr(ctx, fn, coq, argtypes=argtypes, self_type=self_type)
    text, argt, rett, monad = tr.translate()
    return f"(* {what} *)\n" + text, argt, rett, monad


def _norm_dump(nodes):
    return [ast.dump(ast.parse(ast.unparse(n))) for n in nodes]


def gen_bisect(path):
    """bisect.py :: bisect_right, the branch taken for bisect_right(a, x): lo = 0, hi = None -> len(a), key = None."""
    tree = ast.parse(open(path).read())
    fn = P.find_function(tree, "bisect_right")
    a = fn.args
    sig_ok = ([x.arg for x in a.args] == ["a", "x", "lo", "hi"] and [ast.unparse(d) for d in a.defaults] == ["0", "None"]
              and [x.arg for x in a.kwonlyargs] == ["key"] and [ast.unparse(d) for d in a.kw_defaults] == ["None"]
              and not a.vararg and not a.kwarg)
    body = [s for s in fn.body if not (isinstance(s, ast.Expr) and isinstance(s.value, ast.Constant))]
    # if lo < 0: raise ...; if hi is None: hi = len(a); if key is None: <loop> else: <loop with key>; return lo
    ok = (sig_ok and len(body) == 4
          and isinstance(body[0], ast.If) and ast.unparse(body[0].test) == "lo < 0" and isinstance(body[0].body[0], ast.Raise)
          and not body[0].orelse
          and ast.unparse(body[1]) == "if hi is None:\n    hi = len(a)"
          and isinstance(body[2], ast.If) and ast.unparse(body[2].test) == "key is None"
          and _norm_dump(body[2].body) == _norm_dump(ast.parse(BISECT_LOOP_SHAPE).body)
          and ast.unparse(body[3]) == "return lo")
    if not ok:
        raise P.Unsupported("bisect.py: bisect_right does not have the recognised shape")
    # the function actually translated: the statements executed for bisect_right(a, x)
    src = "def bisect_right(a, x):\n    lo = 0\n    hi = len(a)\n" + "\n".join("    " + l for l in ast.unparse(body[2].body[0]).splitlines()) \
          + "\n    return lo\n"
    new = ast.parse(src).body[0]
    ctx = P.Ctx()
    ctx.list_fragment = True
    ctx.loop_fuel[("bisect_right", 1)] = "(S (List.length v_a))"
    tr = P.FunTr(ctx, new, "sl_bisect_right_py", argtypes={"a": "list", "x": Z})
    text, _, rett, monad = tr.translate()
    if monad != "option" or rett != Z:
        raise P.Unsupported("bisect.py: unexpected translation of bisect_right")
    return (f"(* translated from {path} :: bisect_right, SPECIALISED to the call bisect_right(a, x) (lo = 0, hi = None, key = None;\n"
            "   shape of the whole function checked): the statements executed are\n     "
            + src.replace("\n", "\n     ").rstrip() + "\n   the while loop runs on fuel S (length a) (None = out of fuel; Proofs: never on any list) *)\n" + text)


def gen(_shared_ctx):
    rt = _probe()
    path = rt["file"]
    if not path.endswith("_zoneinfo.py"):
        raise P.Unsupported(f"zoneinfo._zoneinfo is not a Python source file: {path}")
    tree = ast.parse(open(path).read())
    body = tree.body
    out = [HEADER % f"CPython's {path} and {rt['bisect']} (the modules the staged interpreter {PY} imports)"]
    out.append("From PV Require Import Lib.PyList Model.StdlibZoneObj.\n"
               "(* See tools/vlib/gens/g13_stdlib_zone.py: what is translated, under which assumptions the methods are specialised, and\n"
               "   what is a hand model.  `assert` -> Raise E_Exception; IndexError of an in-place list update -> Raise E_IndexError;\n"
               "   ValueError of `a, b = <list>` -> Raise E_ValueError. *)\n")

    # --- single definitions
    cls = [n for n in body if isinstance(n, ast.ClassDef) and n.name == "ZoneInfo"]
    if len(cls) != 1:
        raise P.Unsupported("_zoneinfo.py: class ZoneInfo not found exactly once")
    for m in ("_ts_to_local", "_get_local_timestamp", "_find_trans", "utcoffset", "fromutc", "_load_file"):
        if sum(1 for n in ast.walk(cls[0]) if isinstance(n, ast.FunctionDef) and n.name == m) != 1:
            raise P.Unsupported(f"_zoneinfo.py: ZoneInfo.{m} is not defined exactly once")
    for n in ast.walk(tree):
        if isinstance(n, ast.Attribute) and isinstance(n.ctx, (ast.Store, ast.Del)) and isinstance(n.value, ast.Name) \
                and n.value.id == "ZoneInfo":
            raise P.Unsupported("_zoneinfo.py: an attribute of the class ZoneInfo is rebound")

    # --- EPOCHORDINAL
    eo = [n for n in ast.walk(tree) if isinstance(n, ast.Name) and n.id == "EPOCHORDINAL" and isinstance(n.ctx, (ast.Store, ast.Del))]
    asg = [n for n in body if isinstance(n, ast.Assign) and ast.unparse(n.targets[0]) == "EPOCHORDINAL"]
    if len(eo) != 1 or len(asg) != 1 or ast.unparse(asg[0].value) != "datetime(1970, 1, 1).toordinal()":
        raise P.Unsupported("_zoneinfo.py: EPOCHORDINAL is not `datetime(1970, 1, 1).toordinal()` bound once")
    if not isinstance(rt["EPOCHORDINAL"], int):
        raise P.Unsupported("_zoneinfo.py: EPOCHORDINAL is not an int at run time")
    out.append("(* EPOCHORDINAL = datetime(1970, 1, 1).toordinal(): statement checked by shape, VALUE reported by the staged interpreter *)\n"
               f"Definition sl_EPOCHORDINAL : Z := {zlit(rt['EPOCHORDINAL'])}.\n")

    # --- shape checks of what is not translated
    lf = P.find_function(tree, "ZoneInfo._load_file")
    have = {ast.unparse(n) for n in ast.walk(lf) if isinstance(n, ast.Assign)}
    missing = [l for l in LOAD_FILE_LINES if l not in have]
    if missing:
        raise P.Unsupported(f"_zoneinfo.py: ZoneInfo._load_file no longer contains {missing}")
    tti = next((n for n in body if isinstance(n, ast.ClassDef) and n.name == "_ttinfo"), None)
    slots = next((ast.unparse(n.value) for n in (tti.body if tti else []) if isinstance(n, ast.Assign)
                  and ast.unparse(n.targets[0]) == "__slots__"), None)
    if slots != "['utcoff', 'dstoff', 'tzname']":
        raise P.Unsupported("_zoneinfo.py: _ttinfo.__slots__ changed")

    # --- translation context (private)
    ctx = P.Ctx()
    ctx.assert_exn = "E_Exception"
    ctx.int_boolop = True
    ctx.list_fragment = True
    ctx.consts["EPOCHORDINAL"] = ("sl_EPOCHORDINAL", Z)
    ctx.attrs.update({
        "_trans_utc": ("sz_trans_utc", "list"), "_trans_local": ("sz_trans_local", "list2"), "_ttinfos": ("sz_ttinfos", "list"),
        "_tti_before": ("sz_tti_before", Z), "_tz_after": ("sz_tz_after", Z),
        "hour": ("dt_hour", Z), "minute": ("dt_minute", Z), "second": ("dt_second", Z), "fold": ("dt_fold", Z),
        "utcoff": ("tti_utcoff", Z),
    })
    ctx.methods["toordinal"] = ("dt_toordinal", Z, None)
    ctx.methods["total_seconds"] = ("td_total_seconds", Z, None)
    ctx.funcs["bisect.bisect_right"] = ("bisect_right", ["list", Z], Z, None)
    ctx.opaque["dt + tti.utcoff"] = ("sdt_add {dt} (tti_utcoff {tti})", "sdt")
    ctx.opaque["dt.replace(fold=1)"] = ("sdt_replace_fold {dt} 1", "sdt")
    imp = [ast.unparse(n) for n in body if isinstance(n, (ast.Import, ast.ImportFrom))]
    if "import bisect" not in imp or not any(i.startswith("from datetime import") and "datetime" in i and "timedelta" in i for i in imp):
        raise P.Unsupported("_zoneinfo.py: bisect / datetime are not imported as expected")

    # --- bisect.py's own loop
    out.append(gen_bisect(rt["bisect"]))

    # --- _ts_to_local
    fn = P.find_function(tree, "ZoneInfo._ts_to_local")
    if [ast.unparse(d) for d in fn.decorator_list] != ["staticmethod"]:
        raise P.Unsupported("_zoneinfo.py: _ts_to_local is not a staticmethod")
    text, argt, rett, monad = _translate(ctx, fn, "sl_ts_to_local",
                                         {"trans_idx": "list", "trans_list_utc": "list", "utcoffsets": "list"}, None,
                                         f"translated from {path} :: ZoneInfo._ts_to_local")
    if rett != "list2" or monad != "result":
        raise P.Unsupported("_zoneinfo.py: unexpected type of the translated _ts_to_local")
    out.append(text)

    # --- _get_local_timestamp
    fn = P.find_function(tree, "ZoneInfo._get_local_timestamp")
    text, argt, rett, monad = _translate(ctx, fn, "sl_get_local_timestamp", {"dt": "sdt"}, "szone",
                                         f"translated from {path} :: ZoneInfo._get_local_timestamp")
    if rett != Z or monad is not None:
        raise P.Unsupported("_zoneinfo.py: unexpected type of the translated _get_local_timestamp")
    ctx.methods["_get_local_timestamp"] = ("sl_get_local_timestamp", Z, None)
    out.append(text)

    # --- _find_trans, utcoffset, fromutc (specialised)
    assumed = "; ".join(f"{k} = {v}" for k, v in ASSUME.items())
    fn = _specialised(tree, "ZoneInfo._find_trans", ["dt is None", "isinstance(self._tz_after, _TZStr)"])
    text, argt, rett, monad = _translate(ctx, fn, "sl_find_trans", {"dt": "sdt"}, "szone",
                                         f"translated from {path} :: ZoneInfo._find_trans SPECIALISED under: {assumed}.\n"
                                         "   What is translated:\n     " + ast.unparse(fn).replace("\n", "\n     "))
    if rett != Z or monad != "result":
        raise P.Unsupported("_zoneinfo.py: unexpected type of the translated _find_trans")
    ctx.methods["_find_trans"] = ("sl_find_trans", Z, "result")
    out.append(text)

    fn = P.find_function(tree, "ZoneInfo.utcoffset")
    text, argt, rett, monad = _translate(ctx, fn, "sl_utcoffset", {"dt": "sdt"}, "szone",
                                         f"translated from {path} :: ZoneInfo.utcoffset")
    out.append(text)

    fn = _specialised(tree, "ZoneInfo.fromutc", ["isinstance(dt, datetime)", "dt.tzinfo is not self", "isinstance(self._tz_after, _ttinfo)"])
    text, argt, rett, monad = _translate(ctx, fn, "sl_fromutc", {"dt": "sdt"}, "szone",
                                         f"translated from {path} :: ZoneInfo.fromutc SPECIALISED under: {assumed}.\n"
                                         "   What is translated:\n     " + ast.unparse(fn).replace("\n", "\n     "))
    if rett != "sdt" or monad != "result":
        raise P.Unsupported("_zoneinfo.py: unexpected type of the translated fromutc")
    out.append(text)
    return "\n".join(out) + "\n"


def steps(ctx):
    return [("StdlibZone.v", lambda: gen(ctx))]
