"""Base generated files: constants.py, _helpers.py integer helpers, Date getters, rust constants."""
import ast

from .. import py2gallina as P
from ..gen import HEADER, src, zlit, coq_string
from .. import gen_rust

def const_eval(node, env):
    """Evaluate a constant expression of constants.py (ints, + - *, tuples, names, strings)."""
    if isinstance(node, ast.Constant):
        return node.value
    if isinstance(node, ast.Name):
        if node.id in env:
            return env[node.id]
        raise P.Unsupported(f"constants.py: unknown name {node.id}")
    if isinstance(node, ast.Tuple):
        return tuple(const_eval(x, env) for x in node.elts)
    if isinstance(node, ast.UnaryOp) and isinstance(node.op, ast.USub):
        return -const_eval(node.operand, env)
    if isinstance(node, ast.BinOp):
        a, b = const_eval(node.left, env), const_eval(node.right, env)
        if isinstance(node.op, ast.Add):
            return a + b
        if isinstance(node.op, ast.Sub):
            return a - b
        if isinstance(node.op, ast.Mult):
            return a * b
    raise P.Unsupported(f"constants.py: {ast.unparse(node)}")


def gen_constants(ctx: P.Ctx):
    path = src("constants.py")
    tree = ast.parse(open(path).read())
    env = {}
    lines = [HEADER % "src/pendulum/constants.py"]
    for node in tree.body:
        if isinstance(node, ast.Assign) and len(node.targets) == 1 and isinstance(node.targets[0], ast.Name):
            name = node.targets[0].id
            v = const_eval(node.value, env)
            env[name] = v
            cname = "C_" + name
            if isinstance(v, bool):
                raise P.Unsupported("bool constant")
            if isinstance(v, int):
                lines.append(f"Definition {cname} : Z := {zlit(v)}.")
                ctx.consts[name] = (cname, P.Z)
            elif isinstance(v, str):
                lines.append(f"Definition {cname} : string := {coq_string(v)}.")
                ctx.consts[name] = (cname, "str")
            elif isinstance(v, tuple) and all(isinstance(x, int) for x in v):
                lines.append(f"Definition {cname} : list Z := [" + "; ".join(zlit(x) for x in v) + "].")
                ctx.consts[name] = (cname, "list")
            elif isinstance(v, tuple) and all(isinstance(x, tuple) and all(isinstance(y, int) for y in x) for x in v):
                rows = "; ".join("[" + "; ".join(zlit(y) for y in x) + "]" for x in v)
                lines.append(f"Definition {cname} : list (list Z) := [{rows}].")
                ctx.consts[name] = (cname, "list2")
            else:
                raise P.Unsupported(f"constants.py: {name} has an unsupported shape")
        elif isinstance(node, (ast.ImportFrom, ast.Import, ast.Expr)):
            continue
        else:
            raise P.Unsupported(f"constants.py: unexpected statement at line {node.lineno}")
    return "\n".join(lines) + "\n", env


def gen_helpers(ctx: P.Ctx):
    path = src("_helpers.py")
    ctx.loop_fuel.update({("local_time", 1): 4, ("local_time", 2): 25, ("local_time", 3): 4, ("local_time", 4): 13})
    for fn in ("is_leap", "is_long_year", "week_day", "days_in_year", "_day_number"):
        P.translate_function(ctx, path, fn)
    P.translate_function(ctx, path, "local_time")
    text = HEADER % "src/pendulum/_helpers.py" + "From PV Require Import Gen.Constants.\n\n" + "\n".join(ctx.out)
    ctx.out.clear()
    return text


def gen_date(ctx: P.Ctx):
    path = src("date.py")
    ctx.attrs.update({"year": ("d_year", P.Z), "month": ("d_month", P.Z), "day": ("d_day", P.Z)})
    ctx.funcs["calendar.isleap"] = ("is_leap", [P.Z], P.B, None)          # stdlib -> Spec.Cal
    ctx.opaque["self.first_of('month').isoweekday()"] = ("first_of_month_isoweekday {self}", P.Z)
    P.translate_function(ctx, path, "Date.is_leap_year", self_type="pdate")
    ctx.methods["is_leap_year"] = ("py_Date_is_leap_year", P.B, None)
    for fn in ("day_of_year", "quarter", "week_of_month"):
        P.translate_function(ctx, path, "Date." + fn, self_type="pdate")
    text = (HEADER % "src/pendulum/date.py" + "From PV Require Import Spec.Cal Gen.Constants.\n\n"
            "(* model primitive for the opaque expression self.first_of('month').isoweekday() *)\n"
            "Definition first_of_month_isoweekday (d : pdate) : Z := iso_weekday (ymd2ord (d_year d) (d_month d) 1).\n\n"
            + "\n".join(ctx.out))
    ctx.out.clear()
    return text




def steps(ctx):
    return [("Constants.v", lambda: gen_constants(ctx)[0]), ("Helpers.v", lambda: gen_helpers(ctx)),
            ("DateGetters.v", lambda: gen_date(ctx)), ("RustConstants.v", lambda: gen_rust.gen_rust_constants(ctx))]
