"""Python `ast` -> Gallina for the small FLOAT fragment of src/pendulum/duration.py (Duration.__new__, AbsoluteDuration.__new__,
total_*(), in_*(), hours / minutes / remaining_seconds, _sign, invert).  Companion of py2gallina.py (integers only); kept separate.

Target vocabulary: Spec/TdFloat.v (SpecFloat binary64 operations exactly as CPython applies them) and the result monad of Lib/PyBase.v.
Everything that is not recognised raises `Unsupported` (the generator then writes a file that cannot compile: fail closed).

Typing rules implemented (CPython's):
  int  op int   (+ - *)          Z arithmetic
  int // int, int % int          Z.div / Z.modulo (Python's floor semantics) — ONLY when the divisor is statically a non-zero constant
                                 (a literal or a name imported from pendulum.constants); otherwise Unsupported (ZeroDivisionError)
  x op y with a float operand    the int operand is converted where CPython converts it (in the operation, after both operands have
                                 been evaluated): a static constant below 2^53 becomes `sf_of_Z c` (exact), anything else goes through
                                 `py_float_of_int` (OverflowError); then fadd fsub fmul ; fdiv only by a static non-zero constant ;
                                 `%` is `py_float_mod` (ZeroDivisionError inside)
  float < > == int constant      the constant (below 2^53, hence exact) is converted with sf_of_Z; flt / feq.  <= >= != on floats: Unsupported
  abs()  int() round()           Z.abs / fabs ; py_int_trunc ; py_round_half_even (both in the result monad)
  divmod(int, const)             only as the right-hand side of a two-target assignment
  timedelta.__new__(cls, 7 ints) / timedelta(7 ints)     td_of_int_args (OverflowError outside timedelta's range); value of type `td`
  <td>.total_seconds()           total_seconds
  self._x = e                    __new__: a field of the record under construction ; a method: only the lazy-cache fields, as locals
  if self._c is None: ...        (lazy cache of a property) the body is executed: the translation is the FIRST read on a fresh object
  if c: x = e   (no return)      let x := if c then e else x
  if c: ... return               if c then <branch> else <rest>
  isinstance(param, int/float)   decided statically from the declared parameter types
Evaluation order is Python's: sub-expressions left to right, every operation that can raise becomes a `bind` at its position.

Second part (the operators of Duration / Interval, module functions):
  int // int, int % int, divmod(int, int) by a NON-constant      py_int_floordiv / py_int_mod / py_int_divmod (ZeroDivisionError), binds
  int / int                                                       py_int_truediv (bind) ; divmod with a float operand: py_float_divmod (bind)
  x.as_integer_ratio() on a float                                 py_as_integer_ratio (bind), a pair
  a, b = <pair>                                                   let '(a, b) := ...
  x op= e                                                         x = x op e ;  `a if c else b`, `and` / `or` on pure boolean operands
  parameters of declared type dur (a Duration), ptd (a PLAIN datetime.timedelta, given as the microseconds it holds: .days .seconds
  .microseconds are the fields of its normal form td_norm, .total_seconds() is total_seconds; any other attribute fails closed),
  value (an operand that is only handed on)
  isinstance(x, int / float / timedelta / Duration / a tuple of these)   decided statically from the declared type of x
  self.__class__(...) / Duration(...)                             the nine constructor slots, absent = 0: all integers -> gen_duration_new ;
                                                                  a float `seconds` with days, microseconds, milliseconds, minutes, hours, weeks
                                                                  statically 0 -> gen_duration_new_fsec seconds years months ; else Unsupported.
                                                                  self.__class__ is read as Duration (operands of class exactly Duration / Interval)
  timedelta.__new__(cls, D, x, 0, 0, 0, 0, 0), x a float          Spec/TdFloatMixed.td_of_days_fsec D x
  f(args) for a module function / x.m(args) for a method          the translation registered for these argument types (fails closed otherwise)
  return NotImplemented / an int / a float / a Duration / (int, Duration)      Ok RNotImpl / RInt / RFloat / RDur / RPair (functions with an `opres` result)"""
from __future__ import annotations

import ast
import math

from .py2gallina import Unsupported

Z, F, B, TD, DUR, LZ = "Z", "sf", "bool", "td", "dur", "list Z"
PTD, VALUE, OPRES, NUM = "ptd", "value", "opres", "num"
SLOTS = ["days", "seconds", "microseconds", "milliseconds", "minutes", "hours", "weeks", "years", "months"]
PTD_ATTRS = {"days": "ptd_days", "seconds": "ptd_seconds", "microseconds": "ptd_micro"}
EXN = {"ValueError": "E_ValueError", "TypeError": "E_TypeError", "OverflowError": "E_OverflowError",
       "ZeroDivisionError": "E_ZeroDivisionError"}
LIM53 = 2 ** 53


def zlit(v):
    return f"({v})" if v < 0 else str(v)


def flit(v: float) -> str:
    """a Python float constant as a SpecFloat value (canonical form)"""
    if math.isnan(v) or math.isinf(v):
        raise Unsupported("non-finite float constant")
    if v == 0.0:
        return "(S754_zero true)" if math.copysign(1.0, v) < 0 else "(S754_zero false)"
    if v.is_integer() and abs(v) < LIM53:
        return f"(sf_of_Z {zlit(int(v))})"
    m, e = math.frexp(abs(v))
    mant, ex = int(m * LIM53), e - 53
    if ex < -1074 or mant < 2 ** 52:
        raise Unsupported("subnormal float constant")
    return f"(S754_finite {'true' if v < 0 else 'false'} {mant} ({ex}))"


def atom(t: str) -> str:
    t = t.strip()
    if t.startswith("(") or all(c.isalnum() or c in "_'." for c in t):
        return t
    return f"({t})"


class V:
    """a translated expression: Coq text, type, statically known Python value (or None)"""

    def __init__(self, text, ty, known=None):
        self.text, self.ty, self.known = text, ty, known


class FloatTr:
    """Translates one function.  `fields`: attribute -> (record projection, type) of the record `dur`;
    `methods`: name -> (coq name, return type, monadic?) for calls self.<name>() ; `consts`: imported integer constants name -> value."""

    def __init__(self, where, consts, fields, ctor_order, cache_fields, methods, funcs=None):
        self.where, self.consts, self.fields, self.ctor_order = where, consts, fields, ctor_order
        self.cache_fields, self.methods = cache_fields, methods
        self.cur_env = {}
        self.funcs = funcs or {}       # (module function name, argument types) -> (coq name, return type, monadic?)
        self.opres = False             # wrap the returned value into `opres`
        self.sig_optional = False      # a _signature with a non-integer value is recorded as [] (float-constructed Duration)
        self.state_merge = False       # allow the general if-merge (variables threaded through the result monad)
        self.exn = dict(EXN)
        self.track_int_consts = False  # keep the statically known value of an integer variable through plain assignments
        self.merge_mode = "tuple"      # "dup": an if without return duplicates the rest of the block into both branches (every path statically typed)
        self.class_table = {"int": (Z,), "float": (F,), "timedelta": (DUR, PTD), "Duration": (DUR,)}
        self.live = [set()]            # variables read after the construct being translated (for the general if-merge)
        self.konts = []                # what a block does when its statements run out inside a merged if
        self.names = {"sf_of_Z": "sf_of_Z", "py_float_of_int": "py_float_of_int", "py_int_truediv": "py_int_truediv",
                      "py_float_mod": "py_float_mod", "py_float_divmod": "py_float_divmod", "py_int_trunc": "py_int_trunc",
                      "py_round_half_even": "py_round_half_even"}
        self.n = 0
        self.used_bind = False
        self.pre = []
        self.pure = False
        self.self_kind = None      # TD in __new__, DUR in methods
        self.is_abs = False
        self.param_types = {}

    # ------------------------------------------------------------------ helpers
    def fail(self, node, why):
        raise Unsupported(f"{self.where} line {getattr(node, 'lineno', '?')}: {why}: {ast.unparse(node)[:100]}")

    def fresh(self):
        self.n += 1
        return f"t{self.n}"

    def bind(self, node, text):
        if self.pure:
            self.fail(node, "internal: bind in a pure function")
        self.used_bind = True
        t = self.fresh()
        self.pre.append((t, text))
        return t

    def take_pre(self):
        p, self.pre = self.pre, []
        return p

    @staticmethod
    def wrap(pre, body):
        for t, text in reversed(pre):
            body = f"bind ({text}) (fun {t} =>\n  {body})"
        return body

    def to_float(self, node, v: V) -> V:
        if v.ty == F:
            return v
        if v.ty != Z:
            self.fail(node, f"cannot convert {v.ty} to float")
        if v.known is not None and abs(v.known) < LIM53:
            return V(f"({self.names['sf_of_Z']} {atom(v.text)})", F, float(v.known))
        return V(self.bind(node, f"{self.names['py_float_of_int']} {atom(v.text)}"), F)

    # ------------------------------------------------------------------ expressions
    def expr(self, e, env, st) -> V:
        if isinstance(e, ast.Constant):
            c = e.value
            if isinstance(c, bool):
                return V("true" if c else "false", B, c)
            if isinstance(c, int):
                return V(zlit(c), Z, c)
            if isinstance(c, float):
                return V(flit(c), F, c)
            self.fail(e, "constant")
        if isinstance(e, ast.Name):
            if e.id in env:
                return env[e.id]
            if e.id in self.consts:
                return V("C_" + e.id, Z, self.consts[e.id])
            self.fail(e, "unknown name")
        if isinstance(e, ast.Attribute):
            if isinstance(e.value, ast.Name) and e.value.id == "self":
                if e.attr in st:
                    return st[e.attr]
                if self.self_kind == DUR and e.attr in self.fields:
                    proj, ty = self.fields[e.attr]
                    return V(f"({proj} {env['self'].text})", ty)
                self.fail(e, "attribute of self that is neither stored before nor a record field")
            if isinstance(e.value, ast.Name) and e.value.id in env:
                o = env[e.value.id]
                if o.ty == DUR and e.attr in self.fields:
                    proj, ty = self.fields[e.attr]
                    return V(f"({proj} {atom(o.text)})", ty)
                if o.ty == PTD and e.attr in PTD_ATTRS:
                    return V(f"({PTD_ATTRS[e.attr]} (td_norm {atom(o.text)}))", Z)
            self.fail(e, "attribute")
        if isinstance(e, ast.IfExp):
            c = self.expr(e.test, env, st)
            n = len(self.pre)
            a = self.expr(e.body, env, st)
            b = self.expr(e.orelse, env, st)
            if len(self.pre) != n:
                self.fail(e, "an operation that can raise inside a conditional expression")
            if c.ty != B or a.ty != b.ty:
                self.fail(e, "conditional expression: types")
            return V(f"(if {c.text} then {atom(a.text)} else {atom(b.text)})", a.ty)
        if isinstance(e, ast.BoolOp):
            vs = []
            for i, x in enumerate(e.values):
                n = len(self.pre)
                v = self.expr(x, env, st)
                if i > 0 and len(self.pre) != n:
                    self.fail(e, "an operation that can raise on the right of and / or (short-circuit)")
                if v.ty != B:
                    self.fail(e, "and / or on non-boolean operands (truthiness is not in the fragment)")
                vs.append(v)
            op = " || " if isinstance(e.op, ast.Or) else " && "
            return V("(" + op.join(atom(v.text) for v in vs) + ")", B)
        if isinstance(e, ast.UnaryOp):
            a = self.expr(e.operand, env, st)
            if isinstance(e.op, ast.USub):
                if a.ty == Z:
                    return V(zlit(-a.known), Z, -a.known) if a.known is not None and isinstance(e.operand, ast.Constant) \
                        else V(f"(- {atom(a.text)})", Z, None if a.known is None else -a.known)
                if a.ty == F:
                    return V(f"(fopp {atom(a.text)})", F)
            if isinstance(e.op, ast.Not) and a.ty == B:
                return V(f"(negb {atom(a.text)})", B, None if a.known is None else (not a.known))
            self.fail(e, "unary operator")
        if isinstance(e, ast.BinOp):
            return self.binop(e, env, st)
        if isinstance(e, ast.Compare):
            return self.compare(e, env, st)
        if isinstance(e, ast.Call):
            return self.call(e, env, st)
        self.fail(e, "expression form")

    def binop(self, e, env, st) -> V:
        a = self.expr(e.left, env, st)
        b = self.expr(e.right, env, st)
        op = e.op
        if a.ty == Z and b.ty == Z:
            both = a.known is not None and b.known is not None
            if isinstance(op, ast.Add):
                return V(f"({a.text} + {b.text})", Z, a.known + b.known if both else None)
            if isinstance(op, ast.Sub):
                return V(f"({a.text} - {b.text})", Z, a.known - b.known if both else None)
            if isinstance(op, ast.Mult):
                return V(f"({a.text} * {b.text})", Z, a.known * b.known if both else None)
            if isinstance(op, (ast.FloorDiv, ast.Mod)):
                if b.known == 0:
                    self.fail(e, "integer // or % by the constant 0")
                if b.known is None:
                    return V(self.bind(e, ("py_int_floordiv " if isinstance(op, ast.FloorDiv) else "py_int_mod ") + f"{atom(a.text)} {atom(b.text)}"), Z)
                if isinstance(op, ast.FloorDiv):
                    return V(f"({a.text} / {b.text})", Z, a.known // b.known if both else None)
                return V(f"({a.text} mod {b.text})", Z, a.known % b.known if both else None)
            if isinstance(op, ast.Div):
                return V(self.bind(e, f"{self.names['py_int_truediv']} {atom(a.text)} {atom(b.text)}"), F)
            self.fail(e, "integer operator")
        if F in (a.ty, b.ty) and a.ty in (Z, F) and b.ty in (Z, F):
            divisor_known = b.known
            fa = self.to_float(e.left, a)
            fb = self.to_float(e.right, b)
            if isinstance(op, ast.Add):
                return V(f"(fadd {atom(fa.text)} {atom(fb.text)})", F)
            if isinstance(op, ast.Sub):
                return V(f"(fsub {atom(fa.text)} {atom(fb.text)})", F)
            if isinstance(op, ast.Mult):
                return V(f"(fmul {atom(fa.text)} {atom(fb.text)})", F)
            if isinstance(op, ast.Div):
                if divisor_known is None or divisor_known == 0:
                    self.fail(e, "float division by something that is not statically a non-zero constant (ZeroDivisionError not modelled)")
                return V(f"(fdiv {atom(fa.text)} {atom(fb.text)})", F)
            if isinstance(op, ast.Mod):
                return V(self.bind(e, f"{self.names['py_float_mod']} {atom(fa.text)} {atom(fb.text)}"), F)
            if isinstance(op, ast.FloorDiv):
                t = self.bind(e, f"{self.names['py_float_divmod']} {atom(fa.text)} {atom(fb.text)}")
                return V(f"(fst {t})", F)
            self.fail(e, "float operator")
        if a.ty == NUM and isinstance(op, ast.Add) and b.ty == Z:
            return V(f"(num_add_int {atom(a.text)} {atom(b.text)})", NUM)
        if a.ty == NUM and isinstance(op, ast.Add) and b.ty == F:
            return V(f"(num_add_float {atom(a.text)} {atom(b.text)})", NUM)
        self.fail(e, f"operand types {a.ty} / {b.ty}")

    def compare(self, e, env, st) -> V:
        if len(e.ops) > 1:
            n = len(self.pre)
            parts, left = [], e.left
            for op, right in zip(e.ops, e.comparators):
                parts.append(self.compare(ast.copy_location(ast.Compare(left=left, ops=[op], comparators=[right]), e), env, st))
                left = right
            if len(self.pre) != n or any(not isinstance(x, (ast.Name, ast.Constant)) for x in [e.left] + e.comparators):
                self.fail(e, "chained comparison of anything but variables / constants")
            return V("(" + " && ".join(atom(p.text) for p in parts) + ")", B)
        a = self.expr(e.left, env, st)
        b = self.expr(e.comparators[0], env, st)
        op = e.ops[0]
        if a.ty == Z and b.ty == Z:
            x, y = a.text, b.text
            table = {ast.Lt: f"({x} <? {y})", ast.LtE: f"({x} <=? {y})", ast.Gt: f"({y} <? {x})", ast.GtE: f"({y} <=? {x})",
                     ast.Eq: f"({x} =? {y})", ast.NotEq: f"(negb ({x} =? {y}))"}
            if type(op) in table:
                kn = None
                if a.known is not None and b.known is not None:
                    import operator
                    kn = {ast.Lt: operator.lt, ast.LtE: operator.le, ast.Gt: operator.gt, ast.GtE: operator.ge, ast.Eq: operator.eq,
                          ast.NotEq: operator.ne}[type(op)](a.known, b.known)
                return V(table[type(op)], B, kn)
            self.fail(e, "integer comparison")
        if F in (a.ty, b.ty) and a.ty in (Z, F) and b.ty in (Z, F):
            for v in (a, b):
                if v.ty == Z and (v.known is None or abs(v.known) >= LIM53):
                    self.fail(e, "float compared with an int that is not a static constant below 2^53 (CPython compares exactly)")
            x, y = atom(self.to_float(e, a).text), atom(self.to_float(e, b).text)
            table = {ast.Lt: f"(flt {x} {y})", ast.Gt: f"(flt {y} {x})", ast.Eq: f"(feq {x} {y})"}
            if type(op) in table:
                return V(table[type(op)], B)
            self.fail(e, "float comparison other than < > ==")
        self.fail(e, f"comparison of {a.ty} / {b.ty}")

    def td_ctor(self, e, args, env, st) -> V:
        if len(args) != 7 or e.keywords:
            self.fail(e, "timedelta constructor: expected exactly 7 positional arguments (days, seconds, microseconds, milliseconds, minutes, hours, weeks)")
        vs = [self.expr(a, env, st) for a in args]
        if all(v.ty == Z for v in vs):
            return V(self.bind(e, "td_of_int_args " + " ".join(atom(v.text) for v in vs)), TD)
        if vs[0].ty == Z and vs[1].ty == F and all(v.ty == Z and v.known == 0 for v in vs[2:]):
            return V(self.bind(e, f"td_of_days_fsec {atom(vs[0].text)} {atom(vs[1].text)}"), TD)
        self.fail(e, "timedelta constructor: all integers, or integer days + float seconds with every other argument statically 0")

    def ctor(self, e, env, st) -> V:
        """self.__class__(...) / Duration(...): the nine slots"""
        if len(e.args) > len(SLOTS):
            self.fail(e, "too many constructor arguments")
        given = {}
        for slot, a in zip(SLOTS, e.args):
            given[slot] = self.expr(a, env, st)
        for kw in e.keywords:
            if kw.arg not in SLOTS or kw.arg in given:
                self.fail(e, "constructor keyword")
            given[kw.arg] = self.expr(kw.value, env, st)
        vs = [given.get(sl, V("0", Z, 0)) for sl in SLOTS]
        if all(v.ty == Z for v in vs):
            return V(self.bind(e, "gen_duration_new " + " ".join(atom(v.text) for v in vs)), DUR)
        if vs[1].ty == F and all(v.ty == Z and v.known == 0 for v in [vs[0]] + vs[2:7]) and vs[7].ty == Z and vs[8].ty == Z:
            return V(self.bind(e, f"gen_duration_new_fsec {atom(vs[1].text)} {atom(vs[7].text)} {atom(vs[8].text)}"), DUR)
        self.fail(e, "constructor call: all integers, or a float `seconds` with only years / months beside it")

    def apply(self, e, entry, recv, args):
        cname, rty, monadic, ptys, takes_self = entry
        if len(args) != len(ptys) or any(v.ty != pt for v, pt in zip(args, ptys)):
            self.fail(e, f"call with argument types {[v.ty for v in args]}, expected {ptys}")
        text = " ".join([cname] + ([atom(recv.text)] if takes_self else []) + [atom(v.text) for v in args])
        if monadic:
            return V(self.bind(e, text), rty)
        return V(f"({text})", rty)

    def call(self, e, env, st) -> V:
        f = e.func
        if isinstance(f, ast.Name):
            if f.id in ("abs", "int", "round"):
                if len(e.args) != 1 or e.keywords:
                    self.fail(e, f"{f.id}() with other than one argument")
                a = self.expr(e.args[0], env, st)
                if f.id == "abs":
                    if a.ty == Z:
                        return V(f"(Z.abs {atom(a.text)})", Z, None if a.known is None else abs(a.known))
                    if a.ty == F:
                        return V(f"(fabs {atom(a.text)})", F)
                elif a.ty == Z:
                    return a
                elif a.ty == F:
                    return V(self.bind(e, (self.names["py_int_trunc"] if f.id == "int" else self.names["py_round_half_even"]) + " " + atom(a.text)), Z)
                self.fail(e, f"{f.id}() of a {a.ty}")
            if f.id == "divmod" and len(e.args) == 2 and not e.keywords:
                a = self.expr(e.args[0], env, st)
                b = self.expr(e.args[1], env, st)
                if a.ty == Z and b.ty == Z:
                    if b.known == 0:
                        self.fail(e, "divmod by the constant 0")
                    if b.known is not None:
                        return V(f"({a.text} / {b.text}, {a.text} mod {b.text})", (Z, Z))
                    return V(self.bind(e, f"py_int_divmod {atom(a.text)} {atom(b.text)}"), (Z, Z))
                if F in (a.ty, b.ty) and a.ty in (Z, F) and b.ty in (Z, F):
                    fa = self.to_float(e.args[0], a)
                    fb = self.to_float(e.args[1], b)
                    return V(self.bind(e, f"{self.names['py_float_divmod']} {atom(fa.text)} {atom(fb.text)}"), (F, F))
                self.fail(e, "divmod operand types")
            if f.id == "timedelta":
                return self.td_ctor(e, e.args, env, st)
            if f.id == "Duration":
                return self.ctor(e, env, st)
            if not e.keywords:
                args = [self.expr(a, env, st) for a in e.args]
                key = (f.id, tuple(v.ty for v in args))
                if key in self.funcs:
                    cname, rty, monadic = self.funcs[key]
                    return self.apply(e, (cname, rty, monadic, [v.ty for v in args], False), None, args)
            self.fail(e, "call of an unknown function (or with unregistered argument types)")
        if isinstance(f, ast.Attribute):
            name = f.attr
            if isinstance(f.value, ast.Name) and f.value.id == "self" and name == "__class__":
                return self.ctor(e, env, st)
            if isinstance(f.value, ast.Name) and f.value.id == "timedelta" and name == "__new__":
                if not e.args or not (isinstance(e.args[0], ast.Name) and e.args[0].id == "cls"):
                    self.fail(e, "timedelta.__new__ without cls")
                return self.td_ctor(e, e.args[1:], env, st)
            if isinstance(f.value, ast.Name) and f.value.id not in env:
                self.fail(e, "method call on an unknown object")
            if isinstance(f.value, (ast.Name, ast.Call)) and not e.keywords:
                recv = self.expr(f.value, env, st)
                if recv.ty in (TD, PTD) and name == "total_seconds" and not e.args:
                    return V(f"(total_seconds {atom(recv.text)})", F)
                if recv.ty == F and name == "as_integer_ratio" and not e.args:
                    return V(self.bind(e, f"py_as_integer_ratio {atom(recv.text)}"), (Z, Z))
                if recv.ty == DUR and name in self.methods:
                    args = [self.expr(a, env, st) for a in e.args]
                    return self.apply(e, self.methods[name], recv, args)
        self.fail(e, "call")

    # ------------------------------------------------------------------ static tests
    def static_bool(self, t):
        """True / False when the test is decided by the declared parameter types (or a boolean variable whose constant value is known), else None"""
        if isinstance(t, ast.Name) and t.id in self.cur_env and self.cur_env[t.id].ty == B and self.cur_env[t.id].known is not None:
            return self.cur_env[t.id].known
        if isinstance(t, ast.UnaryOp) and isinstance(t.op, ast.Not):
            r = self.static_bool(t.operand)
            return None if r is None else (not r)
        if isinstance(t, ast.BoolOp):
            rs = [self.static_bool(x) for x in t.values]
            if isinstance(t.op, ast.Or):
                return True if any(r is True for r in rs) else (False if all(r is False for r in rs) else None)
            return False if any(r is False for r in rs) else (True if all(r is True for r in rs) else None)
        if (isinstance(t, ast.Call) and isinstance(t.func, ast.Name) and t.func.id == "isinstance" and len(t.args) == 2 and not t.keywords
                and isinstance(t.args[0], ast.Name) and t.args[0].id in self.param_types):
            pty = self.param_types[t.args[0].id]
            classes = t.args[1].elts if isinstance(t.args[1], ast.Tuple) else [t.args[1]]
            table = self.class_table
            if pty not in {x for v in table.values() for x in v} or not all(isinstance(c, ast.Name) and c.id in table for c in classes):
                return None
            return any(pty in table[c.id] for c in classes)
        return None

    # ------------------------------------------------------------------ statements
    @staticmethod
    def returns(stmts):
        if not stmts:
            return False
        s = stmts[-1]
        if isinstance(s, (ast.Return, ast.Raise)):
            return True
        if isinstance(s, ast.If):
            return FloatTr.returns(s.body) and FloatTr.returns(s.orelse)
        return False

    def store(self, target, v: V, env, st):
        """-> (let-text prefix, env', st') for `target = v`"""
        if isinstance(target, ast.Name):
            cn = "v_" + target.id
            env2 = dict(env)
            env2[target.id] = V(cn, v.ty, v.known if (v.ty not in (Z, F) or (self.track_int_consts and v.ty == Z)) else None)
            return f"let {cn} := {v.text} in\n  ", env2, st
        if isinstance(target, ast.Attribute) and isinstance(target.value, ast.Name) and target.value.id == "self":
            a = target.attr
            if self.self_kind == TD:
                if a not in self.fields:
                    self.fail(target, "store to an attribute that is not a field of the record")
                if self.fields[a][1] != v.ty:
                    self.fail(target, f"field {a} holds {self.fields[a][1]}, stored value is {v.ty}")
            elif a not in self.cache_fields:
                self.fail(target, "a method stores to an attribute that is not one of the lazy-cache fields")
            cn = "f_" + a
            st2 = dict(st)
            st2[a] = V(cn, v.ty)
            return f"let {cn} := {v.text} in\n  ", env, st2
        self.fail(target, "assignment target")

    def block(self, stmts, env, st) -> str:
        if not stmts:
            if self.konts:
                k, saved = self.konts[-1], self.konts
                self.konts = self.konts[:-1]
                try:
                    return k(env, st)
                finally:
                    self.konts = saved
            raise Unsupported(f"{self.where}: control reaches the end of the function without a return")
        if isinstance(stmts[0], ast.AnnAssign):
            if stmts[0].value is None:
                return self.block(stmts[1:], env, st)
            s2 = ast.fix_missing_locations(ast.Assign(targets=[stmts[0].target], value=stmts[0].value, lineno=stmts[0].lineno))
            return self.block([s2] + stmts[1:], env, st)
        s, rest = stmts[0], stmts[1:]
        if isinstance(s, ast.Expr) and isinstance(s.value, ast.Constant) and isinstance(s.value.value, str):
            return self.block(rest, env, st)
        if isinstance(s, ast.AugAssign):
            s2 = ast.Assign(targets=[s.target], value=ast.BinOp(left=s.target, op=s.op, right=s.value), lineno=s.lineno)
            ast.fix_missing_locations(s2)
            return self.block([s2] + rest, env, st)
        if isinstance(s, ast.Assign):
            if len(s.targets) != 1:
                self.fail(s, "multiple assignment")
            tgt = s.targets[0]
            if isinstance(tgt, ast.Tuple):
                c = s.value
                const_divmod = False
                if (len(tgt.elts) == 2 and isinstance(c, ast.Call) and isinstance(c.func, ast.Name) and c.func.id == "divmod"
                        and len(c.args) == 2 and not c.keywords):
                    n0, pre0 = self.n, list(self.pre)
                    a = self.expr(c.args[0], env, st)
                    b = self.expr(c.args[1], env, st)
                    const_divmod = a.ty == Z and b.ty == Z and b.known is not None and b.known != 0
                    if not const_divmod:
                        self.n, self.pre = n0, pre0
                if not const_divmod and isinstance(c, ast.Tuple) and len(c.elts) == len(tgt.elts) and all(isinstance(x, ast.Name) for x in tgt.elts):
                    vs = [self.expr(x, env, st) for x in c.elts]
                    pre = self.take_pre()
                    env2, lets = dict(env), ""
                    for i, v in enumerate(vs):
                        lets += f"let u{i}_{self.n} := {v.text} in\n  "
                    for i, (x, v) in enumerate(zip(tgt.elts, vs)):
                        l, env2, st = self.store(x, V(f"u{i}_{self.n}", v.ty), env2, st)
                        lets += l
                    return self.wrap(pre, lets + self.block(rest, env2, st))
                if not const_divmod:
                    v = self.expr(c, env, st)
                    if not (isinstance(v.ty, tuple) and len(v.ty) == len(tgt.elts) and all(isinstance(x, ast.Name) for x in tgt.elts)):
                        self.fail(s, "tuple assignment: the value is not a pair / the targets are not plain names")
                    pre = self.take_pre()
                    env2 = dict(env)
                    for x, ty in zip(tgt.elts, v.ty):
                        env2[x.id] = V("v_" + x.id, ty)
                    names = ", ".join("v_" + x.id for x in tgt.elts)
                    return self.wrap(pre, f"let '({names}) := {v.text} in\n  " + self.block(rest, env2, st))
                pre = self.take_pre()
                ta = self.fresh()
                l1, env1, st1 = self.store(tgt.elts[0], V(f"({ta} / {b.text})", Z), env, st)
                l2, env2, st2 = self.store(tgt.elts[1], V(f"({ta} mod {b.text})", Z), env1, st1)
                return self.wrap(pre, f"let {ta} := {a.text} in\n  " + l1 + l2 + self.block(rest, env2, st2))
            if isinstance(s.value, ast.Dict):
                return self.signature(s, tgt, rest, env, st)
            v = self.expr(s.value, env, st)
            pre = self.take_pre()
            l, env2, st2 = self.store(tgt, v, env, st)
            return self.wrap(pre, l + self.block(rest, env2, st2))
        if isinstance(s, ast.Return):
            return self.ret(s, env, st)
        if isinstance(s, ast.Raise):
            x = s.exc
            name = x.func.id if isinstance(x, ast.Call) and isinstance(x.func, ast.Name) else x.id if isinstance(x, ast.Name) else None
            if name not in self.exn:
                self.fail(s, "raise")
            self.used_bind = True
            return f"Raise {self.exn[name]}"
        if isinstance(s, ast.If):
            return self.if_(s, rest, env, st)
        self.fail(s, "statement form")

    def signature(self, s, tgt, rest, env, st):
        keys = [k.value if isinstance(k, ast.Constant) else None for k in s.value.keys]
        if keys != ["years", "months", "weeks", "days", "hours", "minutes", "seconds", "microseconds"]:
            self.fail(s, "dict literal other than the _signature of Duration.__new__ (keys in the modelled order)")
        vs = [self.expr(x, env, st) for x in s.value.values]
        if any(v.ty != Z for v in vs):
            if not (self.sig_optional and all(v.ty in (Z, F) for v in vs)):
                self.fail(s, "_signature with a non-integer value")
            text = "[]"            # the signature of a float-constructed Duration is not recorded (the record holds integers only)
        else:
            text = "[" + "; ".join(v.text for v in vs) + "]"
        pre = self.take_pre()
        l, env2, st2 = self.store(tgt, V(text, LZ), env, st)
        return self.wrap(pre, l + self.block(rest, env2, st2))

    def ret(self, s, env, st):
        if s.value is None:
            self.fail(s, "bare return")
        if self.self_kind == TD:
            if not (isinstance(s.value, ast.Name) and s.value.id == "self"):
                self.fail(s, "__new__ must return self")
            vals = []
            for a in self.ctor_order:
                if a == "<N>":
                    vals.append(env["self"].text)
                elif a == "<abs>":
                    vals.append("true" if self.is_abs else "false")
                elif a in st:
                    vals.append(st[a].text)
                elif a == "_signature":
                    vals.append("[]")                       # never stored: no signature (AbsoluteDuration)
                else:
                    self.fail(s, f"field {a} is never stored")
            self.used_bind = True
            return "Ok (mkdur " + " ".join(atom(x) for x in vals) + ")"
        if self.opres:
            self.used_bind = True
            self.ret_ty = OPRES
            if isinstance(s.value, ast.Name) and s.value.id == "NotImplemented":
                return "Ok RNotImpl"
            if isinstance(s.value, ast.Tuple):
                vs = [self.expr(x, env, st) for x in s.value.elts]
                pre = self.take_pre()
                if [v.ty for v in vs] != [Z, DUR]:
                    self.fail(s, "returned tuple other than (int, Duration)")
                return self.wrap(pre, f"Ok (RPair {atom(vs[0].text)} {atom(vs[1].text)})")
            v = self.expr(s.value, env, st)
            pre = self.take_pre()
            con = {Z: "RInt", F: "RFloat", DUR: "RDur"}
            if v.ty == OPRES:
                return self.wrap(pre, f"Ok {atom(v.text)}")
            if v.ty not in con:
                self.fail(s, f"returned value of type {v.ty}")
            return self.wrap(pre, f"Ok ({con[v.ty]} {atom(v.text)})")
        v = self.expr(s.value, env, st)
        pre = self.take_pre()
        self.ret_ty = v.ty
        return self.wrap(pre, v.text if self.pure else f"Ok {atom(v.text)}")

    def if_(self, s, rest, env, st):
        self.cur_env = env
        sb = self.static_bool(s.test)
        if sb is True:
            return self.block(s.body + ([] if self.returns(s.body) else rest), env, st)
        if sb is False:
            return self.block(s.orelse + rest, env, st)
        t = s.test
        # lazy cache of a property: `if self._c is None:` on a fresh object
        if (isinstance(t, ast.Compare) and len(t.ops) == 1 and isinstance(t.ops[0], ast.Is)
                and isinstance(t.comparators[0], ast.Constant) and t.comparators[0].value is None
                and isinstance(t.left, ast.Attribute) and isinstance(t.left.value, ast.Name) and t.left.value.id == "self"
                and t.left.attr in self.cache_fields and t.left.attr not in st and self.self_kind == DUR and not s.orelse):
            return self.block(s.body + rest, env, st)
        if self.track_int_consts:
            saved = (self.n, list(self.pre), self.used_bind)
            try:
                c0 = self.expr(t, env, st) if not (isinstance(t, ast.Name) and t.id in env and env[t.id].ty == Z) else \
                    V("", B, None if env[t.id].known is None else env[t.id].known != 0)
                folded = c0.known if (c0.ty == B and len(self.pre) == len(saved[1])) else None
            except Unsupported:
                folded = None
            self.n, self.pre, self.used_bind = saved
            if folded is True:
                return self.block(s.body + ([] if self.returns(s.body) else rest), env, st)
            if folded is False:
                return self.block(s.orelse + rest, env, st)
        sel, env_t, env_e = self.cond(t, env, st)
        pre = self.take_pre()
        if self.merge_mode == "dup" and not self.returns(s.body):
            a = self.block(s.body + rest, env_t, st)
            b = self.block(s.orelse + rest, env_e, st)
            return self.wrap(pre, sel(a, b))
        if self.returns(s.body):
            a = self.block(s.body, env_t, st)
            b = self.block(s.orelse + rest, env_e, st)
            return self.wrap(pre, sel(a, b))
        if self.returns(s.orelse) and s.orelse:
            a = self.block(s.body + rest, env_t, st)
            b = self.block(s.orelse, env_e, st)
            return self.wrap(pre, sel(a, b))
        saved = (self.n, list(self.pre), self.used_bind)
        try:
            return self.wrap(pre, self.simple_merge(s, sel, rest, env, st))
        except Unsupported:
            if not self.state_merge:
                raise
            self.n, self.pre, self.used_bind = saved[0], saved[1], saved[2]
        return self.wrap(pre, self.tuple_merge(s, sel, rest, env, st, env_t, env_e))

    def cond(self, t, env, st):
        """-> (select(textA, textB) -> text, env in the then branch, env in the else branch)"""
        c = self.expr(t, env, st)
        if c.ty == Z and isinstance(t, ast.Name):
            c = V(f"(negb ({c.text} =? 0))", B)
        if c.ty != B:
            self.fail(t, "condition that is not a comparison (truthiness is not in the fragment)")
        return (lambda a, b: f"if {c.text} then ({a}) else ({b})"), env, env

    def simple_merge(self, s, sel, rest, env, st):
        """`if c: x = e` (one variable / field, pure): let x := if c then e else x"""
        def desugar(stmts):
            out = []
            for x in stmts:
                if isinstance(x, ast.AugAssign):
                    x = ast.fix_missing_locations(ast.Assign(targets=[x.target], value=ast.BinOp(left=x.target, op=x.op, right=x.value), lineno=x.lineno))
                out.append(x)
            return out
        s = ast.If(test=s.test, body=desugar(s.body), orelse=desugar(s.orelse), lineno=s.lineno)
        targets = []
        for br in (s.body, s.orelse):
            for x in br:
                if not (isinstance(x, ast.Assign) and len(x.targets) == 1 and isinstance(x.targets[0], (ast.Name, ast.Attribute))):
                    self.fail(x, "inside an if without return only simple assignments are in the fragment")
                key = ast.unparse(x.targets[0])
                if key not in [k for k, _ in targets]:
                    targets.append((key, x.targets[0]))

        if len(targets) != 1:
            self.fail(s, "an if without return that assigns other than exactly one variable / field")
        key, tg = targets[0]
        cur = self.expr(tg, env, st)          # the target must already have a value (it is kept by the branch that does not assign it)

        def branch(stmts):
            e2, s2, lets, last = env, st, "", cur
            for i, x in enumerate(stmts):
                v = self.expr(x.value, e2, s2)
                if self.pre:
                    self.fail(x, "an operation that can raise inside an if without return")
                if len(stmts) == 1:
                    return v.text, v.ty
                l, e2, s2 = self.store(x.targets[0], v, e2, s2)
                lets += l
                last = self.expr(tg, e2, s2)
            return lets + last.text, last.ty

        ta, tya = branch(s.body)
        tb, tyb = branch(s.orelse)
        if tya != tyb or tya != cur.ty:
            self.fail(s, "branches assign different types")
        l, env2, st2 = self.store(tg, V("(" + sel(atom(ta), atom(tb)).replace("(" + atom(ta) + ")", atom(ta)).replace("(" + atom(tb) + ")", atom(tb)) + ")", tya), env, st)
        return l + self.block(rest, env2, st2)

    @staticmethod
    def assigned(stmts):
        out = []
        for x in stmts:
            tgts = []
            if isinstance(x, ast.Assign):
                for t in x.targets:
                    tgts += t.elts if isinstance(t, ast.Tuple) else [t]
            elif isinstance(x, (ast.AugAssign, ast.AnnAssign)) and getattr(x, "value", None) is not None:
                tgts = [x.target]
            elif isinstance(x, ast.If):
                for k in FloatTr.assigned(x.body) + FloatTr.assigned(x.orelse):
                    if k not in out:
                        out.append(k)
            for t in tgts:
                if isinstance(t, ast.Name) and t.id not in out:
                    out.append(t.id)
                elif not isinstance(t, ast.Name):
                    raise Unsupported("general if-merge: assignment to something that is not a plain variable")
        return out

    @staticmethod
    def unify(a, b):
        if a == b:
            return a
        if {a, b} <= {Z, F, NUM}:
            return NUM
        raise Unsupported(f"a variable holds {a} on one path and {b} on the other")

    @staticmethod
    def coerce(v, ty):
        if v.ty == ty:
            return v.text
        if ty == NUM and v.ty == Z:
            return f"(NInt {atom(v.text)})"
        if ty == NUM and v.ty == F:
            return f"(NFloat {atom(v.text)})"
        raise Unsupported(f"cannot coerce {v.ty} to {ty}")

    def tuple_merge(self, s, sel, rest, env, st, env_t, env_e):
        """the general case: the variables assigned in the if are threaded through the result monad:
           bind (if c then <body ; Ok (w1, .., wn)> else <orelse ; Ok (w1, .., wn)>) (fun '(w1, .., wn) => rest)"""
        for n in ast.walk(ast.Module(body=s.body + s.orelse, type_ignores=[])):
            if isinstance(n, ast.Return):
                self.fail(s, "a return on some but not all paths of an if")
        live_after = self.loads(rest) | self.live[-1]
        W = [k for k in self.assigned(s.body + s.orelse) if k in env and k in live_after]
        self.live.append(live_after)
        try:
            return self.tuple_merge2(s, sel, rest, env, st, env_t, env_e, W)
        finally:
            self.live.pop()

    @staticmethod
    def loads(stmts):
        return {n.id for x in stmts for n in ast.walk(x) if isinstance(n, ast.Name) and isinstance(n.ctx, ast.Load)}

    def tuple_merge2(self, s, sel, rest, env, st, env_t, env_e, W):
        tys = {}

        def finish(types_only):
            def k(env2, st2):
                vals = [env2[w] for w in W]
                if types_only is not None:
                    types_only.append([v.ty for v in vals])
                    return "Ok tt"
                if not W:
                    return "Ok tt"
                parts = [self.coerce(v, tys[w]) for v, w in zip(vals, W)]
                return "Ok " + (atom(parts[0]) if len(parts) == 1 else "(" + ", ".join(parts) + ")")
            return k

        # dry run for the types
        saved = (self.n, list(self.pre), self.used_bind)
        seen = []
        self.konts.append(finish(seen))
        try:
            self.block(s.body, env_t, st)
            self.block(s.orelse, env_e, st)
        finally:
            self.konts.pop()
        self.n, self.pre, self.used_bind = saved
        for i, w in enumerate(W):
            ty = seen[0][i]
            for row in seen[1:]:
                ty = self.unify(ty, row[i])
            tys[w] = ty
        self.used_bind = True
        self.konts.append(finish(None))
        try:
            a = self.block(s.body, env_t, st)
            b = self.block(s.orelse, env_e, st)
        finally:
            self.konts.pop()
        env2 = dict(env)
        for w in W:
            env2[w] = V("v_" + w, tys[w])
        pat = "_" if not W else ("v_" + W[0] if len(W) == 1 else "'(" + ", ".join("v_" + w for w in W) + ")")
        top = self.live.pop()
        try:
            r = self.block(rest, env2, st)
        finally:
            self.live.append(top)
        return f"bind ({sel(a, b)}) (fun {pat} =>\n  {r})"

    # ------------------------------------------------------------------ entry points
    def function(self, fn: ast.FunctionDef, coq_name, param_types, self_kind, is_abs=False, fixed=None, opres=False):
        """param_types: list of (python name, type) for the parameters after self / cls (all of them for a module function: self_kind None).
        fixed: parameter -> integer constant (the function is specialised to calls that pass / default these values).
        Returns (definition text, return type, monadic?)."""
        fixed = fixed or {}
        names = [a.arg for a in fn.args.args]
        if fn.args.vararg or fn.args.kwarg or fn.args.kwonlyargs or fn.args.posonlyargs:
            self.fail(fn, "parameter kinds")
        head = [] if self_kind is None else names[:1]
        if (self_kind is not None and head not in (["self"], ["cls"])) or names[len(head):] != [n for n, _ in param_types]:
            self.fail(fn, f"parameters {names} differ from the modelled ones")
        for d in fn.args.defaults:
            if not (isinstance(d, ast.Constant) and d.value == 0):
                self.fail(fn, "parameter default other than 0")
        self.self_kind, self.is_abs, self.opres = self_kind, is_abs, opres
        self.param_types = dict(param_types)
        env0 = {n: (V(zlit(fixed[n]), Z, fixed[n]) if n in fixed else V("v_" + n, t)) for n, t in param_types}
        if self_kind not in (None, TD):
            env0["self"] = V("v_self", self_kind)
            self.param_types["self"] = self_kind
        body = list(fn.body)
        self.pure, self.n, self.pre, self.used_bind, self.ret_ty = False, 0, [], False, None
        out = self.block(body, env0, {})
        if not self.used_bind:
            self.pure, self.n, self.pre, self.ret_ty = True, 0, [], None
            out = self.block(body, env0, {})
        monadic = not self.pure
        rty = DUR if self_kind == TD else self.ret_ty
        params = ([("v_self", self_kind)] if self_kind not in (None, TD) else []) + [("v_" + n, t) for n, t in param_types if n not in fixed]
        sig = " ".join(f"({n} : {self.coq_type(t)})" for n, t in params)
        rt = f"result {self.coq_type(rty)}" if monadic else self.coq_type(rty)
        return f"Definition {coq_name} {sig} : {rt} :=\n  {out}.\n", rty, monadic

    @staticmethod
    def coq_type(t):
        if isinstance(t, tuple):
            return "(" + " * ".join(FloatTr.coq_type(x) for x in t) + ")"
        return {PTD: "Z"}.get(t, t)
