"""Runs inside the staged interpreter: python -m vlib.impl_main <prop module> <cases.json> <out.json>

VERIF_AMBIENT (comma list) puts the process into a particular HISTORY before the cases run; the runner compares the results with
those of a fresh process (the properties hold for every history of the process-wide configuration):
  failed  -- configuration calls that are rejected (unknown locale, invalid week day) and ordinary API calls that raise: they must leave everything as it was
  week    -- week_starts_at(SUNDAY), week_ends_at(SATURDAY)          (documented configuration API)
  locale  -- set_locale("de")
  localtz -- set_local_timezone(Asia/Kathmandu)
"""
import importlib
import json
import os
import sys


def ambient(spec):
    import pendulum
    what = [w for w in spec.split(",") if w]
    if "failed" in what:
        for f, a in ((pendulum.set_locale, "tlh"), (pendulum.set_locale, ""), (pendulum.week_starts_at, 9), (pendulum.week_ends_at, -1),
                     (pendulum.locale, "xx_YY")):
            try:
                f(a)
            except Exception:  # noqa: the call is expected to be rejected
                pass
        # ordinary API calls that are REJECTED (wrong argument type, result outside years 1..9999, unknown zone, malformed text): an exception
        # raised half-way through a call must leave no trace either
        import datetime as _dt
        x = pendulum.datetime(2021, 3, 28, 1, 30, tz="Europe/Paris")
        for thunk in (lambda: x.astimezone("Europe/Paris"), lambda: pendulum.DateTime.min.in_timezone("America/New_York"),
                      lambda: pendulum.DateTime.max.in_timezone("Asia/Tokyo"), lambda: pendulum.timezone("Nowhere/Land"),
                      lambda: x.add(years=9000), lambda: x.subtract(years=3000), lambda: x - "yesterday", lambda: pendulum.parse("not a date"),
                      lambda: pendulum.from_format("2021", "YYYY-MM"), lambda: x.start_of("fortnight"), lambda: x.nth_of("month", 7, 1),
                      lambda: pendulum.duration(days=10 ** 10), lambda: pendulum.duration(days=1) // 0, lambda: pendulum.interval(x, "tomorrow"),
                      lambda: pendulum.time(1, 2, 3) + _dt.timedelta(days=2), lambda: x.set(month=13), lambda: x.replace(hour=25),
                      lambda: pendulum.datetime(2021, 3, 28, 2, 30, tz="Europe/Paris", raise_on_unknown_times=True),
                      lambda: pendulum.date(2021, 2, 30), lambda: x.format("YYYY", locale="tlh"), lambda: x.diff_for_humans(locale="tlh")):
            try:
                thunk()
            except Exception:  # noqa
                pass
        # parse attempts with locale-dependent tokens in EVERY shipped locale (some are rejected, e.g. `Do` where the locale has no ordinal table):
        # whatever a lookup memoised on the way must not change what later calls return
        import pathlib
        for loc in sorted(p.name for p in pathlib.Path(pendulum.__file__).parent.joinpath("locales").iterdir() if p.is_dir() and not p.name.startswith("_")):
            for text, fmt in (("1st", "Do"), ("Monday 1st", "dddd Do"), ("x", "MMMM"), ("x", "A")):
                try:
                    pendulum.from_format(text, fmt, locale=loc)
                except Exception:  # noqa
                    pass
    if "week" in what:
        pendulum.week_starts_at(pendulum.SUNDAY)
        pendulum.week_ends_at(pendulum.SATURDAY)
        # the standard library's own process-wide calendar configuration is not pendulum's business either
        import calendar as _cal
        _cal.setfirstweekday(_cal.SUNDAY)
    if "locale" in what:
        pendulum.set_locale("de")
    if "localtz" in what:
        pendulum.set_local_timezone(pendulum.timezone("Asia/Kathmandu"))


def main():
    mod = importlib.import_module("props." + sys.argv[1])
    cases = json.load(open(sys.argv[2]))
    if os.environ.get("VERIF_AMBIENT"):
        ambient(os.environ["VERIF_AMBIENT"])
    out = mod.impl_run(cases)
    json.dump(out, open(sys.argv[3], "w"))


if __name__ == "__main__":
    main()
