"""Runs inside the staged interpreter: python -m vlib.impl_main <prop module> <cases.json> <out.json>"""
import importlib
import json
import sys


def main():
    mod = importlib.import_module("props." + sys.argv[1])
    cases = json.load(open(sys.argv[2]))
    out = mod.impl_run(cases)
    json.dump(out, open(sys.argv[3], "w"))


if __name__ == "__main__":
    main()
