"""Runs inside the staged interpreter: python -m vlib.impl_main <prop module> <cases.json> <out.json>

VERIF_AMBIENT (comma list) puts the process into a particular HISTORY before the cases run; the runner compares the results with
those of a fresh process (the properties hold for every history of the process-wide configuration):
  failed  -- configuration calls that are rejected (unknown locale, invalid week day): they must leave everything as it was
  week    -- week_starts_at(SUNDAY), week_ends_at(SATURDAY)          (documented configuration API)
  locale  -- set_locale("de")
  localtz -- set_local_timezone(Asia/Kathmandu)
"""
import importlib
import json
import os
import sys


def ambient(spec):
    import pendulum
    what = [w for w in spec.split(",") if w]
    if "failed" in what:
        for f, a in ((pendulum.set_locale, "tlh"), (pendulum.set_locale, ""), (pendulum.week_starts_at, 9), (pendulum.week_ends_at, -1),
                     (pendulum.locale, "xx_YY")):
            try:
                f(a)
            except Exception:  # noqa: the call is expected to be rejected
                pass
    if "week" in what:
        pendulum.week_starts_at(pendulum.SUNDAY)
        pendulum.week_ends_at(pendulum.SATURDAY)
    if "locale" in what:
        pendulum.set_locale("de")
    if "localtz" in what:
        pendulum.set_local_timezone(pendulum.timezone("Asia/Kathmandu"))


def main():
    mod = importlib.import_module("props." + sys.argv[1])
    cases = json.load(open(sys.argv[2]))
    if os.environ.get("VERIF_AMBIENT"):
        ambient(os.environ["VERIF_AMBIENT"])
    out = mod.impl_run(cases)
    json.dump(out, open(sys.argv[3], "w"))


if __name__ == "__main__":
    main()
