"""A small fail-closed Rust-subset -> Gallina translator (tokenizer + recursive-descent parser + typed emission) for rust/src/helpers.rs.

Subset: `use ...;` (skipped), `[pub] fn name(a: T, ..) [-> T] { .. }`, `let [mut] x [: T] [= e];`, `x = e;`, `x op= e;` (+ - * / %), `if c {..} [else {..}]`
as a statement, `if c {a} else {b}` as an expression, `while c {..}` (with `break;` as the last statement of an `if` block of the body), `return e;`,
a tail expression, integer literals (`_` separators, type suffixes), true / false, `+ - * / %`, comparisons, `&& || !`, unary `-`, `e as T`, `A[i]`, `A[i][j]` on
the translated constants, tuples, calls of already translated functions, `T::from(e)`, `e.unsigned_abs()`, `e.into()`, `e.try_into().unwrap()`,
`<f64 parameter>.floor() as i64`.  Everything else raises Unsupported (ranges `a..=b`, `match`, `&`, `|`, `<<`, closures, references, macros, ...).

Semantics (the crate is built with overflow-checks = false):
  integers are Z; every + - * and unary - is wrapped into its type (Model/RustInt.v wrap_i32 ...; isize / usize are 64-bit)
  / and % are Rust's truncating division and remainder (Z.quot / Z.rem); the divisor must be statically a positive constant (no division by zero, no MIN / -1)
  `e as T`: the identity when every value of the source type fits T, else wrap_T
  T::from(b) on a bool: if b then 1 else 0 ; T::from(e) / e.into(): a widening conversion (checked), the identity
  e.try_into().unwrap(): e must index a translated constant table all of whose entries fit the target type (checked at translation time): the identity
  e.unsigned_abs(): Z.abs ;  A[i]: Lib/PyBase.tidx / tidx2 (an out-of-range index - a panic in Rust - yields the marker OOB, as in Model/RustHelpers.v)
  a `let` without type annotation and integer literals get their type by unification (operands of one operator, assignment, comparison, index = usize,
  call arguments); an integer literal that stays unconstrained is an i32
  a `let x: T;` without initialiser is only allowed when x is assigned in a loop body before it is read there and never read afterwards (it becomes a local of the body)
  `while`: a Fixpoint on a fuel argument returning an option of the tuple of the variables the body assigns; None = fuel exhausted.  The fuel of each loop is
  given by the caller (generator) and stated in the generated comment; a function with a loop returns an option
  an f64 parameter may only be used as `<param>.floor() as i64`: the translated function takes that integer (floor of the argument) instead

Second part (methods of the compiled parser that return Result):
  a first parameter `&self` / `&mut self` is dropped (self may only occur inside the argument of Err(..) and as the receiver of a call of a translated method)
  Result<T, E> is `option T`: Ok(e) = Some e ; Err(<anything>) = None — the argument of Err (a ParseError struct literal, format!(..), self.parse_error(..),
  self.idx, string literals) is skipped without being translated: the error KIND is all the hand models keep
  `for i in a..b { .. }` with statically known bounds: a Fixpoint on fuel (b - a + 1) over i, i of type usize unless unified otherwise; the body may `return`
  (inside an if block): the loop yields Model/RustInt.loop_res (LReturn r | LDone state | LFuel) and the caller continues with the statements after the loop on LDone
  an `if` block that contains a `return` somewhere inside but does not end in one: the rest of the function is duplicated into both branches

Third part (a method that reads the input: Parser::parse_integer):
  the parser state is the remaining input v_self : list Z (code points) with the primitives of Model/IsoParse.v: self.current = cur v_self (0 at the end),
  self.end() = isend v_self, self.inc(); = v_self := inc v_self.  A method that uses them takes v_self first and returns Some (value, v_self) for Ok(value)
  `if let Some(d) = self.current.to_digit(10) { A } else { B }`: if is_digit (cur v_self) then (d := cur v_self - 48 : u32; A) else B   (radix 10: ASCII digits only)
  a `&str` parameter is dropped (it may only occur inside the argument of Err(..))
  `for i in a..b` with a non-constant bound: fuel S (Z.to_nat (b - a)), the exact number of iterations plus the exit test"""
from __future__ import annotations

import re

from .py2gallina import Unsupported

INTS = {"i8": (True, 8), "i16": (True, 16), "i32": (True, 32), "i64": (True, 64), "isize": (True, 64),
        "u8": (False, 8), "u16": (False, 16), "u32": (False, 32), "u64": (False, 64), "usize": (False, 64)}


def rng(t):
    s, b = INTS[t]
    return (-(1 << (b - 1)), (1 << (b - 1)) - 1) if s else (0, (1 << b) - 1)


def fits(src, dst):
    a, b = rng(src)
    c, d = rng(dst)
    return c <= a and b <= d


def zlit(v):
    return f"({v})" if v < 0 else str(v)


# ---------------------------------------------------------------------------------------------- tokenizer
TOK = re.compile(r"\s*(?:(\d[\d_]*(?:[iu](?:8|16|32|64|size))?)|([A-Za-z_]\w*)|(\"(?:[^\"\\]|\\.)*\")|(::|->|==|!=|<=|>=|&&|\|\||\+=|-=|\*=|/=|%=|\.\.=|\.\.|<<|>>|[-+*/%=<>!&|(){}\[\],;:.#?^~@$']))")


def tokenize(text):
    text = re.sub(r"//[^\n]*", "", text)
    if "/*" in text:
        raise Unsupported("block comments")
    out, i = [], 0
    while i < len(text):
        m = TOK.match(text, i)
        if not m:
            if text[i:].strip() == "":
                break
            raise Unsupported(f"cannot tokenize: {text[i:i + 30]!r}")
        if m.group(1):
            out.append(("int", m.group(1)))
        elif m.group(2):
            out.append(("id", m.group(2)))
        elif m.group(3):
            out.append(("str", m.group(3)))
        else:
            out.append(("p", m.group(4)))
        i = m.end()
    return out


# ---------------------------------------------------------------------------------------------- parser
class Parser:
    def __init__(self, toks):
        self.t, self.i = toks, 0

    def peek(self, k=0):
        return self.t[self.i + k] if self.i + k < len(self.t) else ("eof", "")

    def at(self, val):
        return self.peek()[1] == val and self.peek()[0] not in ("int", "str")

    def eat(self, val=None, kind=None):
        tk = self.peek()
        if (val is not None and tk[1] != val) or (kind is not None and tk[0] != kind):
            raise Unsupported(f"parse: expected {val or kind}, found {tk[1]!r} (token {self.i})")
        self.i += 1
        return tk

    def items(self):
        fns = []
        while self.peek()[0] != "eof":
            if self.at("use"):
                while not self.at(";"):
                    self.eat()
                self.eat(";")
            elif self.at("pub") or self.at("fn"):
                if self.at("pub"):
                    self.eat()
                fns.append(self.fn())
            else:
                raise Unsupported(f"parse: item starting with {self.peek()[1]!r}")
        return fns

    def ty(self):
        if self.at("&"):
            self.eat("&")
            if self.eat(kind="id")[1] != "str":
                raise Unsupported("reference type other than &str")
            return "strref"
        if self.at("("):
            self.eat("(")
            ts = []
            while not self.at(")"):
                ts.append(self.ty())
                if self.at(","):
                    self.eat(",")
            self.eat(")")
            return ("tuple", ts)
        name = self.eat(kind="id")[1]
        if name == "Result":
            self.eat("<")
            t = self.ty()
            self.eat(",")
            self.eat(kind="id")
            self.eat(">")
            return ("result", t)
        if name not in INTS and name not in ("bool", "f64"):
            raise Unsupported(f"type {name}")
        return name

    def fn(self):
        self.eat("fn")
        name = self.eat(kind="id")[1]
        self.eat("(")
        params = []
        if self.at("&"):
            self.eat("&")
            if self.at("mut"):
                self.eat()
            self.eat("self")
            if self.at(","):
                self.eat(",")
        elif self.at("self"):
            self.eat("self")
            if self.at(","):
                self.eat(",")
        while not self.at(")"):
            p = self.eat(kind="id")[1]
            self.eat(":")
            params.append((p, self.ty()))
            if self.at(","):
                self.eat(",")
        self.eat(")")
        ret = None
        if self.at("->"):
            self.eat("->")
            ret = self.ty()
        return {"name": name, "params": params, "ret": ret, "body": self.block()}

    def block(self):
        self.eat("{")
        stmts = []
        while not self.at("}"):
            stmts.append(self.stmt())
        self.eat("}")
        return stmts

    def stmt(self):
        pos = self.i
        if self.at("let"):
            self.eat()
            if self.at("mut"):
                self.eat()
            name = self.eat(kind="id")[1]
            ty = None
            if self.at(":"):
                self.eat(":")
                ty = self.ty()
            e = None
            if self.at("="):
                self.eat("=")
                e = self.expr()
            self.eat(";")
            return ("let", name, ty, e, pos)
        if self.at("return"):
            self.eat()
            e = self.expr()
            self.eat(";")
            return ("return", e)
        if self.at("break"):
            self.eat()
            self.eat(";")
            return ("break",)
        if self.at("while"):
            self.eat()
            c = self.expr()
            return ("while", c, self.block())
        if self.at("for"):
            self.eat()
            v = self.eat(kind="id")[1]
            self.eat("in")
            a = self.expr()
            self.eat("..")
            b = self.expr()
            return ("for", v, a, b, self.block(), pos)
        if self.at("if") and self.peek(1)[1] == "let":
            self.eat()
            self.eat("let")
            self.eat("Some")
            self.eat("(")
            x = self.eat(kind="id")[1]
            self.eat(")")
            self.eat("=")
            e = self.expr()
            th = self.block()
            self.eat("else")
            el = self.block()
            return ("iflet", x, e, th, el)
        if self.at("if"):
            self.eat()
            c = self.expr()
            th = self.block()
            el = None
            if self.at("else"):
                self.eat()
                if self.at("if"):
                    el = [self.stmt()]
                else:
                    el = self.block()
            return ("ifs", c, th, el)
        e = self.expr()
        if self.peek()[1] in ("=", "+=", "-=", "*=", "/=", "%=") and self.peek()[0] == "p":
            op = self.eat()[1]
            if e[0] != "var":
                raise Unsupported("assignment to something that is not a variable")
            r = self.expr()
            self.eat(";")
            return ("assign", e[1], op, r)
        if self.at(";"):
            self.eat(";")
            return ("expr", e)
        if self.at("}"):
            return ("tail", e)
        raise Unsupported(f"parse: unexpected {self.peek()[1]!r} after an expression (token {self.i})")

    LEVELS = [["||"], ["&&"], ["==", "!=", "<", ">", "<=", ">="], ["+", "-"], ["*", "/", "%"]]

    def expr(self, lvl=0):
        if lvl == len(self.LEVELS):
            return self.cast()
        left = self.expr(lvl + 1)
        while self.peek()[0] == "p" and self.peek()[1] in self.LEVELS[lvl]:
            op = self.eat()[1]
            right = self.expr(lvl + 1)
            left = ("bin", op, left, right)
            if lvl == 2 and self.peek()[0] == "p" and self.peek()[1] in self.LEVELS[2]:
                raise Unsupported("chained comparison")
        return left

    def cast(self):
        e = self.unary()
        while self.at("as"):
            self.eat()
            e = ("as", e, self.ty())
        return e

    def unary(self):
        if self.at("!"):
            self.eat()
            return ("not", self.unary())
        if self.at("-"):
            self.eat()
            return ("neg", self.unary())
        return self.postfix()

    def postfix(self):
        e = self.primary()
        while True:
            if self.at("["):
                self.eat("[")
                i = self.expr()
                self.eat("]")
                e = ("index", e, i)
            elif self.at("."):
                self.eat(".")
                m = self.eat(kind="id")[1]
                if not self.at("("):
                    e = ("field", m, e)
                    continue
                self.eat("(")
                args = []
                while not self.at(")"):
                    args.append(self.expr())
                    if self.at(","):
                        self.eat(",")
                self.eat(")")
                if e == ("var", "self"):
                    e = ("call", m, args)
                elif args:
                    e = ("methodargs", m, e, args)
                else:
                    e = ("method", m, e)
            else:
                return e

    def primary(self):
        k, v = self.peek()
        pos = self.i
        if k == "int":
            self.eat()
            m = re.fullmatch(r"(\d[\d_]*?)([iu](?:8|16|32|64|size))?", v)
            return ("lit", int(m.group(1).replace("_", "")), m.group(2), pos)
        if self.at("("):
            self.eat("(")
            es = [self.expr()]
            is_tuple = False
            while self.at(","):
                is_tuple = True
                self.eat(",")
                if not self.at(")"):
                    es.append(self.expr())
            self.eat(")")
            return ("tuple", es) if is_tuple else es[0]
        if self.at("if"):
            self.eat()
            c = self.expr()
            a = self.block()
            self.eat("else")
            b = self.block()
            if len(a) != 1 or a[0][0] != "tail" or len(b) != 1 or b[0][0] != "tail":
                raise Unsupported("if-expression whose branches are not single expressions")
            return ("ife", c, a[0][1], b[0][1])
        if k == "id":
            self.eat()
            if v in ("true", "false"):
                return ("bool", v == "true")
            if v == "Err" and self.at("("):
                depth = 0
                while True:
                    tk = self.eat()
                    if tk[0] == "p" and tk[1] in "([{":
                        depth += 1
                    elif tk[0] == "p" and tk[1] in ")]}":
                        depth -= 1
                        if depth == 0:
                            break
                return ("err",)
            if v == "Ok" and self.at("("):
                self.eat("(")
                a = self.expr()
                self.eat(")")
                return ("ok", a)
            if self.at("::"):
                self.eat("::")
                f = self.eat(kind="id")[1]
                self.eat("(")
                a = self.expr()
                self.eat(")")
                return ("path", v, f, a)
            if self.at("("):
                self.eat("(")
                args = []
                while not self.at(")"):
                    args.append(self.expr())
                    if self.at(","):
                        self.eat(",")
                self.eat(")")
                return ("call", v, args)
            if self.at("!"):
                raise Unsupported("macro")
            return ("var", v)
        raise Unsupported(f"parse: unexpected {v!r} in an expression (token {self.i})")


# ---------------------------------------------------------------------------------------------- types with inference
class TV:
    """an integer type to be inferred"""

    def __init__(self):
        self.ref = None

    def find(self):
        t = self
        while isinstance(t, TV) and t.ref is not None:
            t = t.ref
        return t


def res(t):
    return t.find() if isinstance(t, TV) else t


class V:
    def __init__(self, text, ty, known=None, table=None):
        self.text, self.ty, self.known, self.table = text, ty, known, table


def atom(t):
    t = t.strip()
    if re.fullmatch(r"[\w.']+", t):
        return t
    if t.startswith("("):
        depth = 0
        for i, c in enumerate(t):
            depth += c == "("
            depth -= c == ")"
            if depth == 0:
                if i == len(t) - 1:
                    return t
                break
    return f"({t})"


class RustTr:
    """consts: name -> (coq name, type, value) with type an int type, ("arr", T) or ("arr2", T); funcs: name -> (coq name, [param types], ret type, optional?)"""

    def __init__(self, consts, funcs, prefix="gen_rs_"):
        self.consts, self.funcs, self.prefix = consts, funcs, prefix
        self.tvs = {}
        self.aux = []

    def fail(self, why):
        raise Unsupported(f"rust {self.where}: {why}")

    def tv(self, key):
        key = (self.fname, key)
        if key not in self.tvs:
            self.tvs[key] = TV()
        return self.tvs[key]

    def unify(self, a, b):
        a, b = res(a), res(b)
        if a is b or a == b:
            return a
        if isinstance(a, TV):
            a.ref = b
            return b
        if isinstance(b, TV):
            b.ref = a
            return a
        self.fail(f"type mismatch {a} / {b}")

    def final(self, t):
        t = res(t)
        if isinstance(t, TV):
            return "i32" if self.emit else t
        return t

    def wrap(self, t, text):
        t = self.final(t)
        if isinstance(t, TV):
            return text
        return f"(wrap_{t} {atom(text)})"

    # ------------------------------------------------------------------ expressions
    def expr(self, e, env) -> V:
        k = e[0]
        if k == "lit":
            t = e[2] if e[2] else self.tv(("lit", e[3]))
            return V(zlit(e[1]), t, e[1])
        if k == "bool":
            return V("true" if e[1] else "false", "bool")
        if k == "var":
            if e[1] in env:
                v = env[e[1]]
                if v.ty == "pstate":
                    self.fail("self used other than through self.current / self.end() / self.inc() / a method call / inside Err(..)")
                if v.ty == "f64":
                    self.fail(f"the f64 parameter {e[1]} used other than as {e[1]}.floor() as i64")
                if v.ty == "unset":
                    self.fail(f"{e[1]} is read before it is assigned")
                return v
            if e[1] in self.consts:
                cn, ty, val = self.consts[e[1]]
                return V(cn, ty, val if isinstance(val, int) else None, table=val if not isinstance(val, int) else None)
            self.fail(f"unknown name {e[1]}")
        if k == "tuple":
            vs = [self.expr(x, env) for x in e[1]]
            return V("(" + ", ".join(v.text for v in vs) + ")", ("tuple", [v.ty for v in vs]))
        if k == "not":
            a = self.expr(e[1], env)
            if a.ty != "bool":
                self.fail("! on a non-boolean (bitwise not is not in the subset)")
            return V(f"(negb {atom(a.text)})", "bool")
        if k == "neg":
            a = self.expr(e[1], env)
            if a.ty == "bool" or isinstance(a.ty, tuple):
                self.fail("unary - on a non-integer")
            return V(self.wrap(a.ty, f"- {atom(a.text)}"), a.ty, None if a.known is None else -a.known)
        if k == "ife":
            c = self.expr(e[1], env)
            a = self.expr(e[2], env)
            b = self.expr(e[3], env)
            if c.ty != "bool":
                self.fail("if condition is not a bool")
            t = a.ty if a.ty == "bool" else self.unify(a.ty, b.ty)
            return V(f"(if {c.text} then {atom(a.text)} else {atom(b.text)})", t)
        if k == "as":
            return self.cast(e, env)
        if k == "index":
            return self.index(e, env)
        if k == "method":
            return self.method(e, env)
        if k == "path":
            return self.path(e, env)
        if k == "call":
            if e[1] == "end" and not e[2] and self.stateful:
                return V(f"(isend {env['self'].text})", "bool")
            if e[1] not in self.funcs:
                self.fail(f"call of {e[1]}, which is not a translated function")
            cn, ptys, rty, opt = self.funcs[e[1]]
            if (opt and not (isinstance(rty, tuple) and rty[0] == "result")) or len(ptys) != len(e[2]):
                self.fail(f"call of {e[1]}: arity / a function with a loop cannot be called")
            args = []
            for a, pt in zip(e[2], ptys):
                v = self.expr(a, env)
                self.unify(v.ty, pt)
                args.append(atom(v.text))
            return V("(" + " ".join([cn] + args) + ")", rty)
        if k == "bin":
            return self.binary(e, env)
        if k == "ok":
            a = self.expr(e[1], env)
            if self.stateful:
                return V(f"(Some ({a.text}, {env['self'].text}))", ("result", a.ty))
            return V(f"(Some {atom(a.text)})", ("result", a.ty))
        if k == "field" and e[1] == "current" and e[2] == ("var", "self") and self.stateful:
            return V(f"(cur {env['self'].text})", "char")
        if k == "call" and e[1] == "end" and not e[2] and self.stateful:
            return V(f"(isend {env['self'].text})", "bool")
        if k == "err":
            return V("None", ("result", None))
        self.fail(f"expression form {k}")

    def binary(self, e, env):
        op = e[1]
        a = self.expr(e[2], env)
        b = self.expr(e[3], env)
        if op in ("&&", "||"):
            if a.ty != "bool" or b.ty != "bool":
                self.fail(f"{op} on non-booleans")
            return V(f"({atom(a.text)} {op} {atom(b.text)})", "bool")
        if a.ty == "bool" or b.ty == "bool" or isinstance(a.ty, tuple) or isinstance(b.ty, tuple):
            self.fail(f"{op} on a bool / tuple")
        t = self.unify(a.ty, b.ty)
        if op in ("==", "!=", "<", ">", "<=", ">="):
            x, y = a.text, b.text
            txt = {"==": f"({x} =? {y})", "!=": f"(negb ({x} =? {y}))", "<": f"({x} <? {y})", ">": f"({x} >? {y})", "<=": f"({x} <=? {y})",
                   ">=": f"({x} >=? {y})"}[op]
            return V(txt, "bool")
        both = a.known is not None and b.known is not None
        if op in ("+", "-", "*"):
            kn = {"+": lambda x, y: x + y, "-": lambda x, y: x - y, "*": lambda x, y: x * y}[op](a.known, b.known) if both else None
            return V(self.wrap(t, f"{a.text} {op} {b.text}"), t, kn)
        if op in ("/", "%"):
            if b.known is None or b.known <= 0:
                self.fail(f"{op} by something that is not statically a positive constant (division by zero / MIN / -1 are not modelled)")
            f = "Z.quot" if op == "/" else "Z.rem"
            return V(f"({f} {atom(a.text)} {atom(b.text)})", t)
        self.fail(f"operator {op}")

    def cast(self, e, env):
        a = self.expr(e[1], env)
        T = e[2]
        if T not in INTS:
            self.fail(f"cast to {T}")
        if a.ty == "f64floor":
            if T != "i64":
                self.fail("<f64>.floor() cast to something other than i64")
            return V(a.text, "i64")
        if a.ty == "bool" or isinstance(a.ty, tuple):
            self.fail("cast of a non-integer")
        S = self.final(a.ty)
        if isinstance(S, TV):
            # an unconstrained literal takes the target type
            self.unify(a.ty, T)
            return V(a.text, T, a.known)
        if fits(S, T):
            return V(a.text, T, a.known)
        if a.known is not None and rng(T)[0] <= a.known <= rng(T)[1]:
            return V(a.text, T, a.known)
        return V(f"(wrap_{T} {atom(a.text)})", T)

    def index(self, e, env):
        base, i = e[1], e[2]
        iv = self.expr(i, env)
        self.unify(iv.ty, "usize")
        if base[0] == "var" and base[1] in self.consts and isinstance(self.consts[base[1]][1], tuple):
            cn, ty, val = self.consts[base[1]]
            if ty[0] == "arr":
                return V(f"(tidx {cn} {atom(iv.text)})", ty[1], table=("row", val))
            return V(f"(tidx2 {cn} {atom(iv.text)})", ("arr", ty[1]), table=("rows", val))
        if base[0] == "index":
            b = self.index(base, env)
            if isinstance(b.ty, tuple) and b.ty[0] == "arr":
                rows = b.table[1] if b.table else None
                return V(f"(tidx {b.text} {atom(iv.text)})", b.ty[1], table=("row", tuple(x for r in rows for x in r)) if rows else None)
        self.fail("indexing of something that is not a translated constant table")

    def method(self, e, env):
        m, recv = e[1], e[2]
        if m == "floor" and recv[0] == "var" and recv[1] in env and env[recv[1]].ty == "f64":
            return V(env[recv[1]].text, "f64floor")
        if m == "unwrap" and recv[0] == "method" and recv[1] == "try_into":
            a = self.expr(recv[2], env)
            return self.convert(a, checked=True)
        if m == "into":
            return self.convert(self.expr(recv, env), checked=False)
        a = self.expr(recv, env)
        if m == "unsigned_abs":
            S = self.final(a.ty)
            if isinstance(S, TV) or not INTS.get(S, (False,))[0]:
                self.fail("unsigned_abs on something that is not a signed integer")
            return V(f"(Z.abs {atom(a.text)})", "u" + S[1:])
        self.fail(f"method .{m}()")

    def convert(self, a, checked):
        """e.into() / e.try_into().unwrap(): the target type is inferred; the conversion must be value-preserving"""
        t = TV()
        self.pending.append((a, t, checked))
        return V(a.text, t, a.known)

    def check_pending(self):
        for a, t, checked in self.pending:
            S, Tt = self.final(a.ty), self.final(t)
            if isinstance(S, TV) or isinstance(Tt, TV) or S not in INTS or Tt not in INTS:
                self.fail("conversion whose types cannot be inferred")
            if fits(S, Tt):
                continue
            if checked and a.table and a.table[0] == "row" and all(rng(Tt)[0] <= x <= rng(Tt)[1] for x in a.table[1]):
                continue
            self.fail(f"conversion {S} -> {Tt} that is not value-preserving (into: widening only; try_into().unwrap(): entries of a constant table that fit)")

    def path(self, e, env):
        T, f, a = e[1], e[2], e[3]
        if f != "from" or T not in INTS:
            self.fail(f"{T}::{f}")
        v = self.expr(a, env)
        if v.ty == "bool":
            return V(f"(if {v.text} then 1 else 0)", T)
        S = self.final(v.ty)
        if isinstance(S, TV):
            self.unify(v.ty, T)
            return V(v.text, T, v.known)
        if not fits(S, T):
            self.fail(f"{T}::from({S}) is not a widening conversion")
        return V(v.text, T, v.known)

    # ------------------------------------------------------------------ statements
    @staticmethod
    def names_in(x, acc):
        if isinstance(x, (tuple, list)):
            if len(x) >= 2 and x[0] == "var" and isinstance(x[1], str):
                acc.add(x[1])
            for y in x:
                RustTr.names_in(y, acc)
        return acc

    @staticmethod
    def assigned(stmts, acc=None):
        acc = [] if acc is None else acc
        for s in stmts:
            if s[0] == "assign" and s[1] not in acc:
                acc.append(s[1])
            elif s[0] == "expr" and s[1] == ("call", "inc", []) and "self" not in acc:
                acc.append("self")
            elif s[0] == "iflet":
                RustTr.assigned(s[3], acc)
                RustTr.assigned(s[4], acc)
            elif s[0] == "ifs":
                RustTr.assigned(s[2], acc)
                if s[3]:
                    RustTr.assigned(s[3], acc)
            elif s[0] == "while":
                RustTr.assigned(s[2], acc)
        return acc

    @staticmethod
    def has_return(stmts):
        for x in stmts:
            if x[0] == "return":
                return True
            if x[0] == "ifs" and (RustTr.has_return(x[2]) or (x[3] and RustTr.has_return(x[3]))):
                return True
            if x[0] == "iflet" and (RustTr.has_return(x[3]) or RustTr.has_return(x[4])):
                return True
        return False

    @staticmethod
    def exits(stmts):
        return bool(stmts) and stmts[-1][0] in ("return", "break")

    def ret(self, text):
        return f"Some {atom(text)}" if self.optional else text

    def block(self, stmts, env, k):
        """k(env) -> text when the statements run out"""
        if not stmts:
            return k(env)
        s, rest = stmts[0], stmts[1:]
        kind = s[0]
        if kind == "let":
            _, name, ty, e, pos = s
            if e is None:
                if ty is None:
                    self.fail(f"let {name}; without type and initialiser")
                env2 = dict(env)
                env2[name] = V("", "unset")
                env2["__decl__" + name] = V("", ty)
                return self.block(rest, env2, k)
            v = self.expr(e, env)
            t = ty if ty is not None else (v.ty if (v.ty == "bool" or isinstance(v.ty, tuple)) else None)
            if t is None:
                t = self.tv(("let", pos))
            if v.ty != "bool" and not isinstance(v.ty, tuple):
                self.unify(v.ty, t)
            elif v.ty != t:
                self.fail("let: type mismatch")
            env2 = dict(env)
            env2[name] = V("v_" + name, t)
            return f"let v_{name} := {v.text} in\n  " + self.block(rest, env2, k)
        if kind == "assign":
            _, name, op, e = s
            if name not in env:
                self.fail(f"assignment to an unknown variable {name}")
            cur = env[name]
            if cur.ty == "unset":
                if op != "=":
                    self.fail(f"{name} op= before it is assigned")
                v = self.expr(e, env)
                t = env["__decl__" + name].ty
                self.unify(v.ty, t)
            elif op == "=":
                v = self.expr(e, env)
                t = cur.ty
                self.unify(v.ty, t)
            else:
                v = self.expr(("bin", op[0], ("var", name), e), env)
                t = cur.ty
            env2 = dict(env)
            env2[name] = V("v_" + name, t)
            return f"let v_{name} := {v.text} in\n  " + self.block(rest, env2, k)
        if kind in ("return", "tail"):
            if kind == "tail" and rest:
                self.fail("statements after a tail expression")
            v = self.expr(s[1], env)
            if self.ret_ty is not None:
                self.check_ret(v)
            text = self.ret(v.text)
            return self.ret_wrap(text) if self.ret_wrap else text
        if kind == "break":
            self.fail("break outside the recognised position (last statement of an if block of a loop body)")
        if kind == "expr":
            if s[1] == ("call", "inc", []) and self.stateful:
                env2 = dict(env)
                env2["self"] = V("v_self", "pstate")
                return f"let v_self := (inc {env['self'].text}) in\n  " + self.block(rest, env2, k)
            self.fail("expression statement")
        if kind == "iflet":
            _, x, e, th, el = s
            ok = (self.stateful and e[0] == "methodargs" and e[1] == "to_digit" and e[2] == ("field", "current", ("var", "self"))
                  and len(e[3]) == 1 and e[3][0][0] == "lit" and e[3][0][1] == 10)
            if not ok or not self.exits(el):
                self.fail("if let other than `if let Some(d) = self.current.to_digit(10) { .. } else { return .. }`")
            st = env["self"].text
            env_t = dict(env)
            env_t[x] = V("v_" + x, "u32")
            a = self.block(th + rest, env_t, k)
            b = self.block(el, env, k)
            return f"if (is_digit (cur {st})) then (let v_{x} := ((cur {st}) - 48) in\n  {a}) else ({b})"
        if kind == "ifs":
            return self.if_stmt(s, rest, env, k)
        if kind == "while":
            return self.while_stmt(s, rest, env, k)
        if kind == "for":
            return self.for_stmt(s, rest, env, k)
        self.fail(f"statement {kind}")

    def check_ret(self, v):
        want = self.ret_ty
        if isinstance(want, tuple) and want[0] == "result":
            if not (isinstance(v.ty, tuple) and v.ty[0] == "result"):
                self.fail("returns a non-Result from a function returning Result")
            inner, got = want[1], v.ty[1]
            if got is not None and isinstance(inner, tuple) and inner[0] == "tuple":
                if not (isinstance(got, tuple) and got[0] == "tuple" and len(got[1]) == len(inner[1])):
                    self.fail("Ok(..) tuple shape")
                for a, b in zip(got[1], inner[1]):
                    self.unify(a, b)
            elif got is not None and not isinstance(inner, tuple):
                self.unify(got, inner)
        elif isinstance(want, tuple) and want[0] == "tuple":
            if not (isinstance(v.ty, tuple) and v.ty[0] == "tuple" and len(v.ty[1]) == len(want[1])):
                self.fail("returned tuple shape")
            for a, b in zip(v.ty[1], want[1]):
                self.unify(a, b)
        elif want == "bool":
            if v.ty != "bool":
                self.fail("returns a non-bool")
        else:
            self.unify(v.ty, want)

    def if_stmt(self, s, rest, env, k):
        _, c, th, el = s
        cv = self.expr(c, env)
        if cv.ty != "bool":
            self.fail("if condition is not a bool")
        if self.exits(th):
            if el is not None:
                self.fail("else after an if block that returns / breaks")
            if th[-1][0] == "break":
                if self.loop_exit is None:
                    self.fail("break outside a loop")
                a = self.block(th[:-1], env, self.loop_exit)
            else:
                a = self.block(th, env, k)
            b = self.block(rest, env, k)
            return f"if {cv.text} then ({a}) else ({b})"
        if self.has_return(th + (el or [])):
            a = self.block(th + rest, env, k)
            b = self.block((el or []) + rest, env, k)
            return f"if {cv.text} then ({a}) else ({b})"
        W = [w for w in self.assigned(th + (el or [])) if w in env]
        for blk in (th, el or []):
            for x in blk:
                if x[0] in ("return", "break", "while", "tail"):
                    self.fail("return / break / loop in the middle of an if block")

        def end(env2):
            vals = [env2[w].text for w in W]
            return vals[0] if len(vals) == 1 else "(" + ", ".join(vals) + ")"
        a = self.block(th, env, end)
        b = self.block(el or [], env, end)
        env2 = dict(env)
        for w in W:
            if env[w].ty == "unset":
                self.fail(f"{w} assigned in a branch only")
            env2[w] = V("v_" + w, env[w].ty)
        pat = "v_" + W[0] if len(W) == 1 else "'(" + ", ".join("v_" + w for w in W) + ")"
        return f"let {pat} := if {cv.text} then ({a}) else ({b}) in\n  " + self.block(rest, env2, k)

    def while_stmt(self, s, rest, env, k):
        _, c, body = s
        if self.loop_exit is not None:
            self.fail("nested loops")
        if not self.fuels:
            self.fail("a loop without a fuel given by the caller")
        fuel = self.fuels.pop(0)
        self.nloops += 1
        name = f"{self.prefix}{self.fname}_loop{self.nloops}"
        after = self.names_in(rest, set())
        W = []
        body_locals = []
        for w in self.assigned(body):
            if w not in env:
                self.fail(f"the loop assigns the unknown variable {w}")
            if env[w].ty == "unset":
                first = next((x for x in body if w in self.names_in(x, set()) or (x[0] == "assign" and x[1] == w)), None)
                if not (first is not None and first[0] == "assign" and first[1] == w and first[2] == "=" and w not in self.names_in(first[3], set())
                        and w not in after):
                    self.fail(f"{w} is declared without a value and is not a pure local of the loop body")
                body_locals.append(w)
            else:
                W.append(w)
        used = self.names_in(c, set()) | self.names_in(body, set())
        R = [n for n in env if not n.startswith("__decl__") and n in used and n not in W and n not in body_locals and env[n].ty not in ("unset", "f64")]
        state = "(" + ", ".join("v_" + w for w in W) + ")" if len(W) != 1 else "v_" + W[0]
        self.loop_exit = lambda env2: "Some " + atom("(" + ", ".join(env2[w].text for w in W) + ")" if len(W) != 1 else env2[W[0]].text)
        cv = self.expr(c, env)
        if cv.ty != "bool":
            self.fail("while condition is not a bool")
        saved_opt = self.optional
        self.optional = True
        btxt = self.block(body, env, lambda env2: " ".join([name, "fuel'"] + ["v_" + r for r in R] + [atom(env2[w].text) for w in W]))
        self.optional = saved_opt
        self.loop_exit = None
        for x in body:
            if x[0] in ("return", "tail", "while"):
                self.fail("return / nested loop in a loop body")
        params = " ".join(f"(v_{n} : Z)" for n in R + W)
        rty = " * ".join("Z" for _ in W) if W else "unit"
        self.aux.append(f"(* {self.fname}: loop {self.nloops} (`while ...`), fuel {fuel} at the call; state: {', '.join(W)}; None = fuel exhausted *)\n"
                        f"Fixpoint {name} (fuel : nat) {params} : option ({rty}) :=\n  match fuel with\n  | O => None\n  | S fuel' =>\n"
                        f"    if {cv.text} then (\n  {btxt})\n    else Some {state}\n  end.\n")
        self.optional = True
        env2 = dict(env)
        for w in W:
            env2[w] = V("v_" + w, env[w].ty)
        call = " ".join([name, str(fuel)] + ["v_" + r for r in R] + ["v_" + w for w in W])
        pat = state if len(W) == 1 else "(" + ", ".join("v_" + w for w in W) + ")"
        return f"match {call} with\n  | None => None\n  | Some {pat} =>\n  " + self.block(rest, env2, k) + "\n  end"

    def for_stmt(self, s, rest, env, k):
        _, var, a, b, body, pos = s
        if self.loop_exit is not None or self.ret_wrap is not None:
            self.fail("nested loops")
        if not (isinstance(self.ret_ty, tuple) and self.ret_ty[0] == "result"):
            self.fail("a for loop in a function that does not return Result")
        av, bv = self.expr(a, env), self.expr(b, env)
        ity = self.tv(("for", pos))
        self.unify(av.ty, ity)
        self.unify(bv.ty, ity)
        if av.known is not None and bv.known is not None:
            if bv.known < av.known:
                self.fail("for loop with b < a")
            fuel = bv.known - av.known + 1
        else:
            fuel = f"(S (Z.to_nat ({bv.text} - {av.text})))"
        W = [w for w in self.assigned(body) if w in env]
        for x in body:
            if x[0] in ("while", "for", "tail", "break"):
                self.fail("loop / break / tail expression directly in a for body")
        used = self.names_in(body, set())
        R = [n for n in env if not n.startswith("__decl__") and n in used and n not in W and env[n].ty not in ("unset", "f64")]
        if bv.known is None and b[0] == "var" and b[1] not in R:
            R.append(b[1])
        cty = lambda n: "bool" if env[n].ty == "bool" else ("list Z" if env[n].ty == "pstate" else "Z")
        self.nloops += 1
        name = "@LOOP@"
        state = "tt" if not W else ("v_" + W[0] if len(W) == 1 else "(" + ", ".join("v_" + w for w in W) + ")")
        env_b = dict(env)
        env_b[var] = V("v_" + var, ity)
        self.ret_wrap = lambda t: f"LReturn {atom(t)}"
        btxt = self.block(body, env_b, lambda env2: " ".join([name, "fuel'"] + ["v_" + r for r in R] + [f"(v_{var} + 1)"] + [atom(env2[w].text) for w in W]))
        self.ret_wrap = None
        params = " ".join(f"(v_{n} : {cty(n)})" for n in R) + f" (v_{var} : Z) " + " ".join(f"(v_{w} : {cty(w)})" for w in W)
        sty = "unit" if not W else " * ".join(cty(w) for w in W)
        body_text = (f"Fixpoint {name} (fuel : nat) {params} : loop_res ({self.coq_ret}) ({sty}) :=\n  match fuel with\n  | O => LFuel\n  | S fuel' =>\n"
                     f"    if (v_{var} <? {bv.text}) then (\n  {btxt})\n    else LDone {state}\n  end.\n")
        if body_text in self.loop_cache:
            real = self.loop_cache[body_text]
        else:
            real = f"{self.prefix}{self.fname}_for{len(self.loop_cache) + 1}"
            self.loop_cache[body_text] = real
            self.aux.append(f"(* {self.fname}: `for {var} in {av.text}..{bv.text}` (fuel {fuel}: one step per value and one for the exit test); "
                            f"LReturn = the body returned, LDone = the range is exhausted *)\n" + body_text.replace("@LOOP@", real))
        env2 = dict(env)
        for w in W:
            env2[w] = V("v_" + w, env[w].ty)
        call = " ".join([real, str(fuel)] + ["v_" + r for r in R] + [atom(av.text)] + ["v_" + w for w in W])
        pat = "_" if not W else state
        return (f"match {call} with\n  | LReturn r => r\n  | LFuel => None\n  | LDone {pat} =>\n  " + self.block(rest, env2, k) + "\n  end")

    # ------------------------------------------------------------------ functions
    def function(self, fn, fuels=()):
        self.where = fn["name"]
        self.fname = fn["name"]
        out = None
        aux_base = list(self.aux)
        for emit in (False, True):
            self.emit = emit
            self.aux = list(aux_base)
            self.pending = []
            self.fuels = list(fuels)
            self.nloops = 0
            self.loop_exit = None
            self.ret_wrap = None
            self.loop_cache = {}
            self.optional = False
            self.ret_ty = fn["ret"]
            self.coq_ret = self.coq_type(fn["ret"])
            env = {}
            params = []
            self.stateful = self.uses_state(fn["body"])
            if self.stateful:
                env["self"] = V("v_self", "pstate")
                if not (isinstance(fn["ret"], tuple) and fn["ret"][0] == "result"):
                    self.fail("a method that reads the input must return Result")
                self.coq_ret = "option (" + self.coq_type(fn["ret"][1]) + " * list Z)"
            for p, t in fn["params"]:
                if t == "strref":
                    continue
                if isinstance(t, tuple):
                    self.fail("tuple parameter")
                env[p] = V("v_" + p, t)
                params.append((p, t))
            has_loop = any(s[0] == "while" for s in fn["body"])
            if has_loop and isinstance(fn["ret"], tuple) and fn["ret"][0] == "result":
                self.fail("while loop in a function returning Result")
            if has_loop:
                # the whole function is an option: decide before translating so that every return is wrapped
                self.optional_fn = True
            body = self.translate_body(fn["body"], env, has_loop)
            self.check_pending()
            out = body
        if self.fuels:
            self.fail("more fuels than loops")
        ret = fn["ret"]
        coq_ret = self.coq_ret if self.stateful else self.coq_type(ret)
        if has_loop:
            coq_ret = f"option {coq_ret}"
        sig = ("(v_self : list Z) " if self.stateful else "") + " ".join(f"(v_{p} : {'bool' if t == 'bool' else 'Z'})" for p, t in params)
        name = self.prefix + fn["name"]
        text = f"Definition {name} {sig} : {coq_ret} :=\n  {out}.\n"
        self.funcs[fn["name"]] = (name, [t for _, t in params], ret, has_loop)
        return text

    @staticmethod
    def uses_state(x):
        if isinstance(x, (tuple, list)):
            if x == ("call", "inc", []) or x == ("call", "end", []) or x == ("field", "current", ("var", "self")):
                return True
            return any(RustTr.uses_state(y) for y in x)
        return False

    @staticmethod
    def coq_type(t):
        if t == "bool":
            return "bool"
        if isinstance(t, tuple) and t[0] == "tuple":
            return "(" + " * ".join(RustTr.coq_type(x) for x in t[1]) + ")"
        if isinstance(t, tuple) and t[0] == "result":
            return "option " + RustTr.coq_type(t[1])
        return "Z"

    def translate_body(self, stmts, env, has_loop):
        # returns before the first loop must already be options in a function with a loop
        self.optional = has_loop
        return self.block(stmts, env, lambda e: self.fail("control reaches the end of the function without a value"))
