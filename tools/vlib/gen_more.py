"""Further generated files (added property by property)."""
from . import gen_rust


def steps(ctx):
    return [("RustConstants.v", lambda: gen_rust.gen_rust_constants(ctx))]
